#!/usr/bin/env python3
"""tools/seed_eval_all.py [tag ...]
For every seeded change under /verif/seeded/<tag>/ : copy /repo to scratch, run the demo on the clean copy
(must PASS), apply patch.diff, run the demo again (must FAIL), run the property's quick check against the
patched copy (should exit 1) and record everything in seeded/<tag>/evaluation.json and seeded/RESULTS.md.
The real /repo is never modified."""
import json
import os
import re
import shutil
import subprocess
import sys
import tempfile
import time

ROOT = os.path.dirname(os.path.dirname(os.path.abspath(__file__)))
SEEDED = os.path.join(ROOT, "seeded")
PY = "/venv/bin/python"


def run(cmd, **kw):
    p = subprocess.run(cmd, stdout=subprocess.PIPE, stderr=subprocess.STDOUT, text=True, **kw)
    return p.returncode, p.stdout


def evaluate(tag, extra_props=()):
    d = os.path.join(SEEDED, tag)
    meta = json.load(open(os.path.join(d, "meta.json")))
    prop = meta["property"]
    res = {"tag": tag, "property": prop, "repo_head": run(["git", "-C", "/repo", "rev-parse", "--short", "HEAD"])[1].strip(),
           "verif_head": run(["git", "-C", ROOT, "rev-parse", "--short", "HEAD"])[1].strip()}
    scratch = tempfile.mkdtemp(prefix="pgmpy-seed.", dir="/dev/shm")
    try:
        run(["rsync", "-a", "--exclude", ".git", "--exclude", "__pycache__", "/repo/", scratch + "/"])
        env = dict(os.environ, PYTHONPATH=scratch)
        rc, out = run([PY, "-W", "ignore", os.path.join(d, "demo.py")], cwd=scratch, env=env, timeout=1800)
        res["demo_clean_rc"] = rc
        rc, out = run(["git", "apply", "--unsafe-paths", os.path.join(d, "patch.diff")], cwd=scratch)
        if rc != 0:
            rc, out = run(["patch", "-p1", "--quiet", "-i", os.path.join(d, "patch.diff")], cwd=scratch)
        res["applies_to_repo_head"] = rc == 0
        if rc != 0:
            res["note"] = "patch no longer applies to /repo HEAD: " + out[-300:]
            return res
        rc, out = run([PY, "-W", "ignore", os.path.join(d, "demo.py")], cwd=scratch, env=env, timeout=1800)
        res["demo_patched_rc"] = rc
        res["demo_patched_tail"] = [l for l in out.splitlines() if "Warning" not in l and not l.startswith("INFO")][-3:]
        res["checks"] = {}
        for p in [prop] + [x for x in extra_props if x != prop]:
            env2 = dict(os.environ, RV_REPO=scratch, RV_EVIDENCE_DIR=os.path.join(scratch, ".evidence"))
            t0 = time.time()
            rc, out = run([os.path.join(ROOT, "check"), p, "--tier", "quick"], env=env2, timeout=3600)
            viol = [l.strip() for l in out.splitlines() if l.strip().startswith("[") and "]" in l and not l.startswith("[C")]
            res["checks"][p] = {"exit": rc, "wall_s": round(time.time() - t0, 1),
                                "first_violations": [v[:260] for v in viol[:3]]}
    finally:
        shutil.rmtree(scratch, ignore_errors=True)
    return res


def main():
    tags = sys.argv[1:] or sorted(t for t in os.listdir(SEEDED) if os.path.isdir(os.path.join(SEEDED, t)))
    rows = []
    for tag in tags:
        ev_path = os.path.join(SEEDED, tag, "evaluation.json")
        extra = []
        if os.path.exists(ev_path):
            extra = json.load(open(ev_path)).get("also_checked", [])
        res = evaluate(tag, extra)
        if extra:
            res["also_checked"] = extra
        old = json.load(open(ev_path)) if os.path.exists(ev_path) else {}
        for k in ("initially_missed", "strengthening", "tests", "note"):
            if k in old and k not in res:
                res[k] = old[k]
        json.dump(res, open(ev_path, "w"), indent=1)
        c = res.get("checks", {}).get(res["property"], {})
        print(tag, res["property"], "demo", res.get("demo_clean_rc"), res.get("demo_patched_rc"),
              "check exit", c.get("exit"), flush=True)
    write_results()


def write_results():
    lines = ["# Seeded changes and what catches them", "",
             "| tag | property | summary (from the seeder) | needs | demo clean/patched | check exit (quick) | initially missed -> strengthening |",
             "|---|---|---|---|---|---|---|"]
    for tag in sorted(os.listdir(SEEDED)):
        d = os.path.join(SEEDED, tag)
        if not os.path.isdir(d) or not os.path.exists(os.path.join(d, "evaluation.json")):
            continue
        m = json.load(open(os.path.join(d, "meta.json")))
        e = json.load(open(os.path.join(d, "evaluation.json")))
        chk = "; ".join(f"{p}: {c['exit']}" for p, c in e.get("checks", {}).items()) or e.get("note", "")[:60]
        esc = lambda s: re.sub(r"\s+", " ", str(s)).replace("|", "\\|")
        lines.append(f"| {tag} | {m['property']} | {esc(m.get('summary', ''))[:220]} | {esc(m.get('needs', ''))[:200]} | "
                     f"{e.get('demo_clean_rc')}/{e.get('demo_patched_rc')} | {chk} | {esc(e.get('strengthening', ''))} |")
    open(os.path.join(SEEDED, "RESULTS.md"), "w").write("\n".join(lines) + "\n")


if __name__ == "__main__":
    main()
