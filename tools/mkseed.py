#!/usr/bin/env python3
"""tools/mkseed.py <PID> <tag> [hint...]  -> creates worktree /tmp/seedwt-<tag> and prints the prompt file path."""
import json, subprocess, sys
pid, tag = sys.argv[1], sys.argv[2]
hint = " ".join(sys.argv[3:])
wt = f"/tmp/seedwt-{tag}"
subprocess.run(["git", "-C", "/repo", "worktree", "add", "-q", "--detach", wt, "HEAD"], check=True)
subprocess.run(["mkdir", "-p", f"/tmp/seed-{tag}"])
p = [json.loads(l) for l in open("/verif/properties.jsonl") if json.loads(l)["id"] == pid][0]
s = open("/tmp/seed_prompt.txt").read()
anch = "; ".join(f"{m['name']} ({m['where']})" for m in p["anchors"]["mechanism"])
s = (s.replace("__WT__", wt).replace("__TAG__", tag).replace("__PID__", pid)
      .replace("__STATEMENT__", p["statement"]).replace("__QUANT__", p["quantifier"]["text"])
      .replace("__ANCHORS__", anch).replace("__HINT__", hint))
open(f"/tmp/seed-{tag}/prompt.txt", "w").write(s)
print(f"/tmp/seed-{tag}/prompt.txt")
