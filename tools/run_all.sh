#!/bin/bash
# tools/run_all.sh [tier] [props...]  : run every check once, print rc and wall per property
TIER=${1:-quick}; shift
PROPS=${@:-C01 C02 C03 C04 C05 C06 C07 C08 C09 C10 C11 C12 C13 C14 C15 C16 C17 C18 C19 C20}
cd "$(dirname "$0")/.."
for p in $PROPS; do
  t0=$(date +%s)
  ./check $p --tier $TIER > /tmp/runall_$p.log 2>&1; rc=$?
  t1=$(date +%s)
  echo "$p rc=$rc wall=$((t1-t0))s $(grep -c '^KNOWN-FINDING' /tmp/runall_$p.log) known; $(grep -E '^(VIOLATION|INCONCLUSIVE)' /tmp/runall_$p.log | head -2 | cut -c1-160 | tr '\n' ' ')"
done
