#!/usr/bin/env python3
"""Merge kf/Cxx.json fragments + kf/fixed.json into known_findings.json."""
import glob, json, os
ROOT = os.path.dirname(os.path.dirname(os.path.abspath(__file__)))
fixed = json.load(open(os.path.join(ROOT, "kf", "fixed.json")))
out = []
for f in sorted(glob.glob(os.path.join(ROOT, "kf", "C*.json"))):
    for e in json.load(open(f)):
        e = dict(e)
        if e["key"] in fixed:
            e["status"] = "fixed"
            e["commit"] = fixed[e["key"]]
            e["record"] = f"fixed: property={e['property']} {fixed[e['key']]} {e['key']}: {e.get('what','')[:160]}"
        else:
            e["status"] = "known"
        out.append(e)
json.dump(out, open(os.path.join(ROOT, "known_findings.json"), "w"), indent=1)
print(len(out), "entries;", sum(1 for e in out if e["status"] == "known"), "known,",
      sum(1 for e in out if e["status"] == "fixed"), "fixed")
