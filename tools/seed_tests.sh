#!/bin/bash
# tools/seed_tests.sh <seed dir> : apply patch to a scratch copy and run the stable baseline tests of the
# test directories related to the touched files (full suite if FULL=1).  Prints the baseline summary line.
S=$(readlink -f "$1")
D=$(mktemp -d /dev/shm/pgmpy-seedtest.XXXXXX)
rsync -a --exclude .git --exclude '__pycache__' /repo/ "$D/"
( cd "$D" && patch -p1 --quiet < "$S/patch.diff" ) || { echo "PATCH FAILED"; rm -rf "$D"; exit 3; }
FILES=$(grep '^+++ b/' "$S/patch.diff" | sed 's|+++ b/||')
T=""
for f in $FILES; do
  case $f in
    pgmpy/factors/*) T="$T pgmpy/tests/test_factors pgmpy/tests/test_inference pgmpy/tests/test_models pgmpy/tests/test_sampling";;
    pgmpy/inference/*) T="$T pgmpy/tests/test_inference pgmpy/tests/test_models";;
    pgmpy/models/*) T="$T pgmpy/tests/test_models pgmpy/tests/test_inference pgmpy/tests/test_sampling pgmpy/tests/test_readwrite";;
    pgmpy/base/*) T="$T pgmpy/tests/test_base pgmpy/tests/test_models pgmpy/tests/test_inference pgmpy/tests/test_independencies pgmpy/tests/test_estimators/test_PC.py";;
    pgmpy/estimators/*) T="$T pgmpy/tests/test_estimators pgmpy/tests/test_models/test_BayesianNetwork.py pgmpy/tests/test_metrics";;
    pgmpy/readwrite/*) T="$T pgmpy/tests/test_readwrite pgmpy/tests/test_models/test_BayesianNetwork.py";;
    pgmpy/sampling/*|pgmpy/utils/*) T="$T pgmpy/tests/test_sampling pgmpy/tests/test_models pgmpy/tests/test_inference pgmpy/tests/test_utils";;
    pgmpy/independencies/*) T="$T pgmpy/tests/test_independencies pgmpy/tests/test_base pgmpy/tests/test_models";;
    *) T="$T pgmpy/tests";;
  esac
done
T=$(echo $T | tr ' ' '\n' | sort -u | tr '\n' ' ')
[ "$FULL" = "1" ] && T=""
if [ -z "$T" ]; then OMP_NUM_THREADS=${OMP_NUM_THREADS:-2} /verif/tools/baseline.sh "$D"
else OMP_NUM_THREADS=${OMP_NUM_THREADS:-2} /verif/tools/baseline.sh "$D" $T -k "not ContinuousData and not pillai"; fi
RC=$?
rm -rf "$D"
exit $RC
