#!/bin/bash
# tools/mutant.sh <patch.diff> <prop> [tier]   -- run one check against a scratch copy of /repo
# with the patch applied (the real /repo is never touched).  Exit code = the check's exit code.
PATCH=$(readlink -f "$1"); PROP=$2; TIER=${3:-quick}
D=$(mktemp -d /dev/shm/pgmpy-mut.XXXXXX)
rsync -a --exclude .git --exclude '__pycache__' /repo/ "$D/"
( cd "$D" && patch -p1 --quiet < "$PATCH" ) || { echo "patch failed"; rm -rf "$D"; exit 3; }
RV_REPO="$D" RV_EVIDENCE_DIR="$D/.evidence" /verif/check "$PROP" --tier "$TIER"
RC=$?
rm -rf "$D"
exit $RC
