#!/bin/bash
# tools/commit_fix.sh <diff> "<message>"  -- apply one fix diff to /repo and commit it.
D=$(readlink -f "$1"); MSG="$2"
cd /repo || exit 1
[ -z "$(git status --porcelain)" ] || { echo "repo not clean"; git status --short; exit 1; }
patch -p1 --quiet < "$D" || { echo "patch failed: $D"; git checkout -q -- .; exit 1; }
find . -name '*.orig' -delete
git add -A && git commit -q -m "$MSG" && echo "$(git rev-parse --short HEAD) $MSG"
