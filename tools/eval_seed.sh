#!/bin/bash
# tools/eval_seed.sh <seed dir containing patch.diff demo.py meta.json> [prop ...]
# 1. demo on clean copy of /repo (must PASS), 2. demo on patched copy (must FAIL),
# 3. each listed check (default: meta.property) against the patched copy (should exit 1).
S=$(readlink -f "$1"); shift
PROPS="$@"; [ -z "$PROPS" ] && PROPS=$(python3 -c "import json;print(json.load(open('$S/meta.json'))['property'])")
D=$(mktemp -d /dev/shm/pgmpy-seed.XXXXXX)
rsync -a --exclude .git --exclude '__pycache__' /repo/ "$D/"
echo "## demo on clean copy"; (cd "$D" && PYTHONPATH="$D" timeout 900 /venv/bin/python -W ignore "$S/demo.py" 2>&1 | grep -v "^INFO\|SyntaxWarning\|^  \"\"\"" | tail -3; echo "rc=${PIPESTATUS[0]}")
( cd "$D" && git apply --unsafe-paths "$S/patch.diff" 2>/dev/null || patch -p1 --quiet < "$S/patch.diff" ) || { echo "PATCH FAILED"; rm -rf "$D"; exit 3; }
echo "## demo on patched copy"; (cd "$D" && PYTHONPATH="$D" timeout 900 /venv/bin/python -W ignore "$S/demo.py" 2>&1 | grep -v "^INFO\|SyntaxWarning\|^  \"\"\"" | tail -3; echo "rc=${PIPESTATUS[0]}")
for P in $PROPS; do
  echo "## check $P on patched copy"
  RV_REPO="$D" RV_EVIDENCE_DIR="$D/.evidence" /verif/check "$P" --tier ${TIER:-quick} 2>&1 | grep -v "reach:" | cut -c1-300 | tail -6
  echo "check_rc=${PIPESTATUS[0]}"
done
rm -rf "$D"
