#!/bin/bash
# tools/try_fixes.sh <diff>...   apply the diffs cumulatively to the scratch worktree /dev/shm/fixwt
# (reset to /repo HEAD first) and report which apply.  Does not touch /repo.
WT=/dev/shm/fixwt
[ -d $WT ] || git -C /repo worktree add -q --detach $WT HEAD
git -C $WT checkout -q -f --detach $(git -C /repo rev-parse HEAD) && git -C $WT clean -fdq
for d0 in "$@"; do d=$(readlink -f "$d0")
  if (cd $WT && patch -p1 --quiet --dry-run < "$d" >/dev/null 2>&1); then
     (cd $WT && patch -p1 --quiet < "$d") && echo "applied  $d"
  else
     echo "REJECTED $d"
  fi
done
