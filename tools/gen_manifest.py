#!/usr/bin/env python3
"""Regenerates MANIFEST.json from rv/props/*.py (each module carries its own MANIFEST dict)."""
import importlib, json, os, sys
ROOT = os.path.dirname(os.path.dirname(os.path.abspath(__file__)))
sys.path.insert(0, ROOT)
props = [json.loads(l) for l in open(os.path.join(ROOT, "properties.jsonl"))]
checks, na = [], []
for p in props:
    pid = p["id"]
    path = os.path.join(ROOT, "rv", "props", pid + ".py")
    if not os.path.exists(path):
        na.append({"property_id": pid, "reason": "check not built yet in this round (design in DESIGN.md section 3)"})
        continue
    mod = importlib.import_module("rv.props." + pid)
    m = getattr(mod, "MANIFEST", {})
    checks.append({
        "property_id": pid,
        "quick_cmd": f"./check {pid} --tier quick",
        "thorough_cmd": f"./check {pid} --tier thorough",
        "evidence_file": f"evidence/{pid}.json",
        "replay_cmd_template": f"./check {pid} --replay {{path}}",
        "engine": "rv",
        "level_claimed": {"category": "exploration",
                          "text": m.get("text", "Held on the generated executions only: the real code is run on seeded random / bounded-exhaustive cases in several hash-seed processes and every observation is judged by an independent reference model."),
                          "design_ref": f"DESIGN.md section 3 ({pid})"},
        "level_note": m.get("note", "; ".join(getattr(mod, "ASSUMPTIONS", [])) or "reference model written from the definition; numpy"),
        "technique": m.get("technique", "runtime monitoring: reference-model oracle over generated executions"),
    })
man = {
    "version": 1,
    "setup_cmd": "./setup.sh",
    "hooks": {"guard": "PGMPY_VERIF", "enable": "PGMPY_VERIF=1 is exported by rv/harness.py to every worker; all monitors are applied from outside at import time (setattr on classes, sys.monitoring), no guarded source hooks exist in /repo",
              "baseline_off_cmd": "tools/baseline.sh", "source_commits": [], "add_only": True},
    "engines": [{"name": "rv", "path": "rv/", "serves_properties": [c["property_id"] for c in checks],
                 "kind_free_text": "runtime-monitoring harness: seeded case generators, worker processes per (PYTHONHASHSEED, backend) cell, independent oracles, purity/reach monitors, three-valued verdicts"}],
    "checks": checks,
    "not_applicable": na,
    "notes": "Exit codes: 0 held (KNOWN-FINDING lines possible), 1 violation, 2 inconclusive. VERIF_SEED selects the case stream.",
}
json.dump(man, open(os.path.join(ROOT, "MANIFEST.json"), "w"), indent=1)
print(f"{len(checks)} checks, {len(na)} not_applicable")
