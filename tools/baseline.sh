#!/bin/bash
# Runs the repository's pinned baseline with the verification guard OFF and compares the junit
# result with /root/.vp/BASELINE.json's stable_pass list.
# usage: tools/baseline.sh [repo_dir [pytest paths/options...]]
#   with extra pytest paths only the stable tests under those paths are required to pass.
# exit 0 iff every required stable_pass test passed.
REPO=${1:-/repo}; shift
OUT=$(mktemp -d /dev/shm/baseline.XXXXXX)
unset PGMPY_VERIF
PRIO=""; [ "$(id -u)" = "0" ] && PRIO="nice -n -10"
cd "$REPO" && $PRIO /venv/bin/python -m pytest -q -p no:cacheprovider --timeout=900 \
   --continue-on-collection-errors --junitxml="$OUT/junit.xml" "$@" >"$OUT/log.txt" 2>&1
/venv/bin/python - "$OUT/junit.xml" "$#" <<'PY'
import sys, json, xml.etree.ElementTree as ET
base = json.load(open('/root/.vp/BASELINE.json'))
want = set(base['stable_pass'])
got = {}
for tc in ET.parse(sys.argv[1]).getroot().iter('testcase'):
    name = tc.get('classname') + '::' + tc.get('name')
    bad = any(ch.tag in ('failure', 'error', 'skipped') for ch in tc)
    got[name] = not bad
partial = int(sys.argv[2]) > 0
req = {t for t in want if t in got} if partial else want
missing = sorted(t for t in req if not got.get(t, False))
print(f"baseline{' (partial)' if partial else ''}: {len(req)-len(missing)}/{len(req)} stable tests pass")
for t in missing[:40]:
    print("  NOT PASSING:", t)
sys.exit(1 if missing else 0)
PY
RC=$?
rm -rf "$OUT"
rm -f "$REPO/model.bif" "$REPO/model.model"
exit $RC
