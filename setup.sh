#!/bin/bash
# Offline setup: the framework is pure Python run by /venv/bin/python against /repo.
# icontract/deal are optional extras installed beside it from the offline wheelhouse.
cd "$(dirname "$0")"
if [ ! -d .deps/icontract ]; then
  /venv/bin/pip install --quiet --no-index --find-links /opt/veriftools/wheels --target .deps icontract deal >/dev/null 2>&1 || true
fi
/venv/bin/python -B -c "import sys; sys.path.insert(0,'/repo'); import pgmpy, numpy, pandas, networkx, scipy; print('setup ok', pgmpy.__file__)"
