"""One OS process per (hash seed, backend, shard) cell.  Runs cases of one property module
against the pgmpy found in /repo's working tree and writes a JSONL observation log."""
import argparse
import importlib
import json
import os
import sys
import time
import traceback
import warnings

warnings.filterwarnings("ignore")
HERE = os.path.dirname(os.path.abspath(__file__))
ROOT = os.path.dirname(HERE)
REPO = os.environ.get("RV_REPO", "/repo")
sys.path.insert(0, REPO)
sys.path.insert(0, ROOT)
_deps = os.path.join(ROOT, ".deps")
if os.path.isdir(_deps):
    sys.path.append(_deps)


def jdump(o):
    return json.dumps(o, default=repr)


def main():
    ap = argparse.ArgumentParser()
    ap.add_argument("--prop", required=True)
    ap.add_argument("--tier", default="quick")
    ap.add_argument("--seed", type=int, default=0)
    ap.add_argument("--ncases", type=int, required=True)
    ap.add_argument("--shard", type=int, default=0)
    ap.add_argument("--nshards", type=int, default=1)
    ap.add_argument("--backend", default="numpy")
    ap.add_argument("--deadline", type=float, default=1e9)
    ap.add_argument("--out", required=True)
    ap.add_argument("--only", type=int, default=None, help="replay: run only this case index")
    ap.add_argument("--workload", default=None, help="sub-workload name (C16 rides on others)")
    args = ap.parse_args()
    t0 = time.time()

    import logging
    logging.disable(logging.CRITICAL)
    import pgmpy
    assert os.path.abspath(pgmpy.__file__).startswith(os.path.abspath(REPO) + os.sep), pgmpy.__file__
    from pgmpy import config
    config.set_show_progress(False)
    if args.backend == "torch":
        import torch
        config.set_backend("torch", device="cpu", dtype=torch.float64)
    elif args.backend == "torch32":
        import torch
        config.set_backend("torch", device="cpu", dtype=torch.float32)

    from rv import monitors
    mod = importlib.import_module(f"rv.props.{args.prop}")
    ctx = monitors.Ctx(args.prop, args.tier, backend=args.backend,
                       hashseed=os.environ.get("PYTHONHASHSEED"))
    ctx.workload = args.workload
    ctx.seed = args.seed
    reach = monitors.ReachCounter(getattr(mod, "REACH", []))
    if hasattr(mod, "setup"):
        mod.setup(ctx)

    out = open(args.out, "w")
    done = skipped = 0
    idxs = [args.only] if args.only is not None else range(args.shard, args.ncases, args.nshards)
    for idx in idxs:
        if time.time() - t0 > args.deadline:
            skipped += 1
            continue
        ctx.reset()
        rec = {"t": "case", "idx": idx}
        try:
            spec = mod.gen_case(args.seed, idx, args.tier, workload=args.workload) \
                if args.workload else mod.gen_case(args.seed, idx, args.tier)
            rec["digest"] = mod.case_digest(spec) if hasattr(mod, "case_digest") else _digest(spec)
            tc = time.time()
            mod.run_case(spec, ctx)
            rec["secs"] = round(time.time() - tc, 3)
        except Exception as e:  # checker-side failure: never a verdict on pgmpy
            rec["harness_error"] = f"{type(e).__name__}: {e}"
            rec["tb"] = traceback.format_exc()[-2000:]
            spec = locals().get("spec")
        rec.update(checks=ctx.checks, nontrivial=bool(ctx.nontrivial), violations=ctx.violations,
                   xcell=ctx.xcell, features=ctx.features, notes=ctx.notes, calls=ctx.calls)
        if ctx.violations or "harness_error" in rec or (args.shard == 0 and done < 3) or args.only is not None:
            rec["spec"] = json.loads(jdump(spec))
        out.write(jdump(rec) + "\n")
        out.flush()
        done += 1
    end = {"t": "end", "done": done, "skipped": skipped, "reach": reach.snapshot(),
           "wall": round(time.time() - t0, 2), "monitors": {}}
    if hasattr(mod, "teardown"):
        try:
            end["monitors"] = mod.teardown(ctx) or {}
        except Exception as e:
            end["monitors"] = {"teardown_error": repr(e)}
    out.write(jdump(end) + "\n")
    out.close()


def _digest(spec):
    from rv import gen
    return gen.spec_digest(spec)


if __name__ == "__main__":
    main()
