"""Independent reference models.  Nothing here imports or calls pgmpy.

joint_table           brute-force joint of a BN spec (iterate every assignment)
mn_joint              un-normalised product of a Markov-network spec's factors
posterior             slice / weight / sum-out / normalise
dsep_*                path-based d-separation straight from the definition
mec / cpdag           Markov equivalence class enumeration on small node sets
"""
import itertools
import math

import numpy as np


# ------------------------------------------------------------------ joint tables
def joint_table(spec, cpds=None):
    """(nodes, J) with J[idx of nodes] = prod_v table_v[state(v), rowmajor(parents)].
    Written as an explicit loop over all assignments on purpose."""
    nodes = spec["nodes"]
    card = spec["card"]
    cpds = cpds or spec["cpds"]
    shape = [card[v] for v in nodes]
    J = np.zeros(shape if shape else ())
    for idx in itertools.product(*[range(c) for c in shape]):
        a = dict(zip(nodes, idx))
        p = 1.0
        for v in nodes:
            c = cpds[v]
            col = 0
            for x in c["parents"]:
                col = col * card[x] + a[x]
            p *= c["table"][a[v]][col]
        J[idx] = p
    return nodes, J


def mn_joint(spec, factors=None):
    """Un-normalised joint of a Markov network spec (product of ALL listed factors)."""
    nodes = spec["nodes"]
    card = spec["card"]
    factors = spec["factors"] if factors is None else factors
    shape = [card[v] for v in nodes]
    J = np.zeros(shape)
    for idx in itertools.product(*[range(c) for c in shape]):
        a = dict(zip(nodes, idx))
        p = 1.0
        for f in factors:
            flat = 0
            for x in f["vars"]:
                flat = flat * card[x] + a[x]
            p *= f["values"][flat]
        J[idx] = p
    return nodes, J


def posterior(nodes, J, query, evidence_idx=None, likelihoods=None, normalize=True):
    """P(query | evidence) from joint J.
    evidence_idx: {var: state index}; likelihoods: {var: vector} (virtual evidence, multiplied in).
    Returns (query order list, array) with axes in the order of `query`."""
    evidence_idx = evidence_idx or {}
    A = np.array(J, dtype=float)
    # multiply likelihood vectors
    for v, vec in (likelihoods or {}).items():
        ax = nodes.index(v)
        shp = [1] * A.ndim
        shp[ax] = len(vec)
        A = A * np.asarray(vec, dtype=float).reshape(shp)
    sl = [slice(None)] * len(nodes)
    for v, s in evidence_idx.items():
        sl[nodes.index(v)] = s
    A = A[tuple(sl)]
    keep = [v for v in nodes if v not in evidence_idx]
    axes = tuple(i for i, v in enumerate(keep) if v not in query)
    A = A.sum(axis=axes) if axes else A
    kept = [v for v in keep if v in query]
    perm = [kept.index(v) for v in query]
    A = np.transpose(A, perm) if A.ndim else A
    if normalize:
        tot = A.sum()
        A = A / tot if tot > 0 else A
    return list(query), A


def marginal(nodes, J, keep, op="sum"):
    axes = tuple(i for i, v in enumerate(nodes) if v not in keep)
    A = J.sum(axis=axes) if op == "sum" else J.max(axis=axes)
    kept = [v for v in nodes if v in keep]
    perm = [kept.index(v) for v in keep]
    return np.transpose(A, perm) if A.ndim else A


# ------------------------------------------------------- named view of pgmpy factors
def factor_named(factor, to_numpy=None):
    """{frozenset((var, state_name)...): value} read through the public attributes
    variables / state_names / values only."""
    vals = factor.values
    if to_numpy is not None:
        vals = to_numpy(vals)
    vals = np.asarray(vals)
    variables = list(factor.variables)
    names = [list(factor.state_names[v]) for v in variables]
    if tuple(vals.shape) != tuple(len(n) for n in names):
        raise ValueError(f"values shape {vals.shape} does not match state names {[len(n) for n in names]}")
    out = {}
    for idx in itertools.product(*[range(len(n)) for n in names]):
        key = frozenset((v, names[i][k]) for i, (v, k) in enumerate(zip(variables, idx)))
        out[key] = float(vals[idx])
    return out


def array_named(variables, states, A):
    """Same named view for an oracle array whose axes follow `variables`."""
    out = {}
    A = np.asarray(A)
    for idx in itertools.product(*[range(len(states[v])) for v in variables]):
        key = frozenset((v, states[v][k]) for v, k in zip(variables, idx))
        out[key] = float(A[idx])
    return out


def named_close(a, b, atol=1e-9, rtol=1e-9):
    """Compare two named views; returns None if equal else a description of the first difference."""
    if set(a) != set(b):
        extra = list(set(a) - set(b))[:2]
        miss = list(set(b) - set(a))[:2]
        return f"assignment sets differ: unexpected {extra}, missing {miss}"
    for k in a:
        x, y = a[k], b[k]
        if math.isnan(x) or math.isnan(y):
            if not (math.isnan(x) and math.isnan(y)):
                return f"{sorted(k, key=repr)}: got {x}, expected {y}"
            continue
        if x == y:
            continue
        if abs(x - y) > atol + rtol * abs(y):
            return f"{sorted(k, key=repr)}: got {x!r}, expected {y!r}"
    return None


# --------------------------------------------------------------- d-separation
def _adj(nodes, edges):
    ch = {v: set() for v in nodes}
    pa = {v: set() for v in nodes}
    for u, v in edges:
        ch[u].add(v)
        pa[v].add(u)
    return pa, ch


def descendants(nodes, edges, v, include_self=False):
    pa, ch = _adj(nodes, edges)
    seen, stack = set(), [v]
    while stack:
        x = stack.pop()
        for c in ch[x]:
            if c not in seen:
                seen.add(c)
                stack.append(c)
    if include_self:
        seen.add(v)
    return seen


def ancestors(nodes, edges, vs, include_self=True):
    pa, ch = _adj(nodes, edges)
    seen, stack = set(), list(vs)
    while stack:
        x = stack.pop()
        for p in pa[x]:
            if p not in seen:
                seen.add(p)
                stack.append(p)
    if include_self:
        seen |= set(vs)
    return seen


def simple_paths(nodes, edges, x, y):
    """All simple paths in the skeleton from x to y, as node lists."""
    nb = {v: set() for v in nodes}
    for u, v in edges:
        nb[u].add(v)
        nb[v].add(u)
    out = []

    def rec(path, seen):
        last = path[-1]
        if last == y:
            out.append(list(path))
            return
        for w in sorted(nb[last], key=repr):
            if w not in seen:
                seen.add(w)
                path.append(w)
                rec(path, seen)
                path.pop()
                seen.discard(w)

    rec([x], {x})
    return out


def path_active(path, eset, Z, desc_cache):
    """Definition: active iff every non-collider inner node is not in Z and every collider
    has a descendant-or-self in Z."""
    for i in range(1, len(path) - 1):
        a, b, c = path[i - 1], path[i], path[i + 1]
        collider = (a, b) in eset and (c, b) in eset
        if collider:
            if not (desc_cache[b] & Z):
                return False
        else:
            if b in Z:
                return False
    return True


class DSep:
    """Path-based d-separation oracle for one DAG (n <= ~8)."""

    def __init__(self, nodes, edges):
        self.nodes = list(nodes)
        self.edges = [tuple(e) for e in edges]
        self.eset = set(self.edges)
        self.desc = {v: descendants(self.nodes, self.edges, v, include_self=True) for v in self.nodes}
        self._paths = {}

    def paths(self, x, y):
        k = (x, y)
        if k not in self._paths:
            self._paths[k] = simple_paths(self.nodes, self.edges, x, y)
        return self._paths[k]

    def dconnected(self, x, y, Z):
        Z = set(Z)
        if x == y:
            return True
        for p in self.paths(x, y):
            if path_active(p, self.eset, Z, self.desc):
                return True
        return False

    def dsep(self, x, y, Z):
        return not self.dconnected(x, y, Z)

    def reachable(self, x, Z):
        """Nodes y (y not in Z) d-connected to x given Z, including x itself."""
        Z = set(Z)
        return {y for y in self.nodes if y not in Z and (y == x or self.dconnected(x, y, Z))}


# ------------------------------------------------- Markov equivalence classes
def skeleton(edges):
    return frozenset(frozenset(e) for e in edges)


def vstructures(nodes, edges):
    """Set of (frozenset({a, b}), c) with a -> c <- b and a, b non-adjacent."""
    pa, ch = _adj(nodes, edges)
    sk = skeleton(edges)
    out = set()
    for c in nodes:
        ps = sorted(pa[c], key=repr)
        for a, b in itertools.combinations(ps, 2):
            if frozenset((a, b)) not in sk:
                out.add((frozenset((a, b)), c))
    return out


def mec_key(nodes, edges):
    return (skeleton(edges), frozenset(vstructures(nodes, edges)))


_MEC_CACHE = {}


def mec_classes(nodes):
    """{mec_key: [edge tuples of all members]} over all DAGs on `nodes`."""
    from . import gen
    key = tuple(nodes)
    if key not in _MEC_CACHE:
        classes = {}
        for edges in gen.all_dags(nodes):
            classes.setdefault(mec_key(nodes, edges), []).append(edges)
        _MEC_CACHE[key] = classes
    return _MEC_CACHE[key]


def cpdag_by_enumeration(nodes, edges):
    """(directed set, undirected set of frozensets) of the CPDAG of `edges`' class:
    an edge is directed iff it has the same direction in every member of the class."""
    members = mec_classes(nodes)[mec_key(nodes, edges)]
    directed, undirected = set(), set()
    for (u, v) in edges:
        if all((u, v) in set(m) for m in members):
            directed.add((u, v))
        else:
            undirected.add(frozenset((u, v)))
    return directed, undirected


def cpdag_meek(nodes, edges):
    """CPDAG for larger graphs: orient v-structures then close under Meek rules R1-R3
    (R4 is not needed when starting from v-structures only)."""
    sk = skeleton(edges)
    adj = {v: set() for v in nodes}
    for e in sk:
        a, b = tuple(e)
        adj[a].add(b)
        adj[b].add(a)
    directed = set()
    for (ab, c) in vstructures(nodes, edges):
        for a in ab:
            directed.add((a, c))

    def is_dir(a, b):
        return (a, b) in directed

    def is_und(a, b):
        return b in adj[a] and not is_dir(a, b) and not is_dir(b, a)

    changed = True
    while changed:
        changed = False
        for a in nodes:
            for b in list(adj[a]):
                if not is_und(a, b):
                    continue
                # try orient a -> b
                r1 = any(is_dir(c, a) and c not in adj[b] for c in adj[a] if c != b)
                r2 = any(is_dir(a, c) and is_dir(c, b) for c in adj[a] if c != b)
                r3 = False
                cs = [c for c in adj[a] if c != b and is_und(a, c) and is_dir(c, b)]
                for c, d in itertools.combinations(cs, 2):
                    if d not in adj[c]:
                        r3 = True
                if r1 or r2 or r3:
                    directed.add((a, b))
                    changed = True
    undirected = {frozenset((a, b)) for a in nodes for b in adj[a] if is_und(a, b)}
    return directed, undirected


def is_acyclic(nodes, edges):
    from . import gen
    try:
        gen.topo_order(list(nodes), [tuple(e) for e in edges])
        return True
    except ValueError:
        return False
