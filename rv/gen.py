"""Seeded, hash-seed independent case generators.

Everything here works on plain Python data ("specs").  Nothing imports pgmpy: the
oracle reads specs, the builders in rv/build.py turn specs into pgmpy objects through
the public constructors.  No generator iterates over a set or a dict whose insertion
order could depend on PYTHONHASHSEED, so the same (seed, idx) gives the same spec in
every worker process.
"""
import itertools
import random

STATE_KINDS = ("id", "int1", "perm", "str", "tuple", "mixed")


def rng_for(*parts):
    """A random.Random keyed by a tuple of ints/strings (stable across processes)."""
    s = "|".join(str(p) for p in parts)
    # random.Random(str) uses sha512 of the string: hash-seed independent
    return random.Random(s)


# --------------------------------------------------------------------------- DAGs
def rand_dag_edges(rng, nodes, p=0.4, shape=None, max_parents=3):
    """Edges of a random DAG on `nodes` (list).  `shape` picks a template."""
    n = len(nodes)
    order = nodes[:]
    rng.shuffle(order)
    edges = []
    if shape is None:
        shape = rng.choice(["er", "er", "er", "chain", "collider", "fork", "family",
                            "two_parts", "isolated", "er_dense"])
    if n == 1:
        return []
    if shape == "chain":
        edges = [(order[i], order[i + 1]) for i in range(n - 1)]
    elif shape == "collider":
        c = order[-1]
        k = min(n - 1, rng.randint(2, 3))
        edges = [(order[i], c) for i in range(k)]
        for i in range(k, n - 1):
            edges.append((c, order[i]) if rng.random() < 0.6 else (order[rng.randrange(k)], order[i]))
    elif shape == "fork":
        r = order[0]
        edges = [(r, order[i]) for i in range(1, n)]
    elif shape == "family":
        c = order[-1]
        k = min(n - 1, max_parents)
        edges = [(order[i], c) for i in range(k)]
        for i in range(k, n - 1):
            edges.append((c, order[i]))
    elif shape == "two_parts":
        h = max(1, n // 2)
        a, b = order[:h], order[h:]
        for part in (a, b):
            for i in range(len(part)):
                for j in range(i + 1, len(part)):
                    if rng.random() < 0.6:
                        edges.append((part[i], part[j]))
    elif shape == "isolated":
        sub = order[:-1]
        for i in range(len(sub)):
            for j in range(i + 1, len(sub)):
                if rng.random() < 0.5:
                    edges.append((sub[i], sub[j]))
    else:
        pp = 0.7 if shape == "er_dense" else p
        for i in range(n):
            for j in range(i + 1, n):
                if rng.random() < pp:
                    edges.append((order[i], order[j]))
    # cap number of parents
    par = {v: [] for v in nodes}
    out = []
    for u, v in edges:
        if len(par[v]) < max_parents:
            par[v].append(u)
            out.append((u, v))
    return out


def parents_of(nodes, edges):
    par = {v: [] for v in nodes}
    for u, v in edges:
        par[v].append(u)
    return par


def topo_order(nodes, edges):
    par = parents_of(nodes, edges)
    done, order = set(), []
    while len(order) < len(nodes):
        progressed = False
        for v in nodes:
            if v not in done and all(p in done for p in par[v]):
                done.add(v)
                order.append(v)
                progressed = True
        if not progressed:
            raise ValueError("cycle")
    return order


# ---------------------------------------------------------------------- state names
def state_names_for(rng, var, k, kind):
    if kind == "mixed":
        kind = rng.choice(["id", "int1", "perm", "str", "tuple"])
    if kind == "id":
        return list(range(k))
    if kind == "int1":
        return list(range(1, k + 1))
    if kind == "perm":
        base = rng.choice([0, 0, 1, 5])
        l = list(range(base, base + k))
        rng.shuffle(l)
        if l == list(range(k)) and k > 1:
            l.reverse()
        return l
    if kind == "str":
        pool = [f"{var}_s{i}" for i in range(k)]
        if rng.random() < 0.5:
            rng.shuffle(pool)
        return pool
    if kind == "tuple":
        return [(str(var), i) for i in range(k)]
    raise ValueError(kind)


# --------------------------------------------------------------------------- tables
GRID = [0.05, 0.1, 0.2, 0.3, 0.45, 0.6, 0.8, 1.0, 1.5, 2.0]


def rand_column(rng, r, zeros=True, tiny=0.0):
    """A probability column of length r with exact zeros / deterministic columns mixed in.
    tiny: probability that the column has entries of very different magnitude (down to ~1e-13)."""
    if r == 1:
        return [1.0]
    if tiny and rng.random() < tiny:
        col = [rng.choice(GRID) * (0.5 + rng.random()) for _ in range(r)]
        for i in rng.sample(range(r), rng.randint(1, r - 1)):
            col[i] *= 10.0 ** (-rng.uniform(6, 13))
        s = sum(col)
        col = [c / s for c in col]
        i = max(range(r), key=lambda t: col[t])
        col[i] = 1.0 - sum(c for t, c in enumerate(col) if t != i)
        return col
    mode = rng.random()
    if zeros and mode < 0.12:
        col = [0.0] * r
        col[rng.randrange(r)] = 1.0
        return col
    col = [rng.choice(GRID) * (0.5 + rng.random()) for _ in range(r)]
    if zeros and mode < 0.35:
        nz = rng.randint(1, r - 1)
        for i in rng.sample(range(r), nz):
            col[i] = 0.0
    s = sum(col)
    if s == 0:
        col[rng.randrange(r)] = 1.0
        s = 1.0
    col = [c / s for c in col]
    # renormalise exactly: make the sum == 1 in float by fixing the largest entry
    i = max(range(r), key=lambda t: col[t])
    col[i] = 1.0 - sum(c for t, c in enumerate(col) if t != i)
    return col


def rand_cpt(rng, r, q, zeros=True, tiny=0.0):
    cols = [rand_column(rng, r, zeros, tiny) for _ in range(q)]
    return [[cols[j][i] for j in range(q)] for i in range(r)]


# ------------------------------------------------------------------------- BN specs
def rand_bn_spec(rng, n=None, n_range=(1, 6), cards=(1, 2, 2, 2, 3, 3, 4), kind=None,
                 zeros=True, shape=None, max_parents=3, names=None, max_joint=4096,
                 latent_frac=0.0, min_card=1, tiny=0.0):
    """A random discrete BN spec:
      nodes  : list of names
      edges  : list of (u, v)
      card   : {v: k}
      states : {v: [names]}
      cpds   : {v: {"parents": [declared evidence order], "table": r x q nested list}}
      latents: list
    """
    if n is None:
        n = rng.randint(*n_range)
    nodes = list(names[:n]) if names else [f"v{i}" for i in range(n)]
    edges = rand_dag_edges(rng, nodes, shape=shape, max_parents=max_parents)
    if kind is None:
        kind = rng.choice(STATE_KINDS)
    while True:
        card = {v: max(min_card, rng.choice(cards)) for v in nodes}
        tot = 1
        for v in nodes:
            tot *= card[v]
        if tot <= max_joint:
            break
    states = {v: state_names_for(rng, v, card[v], kind) for v in nodes}
    par = parents_of(nodes, edges)
    cpds = {}
    for v in nodes:
        pa = par[v][:]
        rng.shuffle(pa)
        q = 1
        for p in pa:
            q *= card[p]
        cpds[v] = {"parents": pa, "table": rand_cpt(rng, card[v], q, zeros, tiny)}
    latents = [v for v in nodes if rng.random() < latent_frac]
    return {"nodes": nodes, "edges": [list(e) for e in edges], "card": card,
            "states": states, "cpds": cpds, "latents": latents, "kind": kind}


def spec_digest(obj):
    import hashlib
    return hashlib.sha1(repr(canon(obj)).encode()).hexdigest()[:16]


def canon(obj):
    """Canonical, order-stable nested tuple form of a spec (dict keys sorted by repr)."""
    if isinstance(obj, dict):
        return tuple(sorted(((repr(k), canon(v)) for k, v in obj.items())))
    if isinstance(obj, (list, tuple)):
        return tuple(canon(x) for x in obj)
    if isinstance(obj, float):
        return round(obj, 12)
    return obj


# ------------------------------------------------------------------ Markov networks
def rand_mn_spec(rng, n_range=(2, 6), cards=(2, 2, 3), kind=None, connected=True,
                 dup_prob=0.25, unary_prob=0.3, max_joint=2048, cycle_prob=0.35):
    """Random Markov network spec:
       nodes, edges (undirected), card, states,
       factors: list of {"vars": [...], "values": nested list shaped by card of vars}
    """
    n = rng.randint(*n_range)
    nodes = [f"m{i}" for i in range(n)]
    if kind is None:
        kind = rng.choice(["id", "str", "mixed", "int1"])
    while True:
        card = {v: rng.choice(cards) for v in nodes}
        tot = 1
        for v in nodes:
            tot *= card[v]
        if tot <= max_joint:
            break
    states = {v: state_names_for(rng, v, card[v], kind) for v in nodes}
    edges = []
    order = nodes[:]
    rng.shuffle(order)
    if n >= 4 and rng.random() < cycle_prob:
        L = rng.randint(4, n)
        cyc = order[:L]
        edges = [(cyc[i], cyc[(i + 1) % L]) for i in range(L)]
        for v in order[L:]:
            edges.append((v, rng.choice(cyc)))
    else:
        for i in range(1, n):
            if connected or rng.random() < 0.7:
                edges.append((order[rng.randrange(i)], order[i]))
        for i in range(n):
            for j in range(i + 1, n):
                if rng.random() < 0.2 and (order[i], order[j]) not in edges and (order[j], order[i]) not in edges:
                    edges.append((order[i], order[j]))
    factors = []

    def rand_vals(vs):
        shape = [card[v] for v in vs]
        size = 1
        for s in shape:
            size *= s
        flat = [rng.choice(GRID) * (1 + rng.randint(0, 3)) if rng.random() > 0.1 else 0.0
                for _ in range(size)]
        if all(x == 0 for x in flat):
            flat[0] = 1.0
        return flat

    for (u, v) in edges:
        vs = [u, v] if rng.random() < 0.5 else [v, u]
        f = {"vars": vs, "values": rand_vals(vs)}
        factors.append(f)
        if rng.random() < dup_prob:
            factors.append({"vars": list(vs), "values": list(f["values"])})
    for v in nodes:
        if rng.random() < unary_prob:
            factors.append({"vars": [v], "values": rand_vals([v])})
    # make sure joint mass > 0: add epsilon floor to one factor if product is all zero (checked by oracle)
    return {"nodes": nodes, "edges": [list(e) for e in edges], "card": card, "states": states,
            "factors": factors, "kind": kind}


# ------------------------------------------------------------------- enumerations
def all_dags(nodes):
    """Every labelled DAG on `nodes` as a sorted tuple of edges (exhaustive)."""
    nodes = list(nodes)
    n = len(nodes)
    pairs = [(i, j) for i in range(n) for j in range(i + 1, n)]
    out = []
    for choice in itertools.product((0, 1, 2), repeat=len(pairs)):
        edges = []
        for (i, j), c in zip(pairs, choice):
            if c == 1:
                edges.append((nodes[i], nodes[j]))
            elif c == 2:
                edges.append((nodes[j], nodes[i]))
        try:
            topo_order(nodes, edges)
        except ValueError:
            continue
        out.append(tuple(edges))
    return out


def pick_evidence(rng, nodes, exclude, kmax):
    rest = [v for v in nodes if v not in exclude]
    k = rng.randint(0, min(kmax, len(rest)))
    return rng.sample(rest, k)
