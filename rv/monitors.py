"""Instrumentation applied to the real pgmpy classes from the worker process.

ReachCounter   sys.monitoring PY_START counters restricted to anchored functions
fingerprint    deep content fingerprint of models / factors / data (purity monitor)
Ctx            per-case recorder: counted oracle comparisons, violations, pgmpy calls
PurityMonitor  wraps public entry points; compares fingerprints of self/args before/after
GraphInvariant acyclicity invariant evaluated on exit of every public mutator
"""
import hashlib
import importlib
import sys
import traceback

import numpy as np

import os
REPO_PREFIX = os.path.abspath(os.environ.get("RV_REPO", "/repo")) + "/"


# ------------------------------------------------------------------ reach counters
class ReachCounter:
    TOOL = 3

    def __init__(self, targets):
        """targets: list of 'module:Qual.name' strings (anchored mechanisms)."""
        self.counts = {}
        self.codes = {}
        self.active = False
        mon = getattr(sys, "monitoring", None)
        if mon is None:
            return
        try:
            mon.use_tool_id(self.TOOL, "rv-reach")
        except ValueError:
            pass
        for t in targets:
            try:
                modname, qual = t.split(":")
                obj = importlib.import_module(modname)
                for part in qual.split("."):
                    obj = getattr(obj, part)
                fn = getattr(obj, "__func__", obj)
                fn = getattr(fn, "__wrapped__", fn)
                code = fn.__code__
            except Exception:
                self.counts[t] = -1      # anchor not found (renamed?) -> reported
                continue
            self.codes[code] = t
            self.counts[t] = 0
            mon.set_local_events(self.TOOL, code, mon.events.PY_START)
        mon.register_callback(self.TOOL, mon.events.PY_START, self._cb)
        self.active = True

    def _cb(self, code, offset):
        t = self.codes.get(code)
        if t is not None:
            self.counts[t] += 1

    def snapshot(self):
        return dict(self.counts)


# --------------------------------------------------------------------- fingerprints
def _h(b):
    return hashlib.sha1(b).hexdigest()[:12]


def _vals(x):
    try:
        import torch
        if isinstance(x, torch.Tensor):
            x = x.detach().cpu().numpy()
    except Exception:
        pass
    a = np.ascontiguousarray(np.asarray(x))
    return (str(a.dtype), a.shape, _h(a.tobytes()))


def fingerprint(obj, depth=0):
    """Order-insensitive (for sets/lists of CPDs) content fingerprint."""
    import networkx as nx
    import pandas as pd
    if depth > 4:
        return ("deep",)
    if obj is None or isinstance(obj, (bool, int, float, str)):
        return obj
    if isinstance(obj, pd.DataFrame):
        return ("df", tuple(map(repr, obj.columns)), tuple(str(t) for t in obj.dtypes),
                _h(repr(obj.index.tolist()).encode()),
                _h(repr([obj[c].tolist() for c in obj.columns]).encode()))
    if isinstance(obj, np.ndarray):
        return ("nd",) + _vals(obj)
    tn = type(obj).__name__
    if hasattr(obj, "variables") and hasattr(obj, "values") and hasattr(obj, "cardinality"):
        sn = getattr(obj, "state_names", None)
        return ("factor", tn, tuple(map(repr, obj.variables)), tuple(int(c) for c in obj.cardinality),
                tuple(sorted((repr(k), tuple(map(repr, v))) for k, v in (sn or {}).items())),
                _vals(obj.values))
    if isinstance(obj, nx.Graph):
        fp = ["graph", tn, tuple(sorted(map(repr, obj.nodes()))),
              tuple(sorted(repr(tuple(e)) if obj.is_directed() else repr(tuple(sorted(map(repr, e))))
                           for e in obj.edges()))]
        lat = getattr(obj, "latents", None)
        if lat is not None:
            fp.append(("latents", tuple(sorted(map(repr, lat)))))
        for attr in ("cpds", "factors"):
            lst = getattr(obj, attr, None)
            if isinstance(lst, (list, tuple)):
                fps = [fingerprint(c, depth + 1) for c in lst]
                fp.append((attr, tuple(sorted(fps, key=repr))))
                fp.append((attr + "_order", _h(repr(fps).encode())))
        return tuple(fp)
    if isinstance(obj, dict):
        return ("dict", tuple(sorted(((repr(k), fingerprint(v, depth + 1)) for k, v in obj.items()), key=repr)))
    if isinstance(obj, (list, tuple)):
        return ("seq", tuple(fingerprint(x, depth + 1) for x in obj))
    if isinstance(obj, (set, frozenset)):
        return ("set", tuple(sorted((fingerprint(x, depth + 1) for x in obj), key=repr)))
    for attr in ("model", ):
        if hasattr(obj, attr):
            return ("obj", tn, fingerprint(getattr(obj, attr), depth + 1))
    return ("opaque", tn)


def strip_order(fp):
    """Drop the list-order components (a re-ordered CPD list is reported, not a violation)."""
    if isinstance(fp, tuple):
        return tuple(strip_order(x) for x in fp
                     if not (isinstance(x, tuple) and len(x) == 2 and isinstance(x[0], str) and x[0].endswith("_order")))
    return fp


# ------------------------------------------------------------------------- context
def innermost_repo_frame(tb):
    fn = None
    for fs in traceback.extract_tb(tb):
        if fs.filename.startswith(REPO_PREFIX):
            fn = f"{fs.filename[len(REPO_PREFIX):]}:{fs.name}"
    return fn


class PgmpyError:
    """Outcome of a pgmpy call that raised."""

    def __init__(self, exc, tb):
        self.exc = exc
        self.type = type(exc).__name__
        self.where = innermost_repo_frame(tb) or "outside-pgmpy"
        self.msg = str(exc)[:200]

    def __repr__(self):
        return f"<{self.type}@{self.where}: {self.msg}>"


class Ctx:
    """Per-case recorder handed to run_case."""

    def __init__(self, prop, tier, backend="numpy", purity=None, hashseed=None):
        self.prop = prop
        self.tier = tier
        self.backend = backend
        self.hashseed = hashseed
        self.purity = purity
        self.reset()

    def reset(self):
        self.checks = 0
        self.violations = []
        self.notes = {}
        self.xcell = {}
        self.nontrivial = False
        self.features = []
        self.calls = 0

    # -- calling the code under test
    def call(self, fn, *a, **k):
        """Call pgmpy; returns the value or a PgmpyError (never raises for pgmpy exceptions)."""
        self.calls += 1
        try:
            return fn(*a, **k)
        except Exception as e:  # noqa
            return PgmpyError(e, e.__traceback__)

    @staticmethod
    def failed(x):
        return isinstance(x, PgmpyError)

    # -- verdicts
    def ok(self, n=1):
        self.checks += n

    def violation(self, key, what, **detail):
        self.checks += 1
        if len(self.violations) < 20:
            self.violations.append({"key": key, "what": str(what)[:600],
                                    "detail": {k: _short(v) for k, v in detail.items()}})

    def expect(self, cond, key, what, **detail):
        if cond:
            self.checks += 1
        else:
            self.violation(key, what, **detail)
        return cond

    def note(self, k, n=1):
        self.notes[k] = self.notes.get(k, 0) + n

    def feature(self, f):
        if f not in self.features:
            self.features.append(f)

    def tol(self):
        # torch cells: pgmpy builds every table through torch.Tensor(values) (float32) before casting to the
        # configured float64, so stored inputs carry ~6e-8 relative rounding; that is precision, not semantics.
        if self.backend == "torch":
            return dict(atol=2e-6, rtol=2e-6)
        return dict(atol=1e-9, rtol=1e-9) if self.backend != "torch32" else dict(atol=1e-4, rtol=1e-4)


def _short(v):
    s = v if isinstance(v, (int, float, bool, type(None))) else repr(v)
    if isinstance(s, str) and len(s) > 1500:
        s = s[:1500] + "..."
    return s


# ------------------------------------------------------------------ purity monitor
class PurityMonitor:
    """Monitor P of C16.  Wraps entry points; fingerprints `self` (its model-like state) and
    every argument before the call and after return/raise."""

    def __init__(self):
        self.evals = {}
        self.violations = []
        self.reorders = {}
        self.depth = 0
        self.installed = []

    def install(self, targets):
        for t in targets:
            modname, qual = t.split(":")
            try:
                mod = importlib.import_module(modname)
                parts = qual.split(".")
                owner = mod
                for part in parts[:-1]:
                    owner = getattr(owner, part)
                raw = owner.__dict__[parts[-1]] if isinstance(owner, type) else getattr(owner, parts[-1])
            except Exception:
                self.evals[t] = -1
                continue
            kind = "plain"
            fn = raw
            if isinstance(raw, staticmethod):
                kind, fn = "static", raw.__func__
            elif isinstance(raw, classmethod):
                continue
            wrapped = self._wrap(t, fn, is_method=isinstance(owner, type) and kind != "static")
            if kind == "static":
                wrapped = staticmethod(wrapped)
            setattr(owner, parts[-1], wrapped)
            self.evals[t] = 0
            self.installed.append((owner, parts[-1], raw))

    def uninstall(self):
        for owner, name, raw in reversed(self.installed):
            setattr(owner, name, raw)
        self.installed = []

    def _state(self, slf, args, kwargs):
        items = []
        if slf is not None:
            for attr in ("model", "data", "independencies"):
                if hasattr(slf, attr):
                    items.append(("self." + attr, getattr(slf, attr)))
            import networkx as nx
            if isinstance(slf, nx.Graph) or (hasattr(slf, "values") and hasattr(slf, "variables")):
                items.append(("self", slf))
        for i, a in enumerate(args):
            items.append((f"arg{i}", a))
        for k, a in kwargs.items():
            items.append((k, a))
        return items

    def _wrap(self, name, fn, is_method):
        mon = self
        import functools
        import inspect
        inplace_pos, inplace_default = None, True
        try:
            params = list(inspect.signature(fn).parameters.values())
            names = [p_.name for p_ in params]
            if "inplace" in names:
                inplace_pos = names.index("inplace") - (1 if is_method else 0)
                d = params[names.index("inplace")].default
                inplace_default = True if d is inspect._empty else d
        except (TypeError, ValueError):
            pass

        @functools.wraps(fn)
        def wrapper(*args, **kwargs):
            if mon.depth > 0:           # only outermost monitored call: inner calls act on private copies
                return fn(*args, **kwargs)
            slf = args[0] if is_method and args else None
            rest = args[1:] if is_method and args else args
            if slf is not None and inplace_pos is not None:
                # methods with an `inplace` switch mutate `self` by contract unless inplace=False is requested
                ip = kwargs.get("inplace", rest[inplace_pos] if len(rest) > inplace_pos else inplace_default)
                if ip:
                    slf_for_state = None
                else:
                    slf_for_state = slf
            else:
                slf_for_state = slf
            items = mon._state(slf_for_state, rest, kwargs)
            if slf is not None and slf_for_state is None:
                # an argument that IS self (f.product(f)) shares self's licence to change
                items = [(n, o) for (n, o) in items if o is not slf]
            before = [(n, fingerprint(o)) for n, o in items]
            mon.depth += 1
            try:
                return fn(*args, **kwargs)
            finally:
                mon.depth -= 1
                mon.evals[name] = mon.evals.get(name, 0) + 1
                for (n, fb), (_, o) in zip(before, items):
                    fa = fingerprint(o)
                    if fa != fb:
                        if strip_order(fa) == strip_order(fb):
                            mon.reorders[name] = mon.reorders.get(name, 0) + 1
                        else:
                            mon.violations.append({"entry": name, "what": n,
                                                   "before": _short(fb), "after": _short(fa)})
        wrapper.__rv_wrapped__ = True
        return wrapper

    def drain(self):
        v, self.violations = self.violations, []
        return v
