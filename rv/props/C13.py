"""C13 - interventions follow the truncated factorisation.

Observe: BayesianNetwork.do / DAG.do (graph + CPDs before/after, both inplace modes, several argument forms);
         CausalInference.query(variables, do, adjustment_set, inference_algo) with the default adjustment set and with
         every oracle-valid back-door set (single do), back-ends 've' and 'bp';
         is_valid_backdoor_adjustment_set, get_all_backdoor_adjustment_sets, is_valid_frontdoor_adjustment_set,
         get_all_frontdoor_adjustment_sets, is_valid_adjustment_set, get_minimal_adjustment_set;
         BayesianNetwork.simulate(do=...) through a recorder on the sampler entry points (which model / evidence the
         sampler is handed).
Oracle : surgery  - edges(after) = edges(before) minus {(p, x): x in do}; CPD of x parent-free; every other CPD equal per
                    named assignment; original untouched when inplace=False.
         query    - truncated factorisation on the brute-force joint of the spec: CPDs of the do-variables replaced by
                    point masses, marginalise on the query, compare per named assignment.
         criteria - back-door / front-door criteria evaluated on the enumerated simple paths (rv.oracle.DSep.paths +
                    path_active), straight from the definitions.

Case index layout (same in every hash-seed cell):
    0 .. 570                 every labelled DAG on 2..4 nodes (3 + 25 + 543): criterion checks, exhaustive in (X, Y, Z)
    [quick]    next Q5       a VERIF_SEED-dependent sample of the 29 281 labelled DAGs on 5 nodes
    [thorough] next 29 281   every labelled DAG on 5 nodes
    rest                     random discrete BNs (3-6 nodes, thorough 3-7): surgery, queries, simulate
"""
import copy
import itertools
import os
import random

import numpy as np

from rv import gen, oracle

N234 = 3 + 25 + 543
N5 = 29281
N5_USED = min(N5, int(os.environ.get("RV_C13_ENUM5", N5) or N5))        # development only
Q5 = 900
QUICK_BN = 900
THOROUGH_BN = int(os.environ.get("RV_C13_TBN", 3600) or 3600)
_LIMIT = int(os.environ.get("RV_C13_LIMIT", 0) or 0)                    # development only: prefix of quick
_ONLY_BN = bool(os.environ.get("RV_C13_ONLY_BN"))                       # development only: skip criterion part

_QC = N234 + Q5 + QUICK_BN
PLAN = {
    "quick": {"cases": min(_LIMIT, _QC) if _LIMIT else _QC, "hashseeds": 3, "shards": 5, "timeout": 600,
              "min_nontrivial": 1500 if not _LIMIT else 1},
    "thorough": {"cases": N234 + N5_USED + THOROUGH_BN, "hashseeds": 8, "shards": 2, "timeout": 3300,
                 "deadline": 3100, "min_nontrivial": min(20000, N5_USED)},
}
RULE = ("case idx -> (a) the idx-th labelled DAG of the exhaustive enumeration on 2..4 nodes (both tiers) and on 5 nodes "
        "(thorough: all 29 281; quick: a seed-dependent sample of 900): per DAG, without latents and with 1-2 random "
        "latent sets, every ordered observed pair (X, Y) x every Z among the non-descendants of X (Z may contain "
        "latents) for is_valid_backdoor_adjustment_set and is_valid_adjustment_set, every observed Z for "
        "is_valid_frontdoor_adjustment_set, plus get_all_backdoor/get_all_frontdoor/get_minimal_adjustment_set for "
        "every pair (thorough: each 5-node DAG is judged in 4 of the 8 hash-seed cells, everything else in all "
        "cells); (b) random discrete BNs on 3-6 (thorough 3-7) string-named nodes, cards 1-3, state names "
        "id/1-based/permuted ints/strings/mixed, exact zeros in half of the networks, 0-2 latents: do-sets of size 1-3 "
        "(single, random pair, parent-child, ancestor-descendant, triple; do-variables with a single state occur) -> do() surgery in both inplace modes and "
        "several argument forms, DAG.do, query with the default adjustment for 1-3 query sets disjoint from do and "
        "its parents under 've' and 'bp', for single do every back-door-valid observed adjustment set (oracle "
        "enumerated, the empty set as [] / set() / () / frozenset() included) for 1-2 query sets, the empty do-set as "
        "do=None and do={}, refusal probes, simulate(do=...) recorder. OBJECT REUSE: in 60% of the BN cases ONE model "
        "and ONE CausalInference object serve every call of the case in sequence (all do-sets, adjustment sets, both "
        "back-ends) with criterion calls, do() on the engine's model, observational engine queries and direct "
        "VariableElimination queries on the model interleaved, every answer judged for THAT call, and a final direct "
        "query on the model; criterion cases use one engine for all (X, Y, Z) of a DAG; do() is also called on the "
        "result of do(), twice on the same nodes and twice in place. BOUNDARY / EXTREME: node names '' (falsy), '0', "
        "' ' and integer names 0..6 (BN cases), state names '', False/True, 0.0/0.5, negative and 11-digit integers, "
        "duplicate entries in do / adjustment lists, query given as tuple, CPD entries 1e-12..1e-6 mixed with O(1) "
        "entries and exact zeros in 30% of the networks (answers compared with rtol 1e-8, atol 1e-13). non-trivial: (a) >= 3 nodes and "
        ">= 2 edges; (b) some do-variable has a parent and >= 1 interventional query was judged. distinct by digest "
        "of the spec")
ASSUMPTIONS = [
    "brute-force joint (<= 2048 cells) with the do-variables' factors replaced by point masses is the reference",
    "rv.oracle.DSep path enumeration + collider rule is the reference for the back-door / front-door criteria",
    "explicit adjustment sets are not judged where some stratum has P(z) > 0 and P(x | z) = 0 (positivity: the "
    "adjustment formula is undefined there); strata with P(z) = 0 are judged (sum over the support); the default set "
    "is judged everywhere, the truncated factorisation being defined on every network",
    "front-door: soundness of every set answered/enumerated as valid; agreement only where a directed path X->Y exists "
    "(pgmpy answers False when there is none, Pearl's condition (i) is then vacuous); condition (iii) is read on "
    "proper paths (not through another member of Z)",
    "get_all_backdoor raising ValueError / get_minimal returning None are not judged (no completeness promise)",
    "simulate(do=...): the model and evidence handed to the sampler are judged exactly, the sampler itself is C07",
    "float64 comparisons with rtol 1e-8 / atol 1e-13 (answers range from 1e-12 to 1)",
    "direct VariableElimination queries on the engine's model are only used to detect that engine calls changed the "
    "model object (reported only if a freshly built model answers the same query correctly)",
]
REACH = [
    "pgmpy.base.DAG:DAG.do",
    "pgmpy.models.BayesianNetwork:BayesianNetwork.do",
    "pgmpy.inference.CausalInference:CausalInference.query",
    "pgmpy.inference.CausalInference:CausalInference.is_valid_backdoor_adjustment_set",
    "pgmpy.inference.CausalInference:CausalInference.get_all_backdoor_adjustment_sets",
    "pgmpy.inference.CausalInference:CausalInference.is_valid_frontdoor_adjustment_set",
    "pgmpy.inference.CausalInference:CausalInference.get_all_frontdoor_adjustment_sets",
    "pgmpy.inference.CausalInference:CausalInference.get_proper_backdoor_graph",
    "pgmpy.inference.CausalInference:CausalInference.is_valid_adjustment_set",
    "pgmpy.inference.CausalInference:CausalInference.get_minimal_adjustment_set",
    "pgmpy.base.DAG:DAG.minimal_dseparator",
    "pgmpy.models.BayesianNetwork:BayesianNetwork.simulate",
    "pgmpy.inference.ExactInference:VariableElimination.query",
    "pgmpy.inference.ExactInference:BeliefPropagation.query",
]
REACH_REQUIRED = list(REACH) if not (_LIMIT or _ONLY_BN) else []
MANIFEST = {
    "text": "do() surgery, interventional queries (default and every back-door-valid adjustment set, VE and BP) and the "
            "back-door / front-door / general adjustment tests of CausalInference were compared with the truncated "
            "factorisation of a brute-force joint and with path-enumerated criteria, exhaustively in (X, Y, Z) on all "
            "DAGs with <= 4 nodes (5 in the thorough tier) and on random networks with <= 7 variables.",
    "note": "trusts the brute-force joint and rv.oracle.DSep; explicit adjustment sets judged only under positivity",
    "technique": "runtime monitoring with a reference-model oracle, bounded-exhaustive inputs",
}

LABELS = {
    "s1": ["a", "b", "c", "d", "e", "f", "g"],
    "sN": ["x", "xy", "xyz", "y z", "node4", "N5", "xy6"],
    "w": ["alpha", "beta", "gamma", "delta", "eps", "zeta", "eta"],
    "XY": ["X", "Y", "Z", "U", "M", "W", "V"],
    "falsy": ["", "0", " ", "a", "00", "_", "b"],       # the empty string is a legal (falsy) node name
    "int": [0, 1, 2, 3, 4, 5, 6],                        # BN cases only: the criterion API is documented str-only
}
KINDS = ["id", "int1", "perm", "str", "str", "mix", "estr", "bool", "float", "bigint"]


def _states(rng, v, k, kind):
    """State names of one variable.  Beyond rv.gen's kinds: 'estr' (one state is the empty string), 'bool', 'float'
    (non-integer numbers, 0.0 among them), 'bigint' (negative / multi-digit integers)."""
    if kind == "mix":
        kind = rng.choice(["id", "int1", "perm", "str", "estr", "bool", "float", "bigint"])
    if kind == "estr":
        l = [""] + [f"{v}_s{i}" for i in range(1, k)]
    elif kind == "bool":
        l = [False, True][:k] if k <= 2 else [0, 1, 2, 3][:k]
    elif kind == "float":
        l = [0.0, 0.5, 1.5, -2.25][:k]
    elif kind == "bigint":
        l = rng.sample([-1, 0, 7, 10, 100, 12345678901], k)
    else:
        return gen.state_names_for(rng, v, k, kind)
    if rng.random() < 0.5:
        rng.shuffle(l)
    return l


TINY = [1e-12, 1e-10, 1e-8, 1e-6]


def _tinyfy(rng, bn):
    """Push some CPD entries down to 1e-12 .. 1e-6 (columns still sum to exactly 1): magnitudes far from O(1), mixed
    with ordinary entries and exact zeros inside one table."""
    for v in bn["nodes"]:
        tab = bn["cpds"][v]["table"]
        r = len(tab)
        if r < 2:
            continue
        for j in range(len(tab[0])):
            if rng.random() < 0.5:
                continue
            col = [tab[i][j] for i in range(r)]
            top = max(range(r), key=lambda i: col[i])
            for i in rng.sample([i for i in range(r) if i != top], rng.randint(1, r - 1)):
                col[i] = rng.choice(TINY)
            col[top] = 1.0 - sum(c for i, c in enumerate(col) if i != top)
            for i in range(r):
                tab[i][j] = col[i]

# ------------------------------------------------------------------ enumeration / generators
_ENUM = {}


def _enum(n):
    if n not in _ENUM:
        _ENUM[n] = gen.all_dags(list(range(n)))
    return _ENUM[n]


def _dag_by_index(i):
    for n in (2, 3, 4):
        e = _enum(n)
        if i < len(e):
            return n, e[i]
        i -= len(e)
    raise IndexError(i)


_Q5 = {}


def _quick5(seed):
    if seed not in _Q5:
        _Q5[seed] = gen.rng_for("C13", "quick5", seed).sample(range(N5), Q5)
    return _Q5[seed]


def _subsets(items):
    items = list(items)
    out = []
    for r in range(len(items) + 1):
        out.extend([list(c) for c in itertools.combinations(items, r)])
    return out


def _crit_spec(rng, n, edges_idx, source):
    fam = rng.choice(["s1", "sN", "w", "XY", "falsy"])
    labels = LABELS[fam][:n]
    rng.shuffle(labels)
    nodes = list(labels)
    edges = [[labels[u], labels[v]] for (u, v) in edges_idx]
    latent_sets = [[]]
    if n >= 3:
        for _ in range(2 if n <= 4 else 1):
            k = rng.randint(1, n - 2)
            L = sorted(rng.sample(nodes, k))
            if L not in latent_sets:
                latent_sets.append(L)
    return {"kind": "crit", "source": source, "n": n, "labels": fam, "nodes": nodes, "edges": edges,
            "latent_sets": latent_sets, "seed": rng.randrange(10 ** 9)}


def _pick_do_sets(rng, bn, obs, tier):
    nodes, edges = bn["nodes"], [tuple(e) for e in bn["edges"]]
    pa, ch = oracle._adj(nodes, edges)
    out = []
    modes = ["single", "single"]
    modes.append(rng.choice(["pair", "parent-child", "parent-child", "anc-desc", "triple" if tier != "quick" or rng.random() < 0.3 else "pair"]))
    if tier != "quick":
        modes.append(rng.choice(["single", "pair", "parent-child", "anc-desc", "triple"]))
    with_pa = [v for v in obs if pa[v]]
    for mode in modes:
        xs = None
        if mode == "single":
            pool = with_pa if (with_pa and rng.random() < 0.8) else obs
            xs = [rng.choice(pool)]
        elif mode == "pair" and len(obs) >= 2:
            xs = rng.sample(obs, 2)
        elif mode == "parent-child":
            pairs = [(u, v) for (u, v) in edges if u in obs and v in obs]
            if pairs:
                xs = list(rng.choice(pairs))
        elif mode == "anc-desc":
            pairs = []
            for u in obs:
                for d in sorted(oracle.descendants(nodes, edges, u), key=nodes.index):
                    if d in obs and d not in ch[u]:
                        pairs.append((u, d))
            if pairs:
                xs = list(rng.choice(pairs))
        elif mode == "triple" and len(obs) >= 3:
            xs = rng.sample(obs, 3)
        if xs is None:
            if len(obs) >= 2:
                xs, mode = rng.sample(obs, 2), "pair"
            else:
                xs, mode = [obs[0]], "single"
        rng.shuffle(xs)
        if any(sorted(xs) == sorted(d["do"]) for d in out):
            continue
        do = {x: rng.randrange(bn["card"][x]) for x in xs}
        upa = []
        for x in xs:
            for p in bn["cpds"][x]["parents"]:
                if p not in upa:
                    upa.append(p)
        cand = [v for v in obs if v not in xs and v not in upa]
        queries = []
        for _ in range(3 if tier == "quick" else 4):
            if not cand:
                break
            q = rng.sample(cand, rng.randint(1, min(3, len(cand))))
            if sorted(q) not in [sorted(z) for z in queries]:
                queries.append(q)
        explicit = []
        if len(xs) == 1:
            rest = [v for v in obs if v != xs[0]]
            for _ in range(2):
                if rest:
                    q = rng.sample(rest, rng.randint(1, min(2, len(rest))))
                    if sorted(q) not in [sorted(z) for z in explicit]:
                        explicit.append(q)
        out.append({"mode": mode, "do": do, "order": list(xs), "queries": queries, "explicit": explicit,
                    "form": rng.choice(["list", "list", "tuple", "set", "bare", "listdup"]),
                    "inplace_first": rng.random() < 0.5})
    return out


def _bn_spec(rng, tier):
    n = rng.choice([3, 4, 4, 5, 5, 6] if tier == "quick" else [3, 4, 5, 5, 6, 6, 7])
    fam = rng.choice(["s1", "sN", "w", "XY", "falsy", "int"])
    names = LABELS[fam][:n]
    rng.shuffle(names)
    kind = rng.choice(KINDS)
    zeros = rng.random() < 0.5
    tiny = rng.random() < 0.3
    shape = rng.choice(["er", "er", "er_dense", "er_dense", "chain", "collider", "collider", "fork", "family",
                        "family", "two_parts", "isolated"])
    bn = gen.rand_bn_spec(rng, n=n, cards=(1, 1, 2, 2, 2, 2, 3, 3), kind="id",
                          zeros=zeros, names=names, shape=shape, max_parents=3, max_joint=1024 if tier == "quick" else 2048)
    for v in bn["nodes"]:
        bn["states"][v] = _states(rng, v, bn["card"][v], kind)
    if tiny:
        _tinyfy(rng, bn)
    bn["kind"] = kind
    bn["zeros"] = zeros
    bn["tiny"] = tiny
    bn["names"] = fam
    nodes = bn["nodes"]
    latents = []
    if rng.random() < 0.4:
        latents = sorted(rng.sample(nodes, 1 if n <= 3 or rng.random() < 0.6 else 2), key=nodes.index)
    bn["latents"] = latents
    obs = [v for v in nodes if v not in latents]
    dos = _pick_do_sets(rng, bn, obs, tier)
    return {"kind": "bn", "bn": bn, "dos": dos, "build_seed": rng.randrange(10 ** 6), "seed": rng.randrange(10 ** 9),
            "sim": rng.random() < 0.35, "dagdo": rng.random() < 0.5, "instance_algo": rng.random() < 0.15,
            "shared": rng.random() < 0.6, "redo": rng.random() < 0.6}


def gen_case(seed, idx, tier):
    if _ONLY_BN:                                   # development: exactly the BN cases of the full tier, in order
        return _bn_spec(gen.rng_for("C13", "bn", seed, idx, tier), tier)
    rng = gen.rng_for("C13", seed, idx, tier)
    if idx < N234:
        n, e = _dag_by_index(idx)
        return _crit_spec(rng, n, e, f"enum{n}")
    idx -= N234
    if tier == "thorough":
        if idx < N5_USED:
            j = idx if N5_USED == N5 else (idx * N5) // N5_USED
            spec = _crit_spec(rng, 5, _enum(5)[j], "enum5")
            spec["cells"] = [idx % 2, 2]           # judged in 4 of the 8 hash-seed cells (see run_case)
            return spec
        idx -= N5_USED
    else:
        if idx < Q5:
            return _crit_spec(rng, 5, _enum(5)[_quick5(seed)[idx]], "enum5-sample")
        idx -= Q5
    return _bn_spec(gen.rng_for("C13", "bn", seed, idx, tier), tier)


# ------------------------------------------------------------------------- violation recording
def viol(ctx, key, what, **detail):
    """At most two records per mechanism key and case (Ctx keeps 20 records per case)."""
    seen = ctx.__dict__.setdefault("c13_seen", {})
    seen[key] = seen.get(key, 0) + 1
    if seen[key] <= 2:
        ctx.violation(key, what, **detail)
    else:
        ctx.checks += 1
        ctx.note("repeat:" + key)


def expect(ctx, cond, key, what, **detail):
    if cond:
        ctx.checks += 1
    else:
        viol(ctx, key, what, **detail)
    return cond


# ------------------------------------------------------------------------------- oracle side
class Ora:
    """Path-based criteria read off rv.oracle.DSep's enumerated simple paths."""

    def __init__(self, nodes, edges):
        self.nodes = list(nodes)
        self.edges = [tuple(e) for e in edges]
        self.ds = oracle.DSep(self.nodes, self.edges)
        self.eset = self.ds.eset
        self.pa, self.ch = oracle._adj(self.nodes, self.edges)
        self.de = {v: oracle.descendants(self.nodes, self.edges, v) for v in self.nodes}   # proper descendants

    def active(self, path, Z):
        return oracle.path_active(path, self.eset, set(Z), self.ds.desc)

    def backdoor_paths(self, x, y):
        """simple paths between x and y whose first edge points INTO x."""
        return [p for p in self.ds.paths(x, y) if (p[1], x) in self.eset]

    def directed_paths(self, x, y):
        return [p for p in self.ds.paths(x, y) if all((p[i], p[i + 1]) in self.eset for i in range(len(p) - 1))]

    def backdoor_blocks(self, x, y, Z):
        """(ii) of the back-door criterion: Z blocks every path between x and y with an arrow into x."""
        return not any(self.active(p, Z) for p in self.backdoor_paths(x, y))

    def backdoor(self, x, y, Z):
        """Back-door criterion relative to (x, y): no member of Z is a descendant of x, and (ii)."""
        Z = set(Z)
        if Z & (self.de[x] | {x}):
            return False
        return self.backdoor_blocks(x, y, Z)

    def frontdoor(self, x, y, Z):
        """Front-door criterion relative to (x, y), three path conditions."""
        Z = set(Z)
        for p in self.directed_paths(x, y):                   # (i) Z intercepts every directed path x -> y
            if not (set(p[1:-1]) & Z):
                return False
        for z in Z:                                           # (ii) no unblocked back-door path from x to z
            if any(self.active(p, ()) for p in self.backdoor_paths(x, z)):
                return False
        for z in Z:                                           # (iii) every back-door path z .. y is blocked by x
            for p in self.backdoor_paths(z, y):
                if set(p[1:-1]) & (Z - {z}):
                    continue                                  # not a proper path from Z
                if self.active(p, {x}):
                    return False
        return True


def tf_joint(bn, do_idx):
    """Truncated factorisation: the do-variables' factors are replaced by point masses on the chosen states."""
    cpds = dict(bn["cpds"])
    for x, s in do_idx.items():
        cpds[x] = {"parents": [], "table": [[1.0 if i == s else 0.0] for i in range(bn["card"][x])]}
    return oracle.joint_table(bn, cpds)


def cpd_array(bn, v):
    c = bn["cpds"][v]
    shape = [bn["card"][v]] + [bn["card"][p] for p in c["parents"]]
    return [v] + list(c["parents"]), np.array(c["table"], dtype=float).reshape(shape)


# ------------------------------------------------------------------------------ pgmpy side
def _mk(items, form, rng=None):
    items = list(items)
    if rng is not None:
        rng.shuffle(items)
    if form == "list":
        return list(items)
    if form == "listdup":                      # a duplicate entry
        return list(items) + list(items[:1])
    if form == "set":
        return set(items)
    if form == "frozenset":
        return frozenset(items)
    if form == "tuple":
        return tuple(items)
    if form == "bare":
        return items[0] if len(items) == 1 else list(items)
    if form == "none":
        return None
    raise ValueError(form)


def _build_graph(nodes, edges, latents, rng, cls_name="BayesianNetwork"):
    from pgmpy.base import DAG
    from pgmpy.models import BayesianNetwork
    cls = DAG if cls_name == "DAG" else BayesianNetwork
    nodes, edges = list(nodes), [tuple(e) for e in edges]
    rng.shuffle(nodes)
    rng.shuffle(edges)
    if rng.random() < 0.5:
        g = cls(edges or None, latents=set(latents))
        g.add_nodes_from(nodes)
    else:
        g = cls()
        g.add_nodes_from(nodes, latent=[v in latents for v in nodes])
        g.add_edges_from(edges)
    return g


# =========================================================================== criterion cases
def _as_sets(ctx, r, label, key, **detail):
    """Normalise an enumerated family (frozenset of frozensets) to a list of python sets, defensively."""
    try:
        out = [set(s) for s in r]
        for s in out:
            for v in s:
                hash(v)
        return out
    except Exception as e:
        viol(ctx, "c13:malformed-result", f"{label}: cannot read result {r!r}: {type(e).__name__}: {e}", **detail)
        return None


def _minimal_classify(O, x, y, got, latents):
    """Structural reason for a get_minimal_adjustment_set answer that contains a descendant of x: the candidate set the
    routine starts from is Pa(x) + Pa(y) in the proper back-door graph (latent parents replaced by their parents), so
    it needs a parent of y (or, through latents, an ancestor of y) that descends from x."""
    bad = set(got) & (O.de[x] | {x})
    if not bad:
        return None
    start = set(O.pa[x]) | set(O.pa[y])
    seen = set()
    while start & set(latents) - seen:
        for u in list(start & set(latents) - seen):
            seen.add(u)
            start |= set(O.pa[u])
    if bad <= start and (start & O.de[x]):
        return "c13:minimal-set-contains-descendant"
    return None


def run_crit(spec, ctx):
    from pgmpy.inference import CausalInference
    nodes, edges = spec["nodes"], [tuple(e) for e in spec["edges"]]
    O = Ora(nodes, edges)
    rng = random.Random(spec["seed"])
    ctx.nontrivial = len(nodes) >= 3 and len(edges) >= 2
    ctx.feature(spec["source"])
    for L in spec["latent_sets"]:
        Ls = set(L)
        if L:
            ctx.feature("latents")
        model = _build_graph(nodes, edges, L, rng)
        ci = ctx.call(CausalInference, model)
        if ctx.failed(ci):
            viol(ctx, f"c13:exception:{ci.type}@{ci.where}", f"CausalInference(model) raised {ci!r}", latents=L)
            continue
        obs = [v for v in nodes if v not in Ls]
        for x in obs:
            for y in obs:
                if x != y:
                    _crit_pair(ctx, ci, O, x, y, obs, Ls, rng, dict(edges=edges, latents=L, X=x, Y=y))


def _crit_pair(ctx, ci, O, x, y, obs, Ls, rng, detail):
    nodes = O.nodes
    nd = [v for v in nodes if v != x and v != y and v not in O.de[x]]
    has_directed = bool(O.directed_paths(x, y))

    # ---- boolean validity tests for Z among the non-descendants of x
    for Z in _subsets(nd):
        want = O.backdoor(x, y, Z)
        form = rng.choice(["list", "set", "tuple", "frozenset"]) if Z else rng.choice(["list", "none", "omit", "frozenset"])
        if form == "omit":
            r = ctx.call(ci.is_valid_backdoor_adjustment_set, x, y)
        else:
            r = ctx.call(ci.is_valid_backdoor_adjustment_set, x, y, _mk(Z, form, rng))
        lab = f"is_valid_backdoor_adjustment_set({x!r}, {y!r}, {Z!r})"
        if ctx.failed(r):
            viol(ctx, f"c13:exception:{r.type}@{r.where}", f"{lab} raised {r!r}", **detail)
        else:
            expect(ctx, bool(r) == want and isinstance(r, (bool, np.bool_)), "c13:backdoor-test-disagrees",
                   f"{lab} = {r!r}, back-door criterion on paths says {want}", Z=Z, **detail)
        form = rng.choice(["list", "set", "tuple"])
        r = ctx.call(ci.is_valid_adjustment_set, [x], [y], _mk(Z, form, rng))
        lab = f"is_valid_adjustment_set([{x!r}], [{y!r}], {Z!r})"
        if ctx.failed(r):
            viol(ctx, f"c13:exception:{r.type}@{r.where}", f"{lab} raised {r!r}", **detail)
        else:
            expect(ctx, bool(r) == want and isinstance(r, (bool, np.bool_)), "c13:adjustment-test-disagrees",
                   f"{lab} = {r!r}, back-door criterion on paths says {want} (Z has no descendant of X)", Z=Z, **detail)

    # ---- front-door test: soundness for every observed Z, agreement where a directed path exists
    for Z in _subsets([v for v in obs if v != x and v != y]):
        form = rng.choice(["list", "set", "tuple", "frozenset"]) if Z else rng.choice(["list", "none", "omit"])
        if form == "omit":
            r = ctx.call(ci.is_valid_frontdoor_adjustment_set, x, y)
        else:
            r = ctx.call(ci.is_valid_frontdoor_adjustment_set, x, y, _mk(Z, form, rng))
        lab = f"is_valid_frontdoor_adjustment_set({x!r}, {y!r}, {Z!r})"
        if ctx.failed(r):
            viol(ctx, f"c13:exception:{r.type}@{r.where}", f"{lab} raised {r!r}", **detail)
            continue
        want = O.frontdoor(x, y, Z)
        if r:
            expect(ctx, want, "c13:frontdoor-test-unsound", f"{lab} = True, front-door criterion on paths fails",
                   Z=Z, **detail)
        elif has_directed and not (set(Z) & O.de[x]):
            # Z among the non-descendants of x cannot intercept a directed path: criterion is False as well
            expect(ctx, not want, "c13:frontdoor-test-disagrees", f"{lab} = False, criterion on paths holds", Z=Z, **detail)
        else:
            ctx.ok()

    # ---- enumerations
    r = ctx.call(ci.get_all_backdoor_adjustment_sets, x, y)
    lab = f"get_all_backdoor_adjustment_sets({x!r}, {y!r})"
    if ctx.failed(r):
        if r.type == "ValueError" and "No valid adjustment set" in r.msg:
            ctx.note("all-backdoor:none-found")
        else:
            viol(ctx, f"c13:exception:{r.type}@{r.where}", f"{lab} raised {r!r}", **detail)
    else:
        sets = _as_sets(ctx, r, lab, "c13:malformed-result", **detail)
        for s in sets or []:
            expect(ctx, s <= set(nodes) and O.backdoor(x, y, s), "c13:enumerated-backdoor-invalid",
                   f"{lab} lists {sorted(s)!r} which fails the back-door criterion on paths", **detail)
            if s & Ls:
                ctx.note("all-backdoor:latent-in-set")
        if sets is not None and not sets:
            ctx.note("all-backdoor:empty-family")
            ctx.ok()

    r = ctx.call(ci.get_all_frontdoor_adjustment_sets, x, y)
    lab = f"get_all_frontdoor_adjustment_sets({x!r}, {y!r})"
    if ctx.failed(r):
        viol(ctx, f"c13:exception:{r.type}@{r.where}", f"{lab} raised {r!r}", **detail)
    else:
        sets = _as_sets(ctx, r, lab, "c13:malformed-result", **detail)
        for s in sets or []:
            expect(ctx, s <= set(nodes) and O.frontdoor(x, y, s), "c13:enumerated-frontdoor-invalid",
                   f"{lab} lists {sorted(s)!r} which fails the front-door criterion on paths", **detail)
        if sets is not None and not sets:
            ctx.ok()

    r = ctx.call(ci.get_minimal_adjustment_set, x, y)
    lab = f"get_minimal_adjustment_set({x!r}, {y!r})"
    if ctx.failed(r):
        if r.type == "ValueError" and "adjacent" in r.msg and (y, x) in O.eset:
            ctx.note("minimal:adjacent-refused")          # Y -> X: no set can block X <- Y
            ctx.ok()
        else:
            viol(ctx, f"c13:exception:{r.type}@{r.where}", f"{lab} raised {r!r}", **detail)
    elif r is None:
        ctx.note("minimal:none")
    else:
        try:
            s = set(r)
        except Exception as e:
            viol(ctx, "c13:malformed-result", f"{lab}: cannot read {r!r}: {e}", **detail)
            return
        if s & Ls:
            ctx.note("minimal:latent-in-set")
        if s <= set(nodes) and O.backdoor(x, y, s):
            ctx.ok()
        else:
            key = _minimal_classify(O, x, y, s, Ls) if s <= set(nodes) else None
            viol(ctx, key or "c13:minimal-set-invalid",
                 f"{lab} = {sorted(s)!r} fails the back-door criterion on paths "
                 f"(descendants of X in it: {sorted(s & (O.de[x] | {x}))!r})", **detail)


# ================================================================================= BN cases
def _named_equal_cpd(cpd, bn, v):
    """None if `cpd` equals the spec's CPD of v per named assignment, else a description."""
    from rv.build import to_np
    scope, arr = cpd_array(bn, v)
    if list(cpd.variables)[:1] != [v]:
        return f"variable is {list(cpd.variables)[:1]!r}"
    if set(cpd.variables) != set(scope) or len(cpd.variables) != len(scope):
        return f"scope {list(cpd.variables)!r} != {scope!r}"
    for u in scope:
        if list(cpd.state_names[u]) != list(bn["states"][u]):
            return f"state names of {u!r}: {cpd.state_names[u]!r} != {bn['states'][u]!r}"
    a = oracle.factor_named(cpd, to_np)
    b = oracle.array_named(scope, bn["states"], arr)
    return oracle.named_close(a, b, atol=1e-12, rtol=1e-12)


def check_mutilated(ctx, bn, target, do_nodes, label, prefix="c13:do", **detail):
    """`target` must be the network of the spec after do(do_nodes)."""
    from rv.build import to_np
    nodes = bn["nodes"]
    want_edges = {tuple(e) for e in bn["edges"] if e[1] not in do_nodes}
    try:
        got_nodes, got_edges = set(target.nodes()), set(target.edges())
        expect(ctx, got_nodes == set(nodes), f"{prefix}-nodes-changed", f"{label}: nodes {sorted(got_nodes)!r}", **detail)
        if got_edges != want_edges:
            kept = sorted(e for e in got_edges - want_edges)
            lost = sorted(e for e in want_edges - got_edges)
            viol(ctx, f"{prefix}-wrong-edges", f"{label}: incoming edges kept {kept!r}, other edges lost {lost!r}", **detail)
        else:
            ctx.ok()
        cpds = list(target.get_cpds())
        expect(ctx, len(cpds) == len(nodes) and {c.variable for c in cpds} == set(nodes), f"{prefix}-cpd-list",
               f"{label}: CPDs for {[c.variable for c in cpds]!r}", **detail)
        for v in nodes:
            cpd = target.get_cpds(v)
            if cpd is None:
                viol(ctx, f"{prefix}-cpd-list", f"{label}: no CPD for {v!r}", **detail)
                continue
            if v in do_nodes:
                vals = np.asarray(to_np(cpd.values), dtype=float)
                ok = (list(cpd.variables) == [v] and list(cpd.state_names[v]) == list(bn["states"][v])
                      and vals.shape == (bn["card"][v],) and bool(np.all(vals >= 0)) and abs(vals.sum() - 1) < 1e-9)
                expect(ctx, ok, f"{prefix}-cpd-not-parent-free",
                       f"{label}: CPD of intervened {v!r} has scope {list(cpd.variables)!r}, states "
                       f"{cpd.state_names.get(v)!r}, values {vals.tolist()!r}", **detail)
            else:
                d = _named_equal_cpd(cpd, bn, v)
                expect(ctx, d is None, f"{prefix}-changed-other-cpd", f"{label}: CPD of untouched {v!r}: {d}", **detail)
    except Exception as e:
        viol(ctx, "c13:malformed-result", f"{label}: cannot read model: {type(e).__name__}: {e}", **detail)


def _cpd_view(model, v):
    from rv.build import to_np
    c = model.get_cpds(v)
    return list(c.variables), oracle.factor_named(c, to_np)


def _check_redo(ctx, spec, xs, xs2, rng):
    """do() on the result of do(), do() twice on the same nodes, and two in-place do() calls on one model: the second
    call must again remove exactly the incoming edges of its nodes and leave every other CPD - including the parent-free
    CPDs made by the first call - untouched, and must not touch the network it was called on."""
    from rv import build
    from rv.monitors import fingerprint, strip_order
    bn = spec["bn"]
    try:
        model = build.bayesian_network(bn, rng=random.Random(spec["build_seed"] + 2))
        r1 = ctx.call(model.do, list(xs))
        if ctx.failed(r1) or r1 is None:
            return                                        # judged by the single-call checks
        fp1 = strip_order(fingerprint(r1))
        first = {x: _cpd_view(r1, x) for x in xs}
        for second, tag in ((xs2, "other"), (xs, "same")):
            label = f"do({list(xs)!r}).do({list(second)!r})"
            r2 = ctx.call(r1.do, list(second))
            if ctx.failed(r2):
                viol(ctx, f"c13:exception:{r2.type}@{r2.where}", f"{label} raised {r2!r}", do=xs, second=second)
                continue
            expect(ctx, strip_order(fingerprint(r1)) == fp1, "c13:do-mutates-original",
                   f"{label}: the second call changed the network it was called on", do=xs, second=second)
            if r2 is None or r2 is r1:
                viol(ctx, "c13:do-no-new-model", f"{label} returned {r2!r}", do=xs)
                continue
            check_mutilated(ctx, bn, r2, set(xs) | set(second), label, do=xs, second=second)
            for x in xs:
                if x not in second:
                    expect(ctx, _cpd_view(r2, x) == first[x], "c13:do-changed-other-cpd",
                           f"{label}: parent-free CPD of {x!r} made by the first call was changed by the second",
                           do=xs, second=second)
        m2 = build.bayesian_network(bn, rng=random.Random(spec["build_seed"] + 3))
        label = f"do({list(xs)!r}, inplace=True); do({list(xs2)!r}, inplace=True)"
        for part in (xs, xs2):
            r = ctx.call(m2.do, list(part), inplace=True)
            if ctx.failed(r):
                viol(ctx, f"c13:exception:{r.type}@{r.where}", f"{label} raised {r!r}", do=xs, second=xs2)
                return
        check_mutilated(ctx, bn, m2, set(xs) | set(xs2), label, do=xs, second=xs2)
    except Exception as e:
        viol(ctx, "c13:malformed-result", f"do() sequence: cannot read models: {type(e).__name__}: {e}", do=xs)


def check_surgery(ctx, spec, d, rng, xs2=None):
    from rv import build
    from rv.monitors import fingerprint, strip_order
    bn = spec["bn"]
    xs = list(d["order"])
    for inplace in ([True, False] if d["inplace_first"] else [False, True]):
        model = build.bayesian_network(bn, rng=random.Random(spec["build_seed"] + 1))
        before = strip_order(fingerprint(model))
        arg = _mk(xs, d["form"])
        label = f"do({arg!r}, inplace={inplace})"
        r = ctx.call(model.do, arg, inplace=inplace)
        if ctx.failed(r):
            viol(ctx, f"c13:exception:{r.type}@{r.where}", f"{label} raised {r!r}", do=xs)
            continue
        if inplace:
            check_mutilated(ctx, bn, model, set(xs), label, do=xs)
        else:
            after = strip_order(fingerprint(model))
            expect(ctx, after == before, "c13:do-mutates-original",
                   f"{label} changed the network it was called on", do=xs)
            if r is None or r is model:
                viol(ctx, "c13:do-no-new-model", f"{label} returned {r!r}", do=xs)
                continue
            check_mutilated(ctx, bn, r, set(xs), label, do=xs)
    if spec.get("redo"):
        _check_redo(ctx, spec, xs, list(xs2 if xs2 is not None else xs), rng)
    if spec["dagdo"]:
        g = _build_graph(bn["nodes"], bn["edges"], bn["latents"], rng, "DAG")
        e0 = set(g.edges())
        arg = _mk(xs, d["form"])
        r = ctx.call(g.do, arg)
        label = f"DAG.do({arg!r})"
        if ctx.failed(r):
            viol(ctx, f"c13:exception:{r.type}@{r.where}", f"{label} raised {r!r}", do=xs)
        else:
            try:
                want = {tuple(e) for e in bn["edges"] if e[1] not in xs}
                expect(ctx, set(r.edges()) == want and set(r.nodes()) == set(bn["nodes"]), "c13:do-wrong-edges",
                       f"{label}: edges {sorted(r.edges())!r}, expected {sorted(want)!r}", do=xs)
                expect(ctx, set(g.edges()) == e0 and r is not g, "c13:do-mutates-original", f"{label} changed the DAG", do=xs)
            except Exception as e:
                viol(ctx, "c13:malformed-result", f"{label}: {e}", do=xs)


TOL = dict(atol=1e-13, rtol=1e-8)          # relative: answers range from 1e-12 to 1


def _compare(bn, r, do_idx, query):
    """Judge a returned factor against the truncated factorisation (do_idx = {}: the observational marginal)."""
    from rv.build import to_np
    states = bn["states"]
    query = list(query)
    nodes, J = tf_joint(bn, do_idx)
    want = oracle.marginal(nodes, J, query)
    try:
        if set(r.variables) != set(query) or len(r.variables) != len(query):
            return "scope", f"result scope {list(r.variables)!r} != query {query!r}"
        for v in query:
            if list(r.state_names[v]) != list(states[v]):
                return "names", f"state names of {v!r} are {r.state_names[v]!r}, model has {states[v]!r}"
        a = oracle.factor_named(r, to_np)
    except Exception as e:
        return "malformed", f"cannot read result: {type(e).__name__}: {e}"
    b = oracle.array_named(query, states, want)
    diff = oracle.named_close(a, b, **TOL)
    if diff:
        if any(x != x for x in a.values()):
            return "nan", diff
        diff = _Diff(diff)
        # the answer by state INDEX (comparable between relabelled copies of the same network)
        try:
            diff.vec = [a[frozenset((v, states[v][k]) for v, k in zip(query, idx))]
                        for idx in itertools.product(*[range(len(states[v])) for v in query])]
        except KeyError:
            diff.vec = [float(len(a))]
        return "values", diff
    return "ok", None


def engine_query(ctx, bn, model, do_idx, query, adj, algo, ci=None, do_none=False, qform="list"):
    """One CausalInference.query call judged against the truncated factorisation.
    Returns (status, info); status in ok / exc / scope / names / values / nan / malformed.
    ci: engine object to (re)use, else a fresh one; do_none: pass do=None instead of an empty dict."""
    from pgmpy.inference import CausalInference
    states = bn["states"]
    do_named = {x: states[x][s] for x, s in do_idx.items()}
    kw = {}
    if adj is not None:
        kw["adjustment_set"] = adj
    if ci is None:
        ci = CausalInference(model)
    variables = tuple(query) if qform == "tuple" else list(query)
    r = ctx.call(ci.query, variables, do=None if (do_none and not do_named) else dict(do_named), inference_algo=algo,
                 show_progress=False, **kw)
    if ctx.failed(r):
        return "exc", r
    return _compare(bn, r, do_idx, query)


class _Diff(str):
    vec = None


def _sig(st, info):
    if st == "exc":
        return (st, info.type, info.where)
    if st == "values":
        return (st,) + tuple(round(x, 7) for x in info.vec)
    return (st,)


def _identity_bn(bn):
    b2 = copy.deepcopy(bn)
    b2["states"] = {v: list(range(bn["card"][v])) for v in bn["nodes"]}
    return b2


def _positive_bn(bn):
    """Same structure and state names, every table entry made strictly positive (columns renormalised)."""
    b2 = copy.deepcopy(bn)
    for v in bn["nodes"]:
        t = np.array(bn["cpds"][v]["table"], dtype=float) + 0.05
        t = t / t.sum(axis=0, keepdims=True)
        b2["cpds"][v]["table"] = t.tolist()
    return b2


def _connected(bn):
    nodes = bn["nodes"]
    nb = {v: set() for v in nodes}
    for u, v in bn["edges"]:
        nb[u].add(v)
        nb[v].add(u)
    seen, stack = {nodes[0]}, [nodes[0]]
    while stack:
        for w in nb[stack.pop()]:
            if w not in seen:
                seen.add(w)
                stack.append(w)
    return len(seen) == len(nodes)


def strata(bn, do_idx, Z):
    """(zero_weight, positivity_violated) of the adjustment formula sum_z P(y | x, z) P(z) on the observational joint:
    some stratum has P(z) = 0 / some stratum has P(z) > 0 but P(x, z) = 0 (formula undefined)."""
    nodes, J = oracle.joint_table(bn)
    Z = [z for z in Z if z not in do_idx]
    xs = list(do_idx)
    pz = np.asarray(oracle.marginal(nodes, J, Z), dtype=float)
    pxz = np.asarray(oracle.marginal(nodes, J, xs + Z), dtype=float)[tuple(do_idx[x] for x in xs)]
    return bool(np.any(pz <= 0)), bool(np.any((pz > 0) & (pxz <= 0)))


class Session:
    """ONE model object and ONE CausalInference object serving every call of a case (object reuse)."""

    def __init__(self, bn, build_seed):
        from pgmpy.inference import CausalInference
        from rv import build
        self.bn = bn
        self.model = build.bayesian_network(bn, rng=random.Random(build_seed))
        self.ci = CausalInference(self.model)
        self.calls = 0


def _rename_bn(bn, m):
    b2 = copy.deepcopy(bn)
    b2["nodes"] = [m[v] for v in bn["nodes"]]
    b2["edges"] = [[m[u], m[v]] for u, v in bn["edges"]]
    b2["latents"] = [m[v] for v in bn["latents"]]
    for k in ("card", "states"):
        b2[k] = {m[v]: copy.deepcopy(bn[k][v]) for v in bn["nodes"]}
    b2["cpds"] = {m[v]: {"parents": [m[p] for p in bn["cpds"][v]["parents"]],
                         "table": copy.deepcopy(bn["cpds"][v]["table"])} for v in bn["nodes"]}
    return b2


class Q:
    """One engine call as data: network spec, do assignment (state indices), query, adjustment set (None = default),
    container form of the adjustment set, back-end; optionally the Session whose objects serve the call."""

    def __init__(self, bn, build_seed, do_idx, query, adj, form, algo, sess=None, do_none=False, qform="list"):
        self.bn, self.build_seed, self.do_idx, self.query = bn, build_seed, dict(do_idx), list(query)
        self.adj, self.form, self.algo = (None if adj is None else list(adj)), form, algo
        self.sess, self.do_none, self.qform = sess, do_none, qform

    def but(self, **k):
        q = Q(self.bn, self.build_seed, self.do_idx, self.query, self.adj, self.form, self.algo, self.sess,
              self.do_none, self.qform)
        q.__dict__.update(k)
        if "bn" in k:
            q.sess = None                    # a relabelled / perturbed copy of the network needs its own objects
        return q

    def fresh(self):
        return self.but(sess=None)

    def renamed(self, m):
        return self.but(bn=_rename_bn(self.bn, m), do_idx={m[x]: s for x, s in self.do_idx.items()},
                        query=[m[v] for v in self.query], adj=None if self.adj is None else [m[v] for v in self.adj])

    def label(self):
        st = self.bn["states"]
        adj = "default" if self.adj is None else f"{self.form}({self.adj!r})"
        do = "None" if (self.do_none and not self.do_idx) else repr({x: st[x][s] for x, s in self.do_idx.items()})
        return (f"query({self.query!r}, do={do}, adjustment_set={adj}, inference_algo={self.algo!r})"
                + (f" [call #{self.sess.calls} on a reused engine]" if self.sess else ""))

    def run(self, ctx):
        from rv import build
        adj = None if self.adj is None else _mk(self.adj, self.form)
        if self.sess is not None:
            self.sess.calls += 1
            return engine_query(ctx, self.bn, self.sess.model, self.do_idx, self.query, adj, self.algo,
                                ci=self.sess.ci, do_none=self.do_none, qform=self.qform)
        model = build.bayesian_network(self.bn, rng=random.Random(self.build_seed))
        return engine_query(ctx, self.bn, model, self.do_idx, self.query, adj, self.algo, do_none=self.do_none,
                            qform=self.qform)


def _describe(q, st, info):
    return f"{q.label()}: " + (f"raised {info!r}" if st == "exc" else str(info))


def assess(ctx, q, O, depth=0):
    """Run one query; return the list of findings [(key, what)] (empty: answered correctly or accepted).
    A failure is attributed by a chain of structural classifiers.  Each one applies only if its predicate holds on the
    case, re-runs the case with exactly that feature neutralised and claims the failure only if the outcome changes;
    what is left of the failure after neutralisation is classified further, so overlapping defects are all reported
    and anything unexplained ends with a generic key."""
    st, info = q.run(ctx)
    if st == "ok":
        return []
    out = []
    bn = q.bn
    # (0) object reuse: the call was served by an engine / model that had served other calls before.  Neutralised: the
    #     same call on fresh objects.  (No such defect is known; the key is never listed as known.)
    if q.sess is not None:
        q2 = q.fresh()
        st2, info2 = q2.run(ctx)
        if _sig(st2, info2) != _sig(st, info):
            out.append(("c13:answer-depends-on-earlier-calls", _describe(q, st, info)))
            if st2 == "ok":
                return out
        q, st, info = q2, st2, info2
    # (a0) explicit adjustment set on a network whose node names are not strings: the stratum weight is looked up with
    #      DiscreteFactor.get_value(**{name: state}), keywords must be strings.  Neutralised: nodes renamed to strings.
    if q.adj and st == "exc" and any(not isinstance(z, str) for z in q.adj):
        q2 = q.renamed({v: f"n{v!r}" for v in bn["nodes"]})
        st2, info2 = q2.run(ctx)
        if _sig(st2, info2) != _sig(st, info):
            out.append(("c13:non-string-node-name-adjustment", _describe(q, st, info)))
            if st2 == "ok":
                return out
            q, st, info, bn = q2, st2, info2, q2.bn
    # (a) the caller's container is used as it is: frozenset (what get_all_backdoor_adjustment_sets returns) breaks the
    #     BP back-end, a bare string (documented form) is iterated character-wise / refused.  Neutralised: a list.
    if q.adj is not None and q.form in ("frozenset", "bare"):
        q2 = q.but(form="list")
        st2, info2 = q2.run(ctx)
        if _sig(st2, info2) != _sig(st, info):
            out.append(("c13:adjustment-set-container", _describe(q, st, info)))
            if st2 == "ok":
                return out
            q, st, info = q2, st2, info2
    # (b) BP back-end inherits the clique-potential state-name defect of MarkovNetwork.to_junction_tree (C02): some
    #     variable's state names are not 0..k-1.  Neutralised: same network relabelled with identity state names.
    if q.algo == "bp" and any(list(bn["states"][v]) != list(range(bn["card"][v])) for v in bn["nodes"]):
        q2 = q.but(bn=_identity_bn(bn))
        st2, info2 = q2.run(ctx)
        if _sig(st2, info2) != _sig(st, info):
            out.append(("c13:bp-clique-potential-state-names", _describe(q, st, info)))
            if st2 == "ok":
                return out
            q, st, info, bn = q2, st2, info2, q2.bn
    # (c) default adjustment for several do-variables = plain union of their parents; wrong when that union holds a
    #     do-variable or a descendant of one.  Neutralised: every do-variable on its own (same network, same query).
    if len(q.do_idx) >= 2 and q.adj is None and st in ("values", "nan") and depth == 0:
        upa = set()
        for x in q.do_idx:
            upa |= set(O.pa[x])
        tainted = upa & (set(q.do_idx) | set().union(*[O.de[x] for x in q.do_idx]))
        if tainted:
            rest = []
            for x, s in q.do_idx.items():
                q1 = [v for v in q.query if v not in O.pa[x]]
                if q1:
                    rest.extend(assess(ctx, q.but(do_idx={x: s}, query=q1), O, depth + 1))
            if all(k in KNOWN_SINGLE for k, _ in rest):
                out.append(("c13:multi-do-union-of-parents", _describe(q, st, info)))
                return out
    # (d) strata of the adjustment formula sum_z P(y | x, z) P(z): the engine evaluates P(y | x, z) for EVERY z and gets
    #     nan (0/0) where P(x, z) = 0.  Neutralised: same case with strictly positive tables.
    if st == "nan":
        if q.adj is None:
            Z = []
            for x in q.do_idx:
                Z.extend(p for p in bn["cpds"][x]["parents"] if p not in Z)
        else:
            Z = list(q.adj)
        zero_w, pos_viol = strata(bn, q.do_idx, Z)
        if zero_w or pos_viol:
            st2, info2 = q.but(bn=_positive_bn(bn)).run(ctx)
            if st2 == "ok":
                # pos_viol: P(z) > 0 but P(x | z) = 0 (only reached with the default set: the truncated factorisation
                # is defined, the parent-adjustment formula is not); else: only strata of probability 0 are affected
                out.append(("c13:positivity-violated-nan" if pos_viol else "c13:zero-probability-stratum-nan",
                            _describe(q, st, info)))
                return out
    generic = {"exc": None, "scope": "c13:wrong-scope", "names": "c13:state-names", "malformed": "c13:malformed-result",
               "values": "c13:wrong-interventional", "nan": "c13:wrong-interventional"}[st]
    if st == "exc":
        generic = f"c13:exception:{info.type}@{info.where}"
    out.append((generic, _describe(q, st, info)))
    return out


KNOWN_SINGLE = ("c13:zero-probability-stratum-nan", "c13:positivity-violated-nan")


def judge_query(ctx, spec, O, d, query, adj, form, algo, sess=None, do_idx=None, do_none=False, qform="list"):
    do_idx = d["do"] if do_idx is None else do_idx
    q = Q(spec["bn"], spec["build_seed"], do_idx, query, adj, form, algo, sess=sess, do_none=do_none, qform=qform)
    found = assess(ctx, q, O)
    if not found:
        ctx.ok()
        return True
    for key, what in found:
        viol(ctx, key, what, do=do_idx, query=list(query), adj="default" if adj is None else sorted(adj, key=repr),
             form=form, algo=algo, mode=d["mode"], reused=bool(sess))
    return False


def direct_query(ctx, bn, model, query, key, label, build_seed):
    """VariableElimination on the MODEL object that the engine has been using: the observational marginal must still
    be the one of the spec.  A failure is reported only if the same query on a freshly built model is right."""
    from pgmpy.inference import VariableElimination
    from rv import build
    r = ctx.call(lambda: VariableElimination(model).query(list(query), show_progress=False))
    st, info = ("exc", r) if ctx.failed(r) else _compare(bn, r, {}, query)
    if st == "ok":
        ctx.ok()
        return
    m2 = build.bayesian_network(bn, rng=random.Random(build_seed))
    r2 = ctx.call(lambda: VariableElimination(m2).query(list(query), show_progress=False))
    st2, info2 = ("exc", r2) if ctx.failed(r2) else _compare(bn, r2, {}, query)
    if st2 == "ok":
        viol(ctx, key, f"{label}: VariableElimination(model).query({list(query)!r}) on the model object used by the "
             f"engine: {info!r}; a freshly built model answers correctly")
    else:
        ctx.note("direct-query-fails-on-fresh-model-too")       # not this property's business (C01)


def interleave(ctx, spec, sess, O, rng):
    """One unrelated call on the SAME engine / model objects between two judged queries; judged by its own oracle."""
    bn = sess.bn
    nodes = bn["nodes"]
    Ls = set(bn["latents"])
    obs = [v for v in nodes if v not in Ls]
    ops = ["ve", "do", "obs"]
    if all(isinstance(v, str) for v in nodes) and len(obs) >= 2:
        ops += ["bd", "min", "all", "fd", "adj"]
    op = rng.choice(ops)
    ctx.note("interleaved:" + op)
    ci, model = sess.ci, sess.model
    if op == "ve":
        q = rng.sample(nodes, rng.randint(1, min(2, len(nodes))))
        return direct_query(ctx, bn, model, q, "c13:model-changed-by-engine-calls", "between engine calls",
                            spec["build_seed"])
    if op == "obs":
        q = rng.sample(obs, rng.randint(1, min(2, len(obs))))
        algo = "bp" if (_connected(bn) and rng.random() < 0.4) else "ve"
        return judge_query(ctx, spec, O, {"do": {}, "mode": "none"}, q, None, None, algo, sess=sess,
                           do_none=rng.random() < 0.5)
    if op == "do":
        x = rng.choice(nodes)
        r = ctx.call(model.do, [x])
        if ctx.failed(r):
            return viol(ctx, f"c13:exception:{r.type}@{r.where}", f"do([{x!r}]) on the engine's model raised {r!r}")
        return check_mutilated(ctx, bn, r, {x}, f"do([{x!r}]) on the engine's model")
    x, y = rng.sample(obs, 2)
    detail = dict(X=x, Y=y, reused=True)
    if op in ("bd", "adj"):
        nd = [v for v in nodes if v != x and v != y and v not in O.de[x]]
        Z = rng.sample(nd, rng.randint(0, len(nd)))
        want = O.backdoor(x, y, Z)
        if op == "bd":
            r = ctx.call(ci.is_valid_backdoor_adjustment_set, x, y, _mk(Z, rng.choice(["list", "set", "tuple", "listdup"])))
            key, lab = "c13:backdoor-test-disagrees", f"is_valid_backdoor_adjustment_set({x!r}, {y!r}, {Z!r})"
        else:
            r = ctx.call(ci.is_valid_adjustment_set, [x], [y], _mk(Z, rng.choice(["list", "set", "tuple"])))
            key, lab = "c13:adjustment-test-disagrees", f"is_valid_adjustment_set([{x!r}], [{y!r}], {Z!r})"
        if ctx.failed(r):
            return viol(ctx, f"c13:exception:{r.type}@{r.where}", f"{lab} raised {r!r}", **detail)
        return expect(ctx, bool(r) == want, key, f"{lab} = {r!r} on a reused engine, criterion on paths says {want}",
                      Z=Z, **detail)
    if op == "min":
        r = ctx.call(ci.get_minimal_adjustment_set, x, y)
        lab = f"get_minimal_adjustment_set({x!r}, {y!r})"
        if ctx.failed(r):
            if r.type == "ValueError" and "adjacent" in r.msg and (y, x) in O.eset:
                return ctx.ok()
            return viol(ctx, f"c13:exception:{r.type}@{r.where}", f"{lab} raised {r!r}", **detail)
        if r is None:
            return
        try:
            sset = set(r)
        except Exception as e:
            return viol(ctx, "c13:malformed-result", f"{lab}: cannot read {r!r}: {e}", **detail)
        if sset <= set(nodes) and O.backdoor(x, y, sset):
            return ctx.ok()
        return viol(ctx, _minimal_classify(O, x, y, sset, Ls) or "c13:minimal-set-invalid",
                    f"{lab} = {sorted(sset)!r} fails the back-door criterion on paths", **detail)
    fn, crit, key = ((ci.get_all_backdoor_adjustment_sets, O.backdoor, "c13:enumerated-backdoor-invalid") if op == "all"
                     else (ci.get_all_frontdoor_adjustment_sets, O.frontdoor, "c13:enumerated-frontdoor-invalid"))
    r = ctx.call(fn, x, y)
    lab = f"{fn.__name__}({x!r}, {y!r})"
    if ctx.failed(r):
        if op == "all" and r.type == "ValueError" and "No valid adjustment set" in r.msg:
            return
        return viol(ctx, f"c13:exception:{r.type}@{r.where}", f"{lab} raised {r!r}", **detail)
    for sset in _as_sets(ctx, r, lab, "c13:malformed-result", **detail) or []:
        expect(ctx, sset <= set(nodes) and crit(x, y, sset), key,
               f"{lab} lists {sorted(sset)!r} which fails the criterion on paths", **detail)


def run_queries(ctx, spec, model, O, d, rng, sess=None):
    from pgmpy.inference import CausalInference, VariableElimination
    bn = spec["bn"]
    nodes, states = bn["nodes"], bn["states"]
    Ls = set(bn["latents"])
    do_idx = d["do"]
    xs = list(d["order"])
    connected = _connected(bn)
    str_names = all(isinstance(v, str) for v in nodes)
    upa = []
    for x in xs:
        for p in bn["cpds"][x]["parents"]:
            if p not in upa:
                upa.append(p)
    do_named = {x: states[x][s] for x, s in do_idx.items()}
    judged = 0
    if sess is not None:
        model = sess.model

    def engine():
        return sess.ci if sess is not None else CausalInference(model)

    def between():
        if sess is not None and rng.random() < 0.5:
            interleave(ctx, spec, sess, O, rng)

    def qform():
        return "tuple" if rng.random() < 0.2 else "list"

    # ---- default adjustment set
    if set(upa) & Ls:
        ctx.feature("refusal:latent-parent")
        obs_rest = [v for v in nodes if v not in xs and v not in upa and v not in Ls]
        if obs_rest:
            r = ctx.call(engine().query, [obs_rest[0]], do=dict(do_named), show_progress=False)
            if ctx.failed(r) and r.type == "ValueError":
                ctx.note("refused:latent-parent")
                ctx.ok()
            else:                                   # not refused: then the answer is judged like any other
                ctx.note("answered:latent-parent")
                judge_query(ctx, spec, O, d, [obs_rest[0]], None, None, "ve", sess=sess)
    else:
        algos = ["ve"] + (["bp"] if connected else [])
        for query in d["queries"]:
            for algo in algos:
                judge_query(ctx, spec, O, d, query, None, None, algo, sess=sess, qform=qform())
                judged += 1
                between()
        if not connected and d["queries"]:
            ctx.feature("bp:disconnected")
            r = ctx.call(engine().query, list(d["queries"][0]), do=dict(do_named), inference_algo="bp",
                         show_progress=False)
            if ctx.failed(r) and r.type == "ValueError":
                ctx.note("bp:disconnected-refused")
            else:
                ctx.note("bp:disconnected-answered")
                judge_query(ctx, spec, O, d, d["queries"][0], None, None, "bp", sess=sess)
        if upa and not (set(upa) & set(xs)):
            # outside the quantifier: a query variable among the parents of the do-variables.  Refused on the pinned
            # tree; if an engine answers instead, the answer is judged like any other.
            r = ctx.call(engine().query, [upa[0]], do=dict(do_named), show_progress=False)
            if ctx.failed(r) and r.type == "ValueError":
                ctx.note("refused:query-in-parents")
                ctx.ok()
            else:
                ctx.note("answered:query-in-parents")
                judge_query(ctx, spec, O, d, [upa[0]], None, None, "ve", sess=sess)

    # ---- boundary: the empty do-set (do=None and do={}): the observational marginal
    obs = [v for v in nodes if v not in Ls]
    if obs:
        q0 = rng.sample(obs, rng.randint(1, min(2, len(obs))))
        judge_query(ctx, spec, O, d, q0, None, None, "bp" if (connected and rng.random() < 0.4) else "ve", sess=sess,
                    do_idx={}, do_none=rng.random() < 0.5, qform=qform())
        ctx.feature("empty-do")

    # ---- every back-door-valid explicit adjustment set (single do)
    if len(xs) == 1:
        x, s = xs[0], do_idx[xs[0]]
        nd_obs = [v for v in nodes if v != x and v not in O.de[x] and v not in Ls]
        for query in d["explicit"]:
            cands = [v for v in nd_obs if v not in query]
            valid = [Z for Z in _subsets(cands) if all(O.backdoor(x, y, Z) for y in query)]
            if not valid:
                ctx.note("explicit:no-valid-set")
                continue
            cap = 6 if ctx.tier == "quick" else 16
            if len(valid) > cap:
                keep = valid[:2] + rng.sample(valid[2:], cap - 2)
                valid = [Z for Z in valid if Z in keep]
            for Z in valid:
                if strata(bn, do_idx, Z)[1]:
                    ctx.note("explicit:skipped-positivity")      # P(z) > 0, P(x | z) = 0: formula undefined
                    continue
                forms = ["list", "set", "tuple", "frozenset"] + (["bare"] if len(Z) == 1 and str_names else []) \
                    + (["listdup"] if Z else [])
                form = rng.choice(forms)
                algo = "bp" if (connected and rng.random() < 0.35) else "ve"
                judge_query(ctx, spec, O, d, query, Z, form, algo, sess=sess, qform=qform())
                judged += 1
                ctx.feature("explicit-adjustment" if Z else "explicit-empty-adjustment")
                between()
        if spec["instance_algo"] and d["queries"] and not (set(upa) & Ls):
            # the documented third form of `inference_algo`: an Inference instance
            ctx.feature("algo-instance")
            inst = VariableElimination(model)
            st, info = engine_query(ctx, bn, model, do_idx, d["queries"][0], None, inst, ci=engine())
            if st == "ok":
                ctx.ok()
            elif st == "exc" and info.type == "TypeError" and "not callable" in info.msg:
                viol(ctx, "c13:inference-algo-instance-not-callable",
                     f"query(..., inference_algo=<VariableElimination instance>) raised {info!r}", do=do_idx)
            elif st == "exc":
                viol(ctx, f"c13:exception:{info.type}@{info.where}",
                     f"query(..., inference_algo=<VariableElimination instance>) raised {info!r}", do=do_idx)
            elif st != "nan":
                viol(ctx, "c13:wrong-interventional", f"query with an engine instance: {info}", do=do_idx)
    return judged


class _SamplerSpy:
    """Records which model / evidence BayesianModelSampling is handed while simulate() runs."""

    def __enter__(self):
        from pgmpy.sampling import BayesianModelSampling as B
        self.B = B
        self.calls = []
        self.depth = 0
        self.orig = {n: B.__dict__[n] for n in ("forward_sample", "rejection_sample")}
        spy = self

        def wrap(name, fn):
            def w(slf, *a, **k):
                if spy.depth == 0:
                    ev = k.get("evidence", a[0] if (name == "rejection_sample" and a) else None)
                    spy.calls.append((name, slf.model, list(ev) if ev else []))
                spy.depth += 1
                try:
                    return fn(slf, *a, **k)
                finally:
                    spy.depth -= 1
            return w
        for n, fn in self.orig.items():
            setattr(B, n, wrap(n, fn))
        return self

    def __exit__(self, *a):
        for n, fn in self.orig.items():
            setattr(self.B, n, fn)
        return False


def check_simulate(ctx, spec, model, d):
    bn = spec["bn"]
    states, nodes = bn["states"], bn["nodes"]
    do_idx = {}
    for x in d["order"]:
        tab = bn["cpds"][x]["table"]
        best = max(range(bn["card"][x]), key=lambda i: sum(tab[i]))
        do_idx[x] = best if sum(tab[d["do"][x]]) / len(tab[0]) < 0.15 else d["do"][x]
    do_named = {x: states[x][s] for x, s in do_idx.items()}
    n = 24
    with _SamplerSpy() as spy:
        r = ctx.call(model.simulate, n_samples=n, do=dict(do_named), seed=spec["seed"] % 10000, show_progress=False)
    label = f"simulate(do={do_named!r})"
    ctx.feature("simulate")
    if ctx.failed(r):
        viol(ctx, f"c13:exception:{r.type}@{r.where}", f"{label} raised {r!r}", do=do_idx)
        return
    if not expect(ctx, len(spy.calls) == 1, "c13:simulate-sampler-not-observed", f"{label}: sampler calls {len(spy.calls)}"):
        return
    name, sm, ev = spy.calls[0]
    check_mutilated(ctx, bn, sm, set(do_idx), label + " sampled model", prefix="c13:simulate-do", do=do_idx)
    try:
        evd = {}
        for e in ev:
            evd[e[0]] = e[1]
        expect(ctx, evd == do_named, "c13:simulate-do-not-clamped",
               f"{label}: sampler evidence is {evd!r}, expected the do-assignment", do=do_idx)
        obs = [v for v in nodes if v not in bn["latents"]]
        expect(ctx, r.shape[0] == n and set(r.columns) == set(obs), "c13:simulate-frame",
               f"{label}: frame shape {r.shape}, columns {list(r.columns)!r}", do=do_idx)
        for x, sname in do_named.items():
            col = list(r[x])
            expect(ctx, all(c == sname for c in col), "c13:simulate-do-not-clamped",
                   f"{label}: column {x!r} holds {sorted(set(map(repr, col)))!r}", do=do_idx)
        if not bn["latents"]:
            nodesJ, J = tf_joint(bn, do_idx)
            bad = 0
            for _, row in r.iterrows():
                idx = tuple(states[v].index(row[v]) for v in nodesJ)
                bad += J[idx] <= 0
            expect(ctx, bad == 0, "c13:simulate-impossible-row",
                   f"{label}: {bad} rows have probability 0 under the truncated factorisation", do=do_idx)
    except Exception as e:
        viol(ctx, "c13:malformed-result", f"{label}: cannot read result: {type(e).__name__}: {e}", do=do_idx)


def run_bn(spec, ctx):
    from rv import build
    bn = spec["bn"]
    nodes, edges = bn["nodes"], [tuple(e) for e in bn["edges"]]
    O = Ora(nodes, edges)
    rng = random.Random(spec["seed"])
    ctx.feature(f"kind:{bn['kind']}")
    ctx.feature(f"names:{bn.get('names')}")
    for flag in ("latents", "zeros", "tiny"):
        if bn.get(flag):
            ctx.feature(flag)
    judged = 0
    has_parent = False
    # object reuse: in `shared` cases ONE model and ONE CausalInference object serve every call of the case (all
    # do-sets, adjustment sets, back-ends, interleaved criterion calls / do() / direct queries); else fresh per call
    sess = Session(bn, spec["build_seed"]) if spec.get("shared") else None
    if sess is not None:
        ctx.feature("reused-engine")
    dos = spec["dos"]
    for i, d in enumerate(dos):
        ctx.feature(f"do:{d['mode']}")
        if any(bn["card"][x] == 1 for x in d["order"]):
            ctx.feature("do:single-state-variable")
        check_surgery(ctx, spec, d, rng, xs2=dos[(i + 1) % len(dos)]["order"])
        model = None if sess is not None else build.bayesian_network(bn, rng=random.Random(spec["build_seed"]))
        judged += run_queries(ctx, spec, model, O, d, rng, sess=sess)
        has_parent = has_parent or any(O.pa[x] for x in d["order"])
    if spec["sim"] and dos:
        model = sess.model if sess is not None else build.bayesian_network(bn, rng=random.Random(spec["build_seed"]))
        check_simulate(ctx, spec, model, dos[-1])
    if sess is not None:
        # after everything the engine did: the model object must still be the network of the spec
        direct_query(ctx, bn, sess.model, rng.sample(nodes, min(2, len(nodes))), "c13:model-changed-by-engine-calls",
                     f"after {sess.calls} engine calls", spec["build_seed"])
    ctx.nontrivial = bool(has_parent and judged >= 1)


def _rank(ctx):
    """Position of this worker's hash seed in the harness' list for the tier (None if unknown)."""
    try:
        from rv import harness
        hs = harness.hashseeds(ctx.tier, int(getattr(ctx, "seed", 0) or 0), PLAN[ctx.tier].get("hashseeds", 3))
        return hs.index(int(ctx.hashseed))
    except Exception:
        return None


def run_case(spec, ctx):
    ctx.__dict__.setdefault("c13_seen", {}).clear()
    if spec.get("cells"):
        # thorough tier: the 5-node enumeration is spread over the hash-seed cells instead of being repeated in all of
        # them (every DAG still runs under 4 different hash seeds)
        k, m = spec["cells"]
        r = _rank(ctx)
        if r is not None and r % m != k:
            ctx.note("case-judged-in-other-hash-seed-cell")
            return
    if spec["kind"] == "crit":
        run_crit(spec, ctx)
    else:
        run_bn(spec, ctx)
