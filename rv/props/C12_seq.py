"""C12 widening: object reuse / call sequences and boundary values.

seq  : ONE PC object serves a sequence of estimate() / build_skeleton() / skeleton_to_pdag() calls with different
       variants, oracle ci_tests (callables answering for two DIFFERENT ground-truth DAGs on the same variables, and
       independence_match), return types, max_cond_vars (0, 1, exact max degree, +1, n, 1000, default, numpy int,
       integral float) and significance levels (0, 0.0, 1, 1e-12, 1e8, None).  Every answer is judged against the DAG
       whose oracle answered THAT call; returned objects are mutated (cleared / edited) between calls and the
       un-mutated ones are re-judged at the end of the sequence (a result must not alias estimator state).
       skeleton_to_pdag is called twice on the same inputs (own skeleton + arbitrary valid separating sets in
       tuple / list / set / frozenset containers, or the pair returned by build_skeleton).
pseq : ONE PDAG object: to_dag twice (result of the first call edited in between), to_dag(required_edges=[]),
       copy() -> to_dag of the copy, copy edited / cleared -> to_dag of the original again.
Boundary values: node names 0, '', 2.5, 1234567, tuples (PDAG only) and mixed types; graphs with 1 or 2 nodes, empty
edge sets, empty PDAG; duplicate edges in the ebunch lists; ci_test returning bool / numpy.bool_ / int; data frames
whose (irrelevant) cells span 1e-12 .. 1e8.
The oracle is the one of C12 (path-based d-separation, class enumeration / Meek closure, brute-force extendability).
"""
import itertools

from rv import gen, oracle

MIXED_POOL = [0, "", 2.5, "A", 1, "b", 10, 1234567, "0", " "]
TUPLE_POOL = [("a", 1), ("a", 2), (0,), (), ("", 0), 0, "", "x"]
SIGS = [0.01, 0, 0.0, 1, 1e-12, 1e8, None, 0.05]


def _r(xs):
    return sorted(xs, key=repr)


def _fs(sets):
    return sorted((_r(s) for s in sets), key=repr)


def nm(x):
    """spec value -> node name (lists come back from JSON for tuple names)."""
    return tuple(nm(y) for y in x) if isinstance(x, list) else x


# ------------------------------------------------------------------ generators
def _pick_names(rng, n, style):
    from rv.props import C12 as B
    if style == "mixed":
        names = rng.sample(MIXED_POOL, n)
        if rng.random() < 0.7 and 0 not in names:
            names[rng.randrange(n)] = 0
        if rng.random() < 0.5 and "" not in names:
            j = rng.randrange(n)
            if names[j] != 0 or n == 1:
                names[j] = ""
        return names
    if style == "tuple":
        return [list(x) if isinstance(x, tuple) else x for x in rng.sample(TUPLE_POOL, n)]
    if style == "int0":
        rest = rng.sample([1, 2, 3, 7, 10, 11, 100, 1234567], n - 1)
        names = [0] + rest
        rng.shuffle(names)
        return names
    return B._names(rng, n, style)


def _small_or_rand_dag(rng, n):
    from rv.props import C12 as B
    if n <= 4:
        cand = [e for (k, e) in B.small_dags() if k == n]
        if rng.random() < 0.15:
            return []
        return list(rng.choice(cand))
    return B._rand_idx_dag(rng, n)


def _maxdeg(n, e):
    deg = [0] * n
    for u, v in e:
        deg[u] += 1
        deg[v] += 1
    return max(deg) if deg else 0


def gen_seq(rng, tier):
    n = rng.choice([1, 2, 2, 3, 3, 3, 4, 4, 4, 5, 5, 6])
    holder = rng.choice(["frame", "frame", "ind", "both"])
    if holder == "frame":
        style = rng.choice(["mixed", "mixed", "int0", "letters", "words", "ints"])
    else:
        style = rng.choice(["letters", "words"])
    names = _pick_names(rng, n, style)
    order = names[:]
    rng.shuffle(order)
    g = []
    for _ in range(2):
        e = _small_or_rand_dag(rng, n)
        g.append({"edges": [[names[u], names[v]] for (u, v) in e], "maxdeg": _maxdeg(n, e)})
    if rng.random() < 0.2:
        g[1] = dict(g[0])
    steps = []
    nsteps = rng.randint(5, 9)
    for _ in range(nsteps):
        t = rng.choice([0, 1])
        ci = "callable"
        if holder in ("ind", "both") and t == 0 and rng.random() < 0.6:
            ci = "match"
        md = g[t]["maxdeg"]
        kinds = ["exact", "exact", "plus1", "n", "big", "npint", "float"]
        if md <= 5:
            kinds.append("default")
        mk = rng.choice(kinds)
        mcv = {"exact": md, "plus1": md + 1, "n": n, "big": 1000, "npint": md, "float": float(md + rng.choice([0, 1])),
               "default": None}[mk]
        op = rng.choice(["estimate", "estimate", "estimate", "build_skeleton", "s2p_twice"])
        steps.append({"op": op, "truth": t, "ci": ci, "variant": rng.choice(["orig", "stable", "parallel"]),
                      "rt": rng.choice(["skeleton", "pdag", "cpdag", "dag", "dag", "PDAG", "Skeleton", "DAG"]),
                      "mcv": mcv, "mcv_kind": mk, "sig": rng.choice(SIGS), "sig_given": rng.random() < 0.7,
                      "ret": rng.choice(["bool", "bool", "npbool", "int"]),
                      "mutate": rng.random() < 0.5,
                      "own_inputs": rng.random() < 0.5, "container": rng.choice(["tuple", "list", "set", "frozenset"]),
                      "sub": rng.randrange(10 ** 6)})
    return {"kind": "seq", "nodes": order, "g": g, "holder": holder, "style": style,
            "frame": rng.choice(["zeros", "extreme", "two_rows", "floats"]), "steps": steps}


def gen_pseq(rng, tier):
    from rv.props import C12 as B
    items = []
    for _ in range(6):
        how = rng.choice(["mixed4", "mixed4", "cpdag", "cpdag+", "tiny", "tiny", "empty"])
        if how == "mixed4":
            n = 4
            D, U = B.mixed4(rng.randrange(4096))
        elif how in ("cpdag", "cpdag+"):
            n = rng.choice([3, 4, 5, 6])
            e = _small_or_rand_dag(rng, n)
            dset, uset = oracle.cpdag_meek(list(range(n)), e)
            D = [x for x in e if x in dset]
            U = [x for x in e if frozenset(x) in uset]
            if how == "cpdag+":
                keep = []
                for x in U:
                    if rng.random() < 0.4:
                        D.append(x)
                    else:
                        keep.append(x)
                U = keep
        elif how == "tiny":
            n = rng.choice([1, 2, 2, 3])
            pairs = [(i, j) for i in range(n) for j in range(i + 1, n)]
            D, U = [], []
            for (i, j) in pairs:
                c = rng.choice([0, 1, 2, 3])
                if c == 1:
                    D.append((i, j))
                elif c == 2:
                    D.append((j, i))
                elif c == 3:
                    U.append((i, j))
        else:
            n = rng.choice([0, 1, 2, 3])
            D, U = [], []
        style = rng.choice(["mixed", "mixed", "tuple", "int0", "letters", "ints"])
        if n == 0:
            names = []
        else:
            names = _pick_names(rng, n, style)
        d = [[names[u], names[v]] for (u, v) in D]
        u_ = [[names[a], names[b]] if rng.random() < 0.5 else [names[b], names[a]] for (a, b) in U]
        rng.shuffle(d)
        rng.shuffle(u_)
        dup = rng.random() < 0.2
        if dup and d:
            d.append(list(rng.choice(d)))
        if dup and u_ and rng.random() < 0.5:
            x = rng.choice(u_)
            u_.append([x[1], x[0]] if rng.random() < 0.5 else list(x))
        order = names[:]
        rng.shuffle(order)
        items.append({"how": how, "nodes": order, "dir": d, "und": u_, "dup": dup,
                      "ctor": rng.choice(["kw", "pos", "default+add" if not d and not u_ else "kw"]),
                      "edit": rng.choice(["clear", "remove_node", "add_cycle", "attrs"]),
                      "sub": rng.randrange(10 ** 6)})
    return {"kind": "pseq", "items": items}


# ------------------------------------------------------------------ truth + judges
class Truth:
    def __init__(self, nodes, edges):
        from rv.props import C12 as B
        self.nodes = list(nodes)
        self.edges = [tuple(e) for e in edges]
        self.ds = oracle.DSep(self.nodes, self.edges)
        self.skel = oracle.skeleton(self.edges)
        self.pairs = [frozenset(p) for p in itertools.combinations(self.nodes, 2)]
        self.nonadj = {p for p in self.pairs if p not in self.skel}
        self.tdir, self.tund = B.truth_cpdag(self.nodes, self.edges, by_enum=len(self.nodes) <= 4)
        self.tvs = oracle.vstructures(self.nodes, self.edges)
        self.ci = B.CIOracle(self.ds)


def judge_skeleton(ctx, label, r, T, det):
    try:
        sk, seps = r
        got_nodes = set(sk.nodes())
        got_skel = {frozenset(e) for e in sk.edges()}
        sep_vals = {k: tuple(v) for k, v in seps.items()}
    except Exception as e:
        ctx.violation("c12:malformed-result", f"{label}: cannot read skeleton result: {e!r}", **det)
        return False
    ok = ctx.expect(got_nodes == set(T.nodes), "c12:wrong-node-set",
                    f"{label}: skeleton nodes {_r(got_nodes)} != {_r(T.nodes)}", **det)
    ok &= ctx.expect(got_skel == T.skel, "c12:wrong-skeleton",
                     f"{label}: skeleton differs: spurious {_fs(got_skel - T.skel)}, missing {_fs(T.skel - got_skel)}", **det)
    ok &= ctx.expect(set(sep_vals) == T.nonadj, "c12:sepset-keys",
                     f"{label}: separating sets stored for {_fs(sep_vals)}; non-adjacent pairs are {_fs(T.nonadj)}", **det)
    for k, Z in sep_vals.items():
        if not (isinstance(k, frozenset) and len(k) == 2 and k <= set(T.nodes)):
            ctx.violation("c12:sepset-keys", f"{label}: odd separating-set key {k!r}", **det)
            ok = False
            continue
        x, y = tuple(k)
        good = x not in Z and y not in Z and set(Z) <= set(T.nodes) and T.ds.dsep(x, y, set(Z))
        ok &= ctx.expect(good, "c12:wrong-sepset",
                         f"{label}: stored separating set {Z!r} for {x!r},{y!r} does not d-separate them", **det)
    return ok


def judge_pdag(ctx, label, r, T, det):
    from pgmpy.base import PDAG
    from rv.props import C12 as B
    try:
        if not isinstance(r, PDAG):
            raise TypeError(f"result is {type(r).__name__}, not PDAG")
        gn, gd, gu = B.read_pdag(r)
        attr_d = {tuple(e) for e in r.directed_edges}
        attr_u = {frozenset(e) for e in r.undirected_edges}
    except Exception as e:
        ctx.violation("c12:malformed-result", f"{label}: cannot read PDAG result: {e!r}", **det)
        return False
    ok = ctx.expect((gd, gu) == (T.tdir, T.tund), "c12:wrong-cpdag",
                    f"{label}: result is not the CPDAG: got directed {_r(gd)} undirected {_fs(gu)}; expected directed "
                    f"{_r(T.tdir)} undirected {_fs(T.tund)}", **det)
    if ok:
        ok &= ctx.expect(attr_d == gd and attr_u == gu, "c12:pdag-assembly-inconsistent",
                         f"{label}: PDAG.directed_edges/undirected_edges {_r(attr_d)} / {_fs(attr_u)} disagree with "
                         f"its graph", **det)
    ok &= ctx.expect(gn == set(T.nodes), "c12:wrong-node-set",
                     f"{label}: PDAG result nodes {_r(gn)} != {_r(T.nodes)}", **det)
    return ok


def judge_dag(ctx, label, r, T, det):
    from pgmpy.base import DAG
    from rv.props import C12 as B
    try:
        if not isinstance(r, DAG):
            raise TypeError(f"result is {type(r).__name__}, not DAG")
        dn = set(r.nodes())
        de = [tuple(e) for e in r.edges()]
    except Exception as e:
        ctx.violation("c12:malformed-result", f"{label}: cannot read DAG result: {e!r}", **det)
        return False
    dsk = {frozenset(e) for e in de}
    problems = []
    if len(dsk) != len(de) or not B.acyclic(dn | set(T.nodes), de):
        problems.append("directed cycle")
    if dsk != T.skel:
        problems.append("skeleton differs")
    dvs = oracle.vstructures(list(T.nodes), de) if dn <= set(T.nodes) else set()
    if dvs != T.tvs:
        problems.append(f"v-structures differ: spurious {_r(dvs - T.tvs)[:2]} missing {_r(T.tvs - dvs)[:2]}")
    ok = ctx.expect(not problems, "c12:wrong-dag",
                    f"{label}: dag result is not Markov equivalent to the truth: " + "; ".join(problems) +
                    f"; got {_r(de)}", **det)
    ok &= ctx.expect(dn == set(T.nodes), "c12:wrong-node-set", f"{label}: dag result nodes {_r(dn)} != {_r(T.nodes)}",
                     **det)
    return ok


def todag_problems(r, nodes, D, U):
    """Problems of a to_dag result w.r.t. the PDAG (nodes, D, U); raises if unreadable."""
    from pgmpy.base import DAG
    from rv.props import C12 as B
    if not isinstance(r, DAG):
        raise TypeError(f"result is {type(r).__name__}")
    D = list(dict.fromkeys(tuple(e) for e in D))
    skel = {frozenset(e) for e in D} | {frozenset(e) for e in U}
    v0 = B.pdag_vstructs(D, skel)
    rn = set(r.nodes())
    re_ = [tuple(e) for e in r.edges()]
    rsk = {frozenset(e) for e in re_}
    problems = []
    if len(rsk) != len(re_) or not B.acyclic(rn | set(nodes), re_):
        problems.append("result has a directed cycle")
    if rsk != skel:
        problems.append(f"skeleton changed: extra {_fs(rsk - skel)[:3]} missing {_fs(skel - rsk)[:3]}")
    if not set(D) <= set(re_):
        problems.append(f"directed edges lost/reversed: {_r(set(D) - set(re_))[:3]}")
    newv = B.pdag_vstructs(re_, rsk | skel) - v0
    if newv:
        problems.append(f"new v-structure {_r(newv)[:2]}")
    if rn != set(nodes):
        problems.append(f"nodes {_r(rn)} != {_r(nodes)}")
    return problems


# ------------------------------------------------------------------ seq runner
def _frame(nodes, kind):
    import pandas as pd
    n = len(nodes)
    if kind == "zeros":
        rows = [[0] * n]
    elif kind == "extreme":
        vals = [1e-12, 1e8, 0.0, -1e8, 1.0, 1e-300]
        rows = [[vals[(i + j) % len(vals)] for i in range(n)] for j in range(3)]
    elif kind == "two_rows":
        rows = [[0] * n, [1] * n]
    else:
        rows = [[0.5 * i for i in range(n)], [1.5] * n]
    return pd.DataFrame(data=rows, columns=list(nodes))


def _mutate(obj):
    """Edit a returned object in place (the estimator must not depend on it)."""
    try:
        if isinstance(obj, tuple):
            for o in obj:
                _mutate(o)
            return
        if isinstance(obj, dict):
            obj.clear()
            return
        for attr in ("directed_edges", "undirected_edges"):
            s = getattr(obj, attr, None)
            if isinstance(s, set):
                s.clear()
        obj.clear()
    except Exception:
        pass


def run_seq(spec, ctx):
    import numpy as np
    import random
    from pgmpy.estimators import PC
    from pgmpy.independencies import Independencies
    from rv.props import C12 as B

    nodes = [nm(x) for x in spec["nodes"]]
    n = len(nodes)
    truths = [Truth(nodes, [(nm(u), nm(v)) for u, v in g["edges"]]) for g in spec["g"]]
    ctx.feature(f"seq:n={n}")
    ctx.feature(f"seq:names:{spec['style']}")
    ctx.feature(f"seq:holder:{spec['holder']}")
    ctx.nontrivial = n >= 2 and len(spec["steps"]) >= 3
    det0 = dict(nodes=nodes, g0=truths[0].edges, g1=truths[1].edges, holder=spec["holder"])

    def build():
        kw = {}
        if spec["holder"] in ("frame", "both"):
            kw["data"] = _frame(nodes, spec["frame"])
        if spec["holder"] in ("ind", "both"):
            T = truths[0]
            triples = []
            for p in T.pairs:
                x, y = sorted(p, key=nodes.index)
                rest = [v for v in nodes if v not in p]
                for k in range(len(rest) + 1):
                    for Z in itertools.combinations(rest, k):
                        if T.ci.answer(x, y, Z):
                            triples.append([x, y, list(Z)])
            covered = {v for t in triples for v in [t[0], t[1]] + t[2]}
            if covered != set(nodes) and "data" not in kw:
                kw["data"] = _frame(nodes, "zeros")          # variable list not inferable from the assertions
            kw["independencies"] = Independencies(*triples)
        return PC(**kw)

    est = ctx.call(build)
    if ctx.failed(est):
        return B._exc(ctx, est, "seq: PC constructor", **det0)

    def ci_fn(T, ret):
        def f(X, Y, Z, **kw):
            a = T.ci(X, Y, Z)
            if ret == "npbool":
                return np.bool_(a)
            if ret == "int":
                return int(a)
            return a
        return f

    later = []                       # (label, kind, result, truth, det) re-judged after the whole sequence
    for i, st in enumerate(spec["steps"]):
        T = truths[st["truth"]]
        det = dict(det0, step=i, op=st["op"], truth=st["truth"], ci=st["ci"], variant=st["variant"], rt=st["rt"],
                   mcv=st["mcv"], sig=st["sig"])
        label = f"seq step {i} {st['op']}[{st['ci']},{st['variant']},{st['rt']},mcv={st['mcv']!r}]"
        ci_arg = "independence_match" if st["ci"] == "match" else ci_fn(T, st["ret"])
        kw = dict(variant=st["variant"], ci_test=ci_arg, n_jobs=1, show_progress=False)
        if st["mcv"] is not None:
            kw["max_cond_vars"] = np.int64(st["mcv"]) if st["mcv_kind"] == "npint" else st["mcv"]
        if st["sig_given"]:
            kw["significance_level"] = st["sig"]
        ctx.feature(f"seq:mcv:{st['mcv_kind']}")
        if st["op"] == "estimate":
            r = ctx.call(est.estimate, return_type=st["rt"], **kw)
            if ctx.failed(r):
                B._exc(ctx, r, label, **det)
                continue
            kind = st["rt"].lower()
            kind = "pdag" if kind == "cpdag" else kind
        elif st["op"] == "build_skeleton":
            r = ctx.call(est.build_skeleton, **kw)
            if ctx.failed(r):
                B._exc(ctx, r, label, **det)
                continue
            kind = "skeleton"
        else:                        # skeleton_to_pdag twice on the same inputs
            import networkx as nx
            rs = random.Random(st["sub"])
            if st["own_inputs"]:
                sk = nx.Graph()
                order = list(nodes)
                rs.shuffle(order)
                sk.add_nodes_from(order)
                e = list(T.edges)
                rs.shuffle(e)
                sk.add_edges_from(e)
                seps = {}
                conv = {"tuple": tuple, "list": list, "set": set, "frozenset": frozenset}[st["container"]]
                for p in _r(T.nonadj):
                    x, y = tuple(p)
                    rest = [v for v in nodes if v not in p]
                    cands = [Z for k in range(len(rest) + 1) for Z in itertools.combinations(rest, k)
                             if T.ci.answer(x, y, Z)]
                    seps[p] = conv(rs.choice(cands))
            else:
                r0 = ctx.call(est.build_skeleton, **kw)
                if ctx.failed(r0):
                    B._exc(ctx, r0, label + " (build_skeleton)", **det)
                    continue
                sk, seps = r0
            for rep, fn in enumerate((PC.skeleton_to_pdag, est.skeleton_to_pdag)):
                r = ctx.call(fn, sk, seps)
                if ctx.failed(r):
                    B._exc(ctx, r, f"{label} call {rep}", **det)
                    continue
                if judge_pdag(ctx, f"{label} call {rep}", r, T, det):
                    later.append((f"{label} call {rep}", "pdag", r, T, det))
            ctx.note("seq-s2p-twice")
            continue
        judge = {"skeleton": judge_skeleton, "pdag": judge_pdag, "dag": judge_dag}[kind]
        ok = judge(ctx, label, r, T, det)
        ctx.note("seq-steps")
        if st["mutate"]:
            _mutate(r)
            ctx.note("seq-result-mutated")
        elif ok:
            later.append((label, kind, r, T, det))
    for (label, kind, r, T, det) in later:
        judge = {"skeleton": judge_skeleton, "pdag": judge_pdag, "dag": judge_dag}[kind]
        if not judge(ctx, label + " (re-read after later calls)", r, T, det):
            ctx.note("seq-result-changed-later")
    ctx.note("ci-questions", sum(T.ci.asked for T in truths))


# ------------------------------------------------------------------ pseq runner
def run_pseq(spec, ctx):
    from pgmpy.base import PDAG
    from rv.props import C12 as B
    nt = False
    for it in spec["items"]:
        nodes = [nm(x) for x in it["nodes"]]
        D = [(nm(u), nm(v)) for u, v in it["dir"]]
        U = [(nm(u), nm(v)) for u, v in it["und"]]
        Dset = list(dict.fromkeys(D))
        Uset = list({frozenset(e): e for e in U}.values())
        det = dict(nodes=nodes, directed=D, undirected=U, how=it["how"])
        if len(Uset) <= 10:
            ext = B.extendable_bruteforce(nodes, Dset, Uset)
        else:
            ext = B.extendable_dt(nodes, Dset, Uset)
        if not ext:
            ctx.note("pdag-not-extendable")
            continue
        ctx.note("pseq-extendable")
        if it["dup"]:
            ctx.feature("pseq:duplicate-edges")
        ctx.feature(f"pseq:{it['how']}")
        if any(isinstance(v, tuple) for v in nodes):
            ctx.feature("pseq:tuple-names")
        if 0 in nodes or "" in nodes:
            ctx.feature("pseq:falsy-names")

        def build():
            if it["ctor"] == "pos":
                p = PDAG(list(D), list(U))
            elif it["ctor"] == "default+add":
                p = PDAG()
            else:
                p = PDAG(directed_ebunch=list(D), undirected_ebunch=list(U))
            p.add_nodes_from(nodes)
            return p

        p = ctx.call(build)
        if ctx.failed(p):
            B._exc(ctx, p, "pseq: PDAG constructor", **det)
            continue
        if U:
            nt = True

        def judged(label, r, nds=nodes):
            if ctx.failed(r):
                B._exc(ctx, r, label, **det)
                return False
            try:
                problems = todag_problems(r, nds, Dset, Uset)
            except Exception as e:
                ctx.violation("c12:malformed-result", f"{label}: cannot read to_dag result: {e!r}", **det)
                return False
            return ctx.expect(not problems, "c12:todag-wrong-extension",
                              f"{label}: to_dag on an extendable PDAG: " + "; ".join(problems) +
                              f"; result {_r(r.edges())}", **det)

        r1 = ctx.call(p.to_dag)
        judged("pseq: first to_dag", r1)
        if not ctx.failed(r1):                      # edit the returned DAG; the PDAG must not care
            try:
                for (u, v) in list(r1.edges()):
                    r1.add_edge(v, u)
                r1.add_node("__extra__")
                if it["edit"] == "clear":
                    r1.clear()
            except Exception:
                pass
        r2 = ctx.call(p.to_dag)
        judged("pseq: second to_dag on the same PDAG (first result edited)", r2)
        r3 = ctx.call(p.to_dag, required_edges=[])
        judged("pseq: to_dag(required_edges=[])", r3)
        c = ctx.call(p.copy)
        if ctx.failed(c):
            B._exc(ctx, c, "pseq: PDAG.copy", **det)
        else:
            try:
                cn = list(c.nodes())
            except Exception:
                cn = None
            if cn is not None:
                rc = ctx.call(c.to_dag)
                # the statement is about to_dag: judged against the nodes the copy itself has
                judged("pseq: copy().to_dag()", rc, nds=cn)
            try:                                     # edit the copy; the original must not care
                if it["edit"] == "clear":
                    c.clear()
                    c.directed_edges.clear()
                    c.undirected_edges.clear()
                elif it["edit"] == "remove_node" and cn:
                    c.remove_node(cn[0])
                elif it["edit"] == "add_cycle" and len(cn or []) >= 2:
                    c.add_edge(cn[0], cn[1])
                    c.add_edge(cn[1], cn[0])
                    c.directed_edges.add((cn[0], cn[1]))
                    c.directed_edges.add((cn[1], cn[0]))
                else:
                    c.directed_edges.clear()
                    c.undirected_edges.clear()
                    c.latents.add("__lat__")
            except Exception:
                pass
            r4 = ctx.call(p.to_dag)
            judged("pseq: to_dag of the original after its copy was edited", r4)
        ctx.note("pseq-todag-calls", 5)
    ctx.nontrivial = nt
