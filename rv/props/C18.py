"""C18 - independence reasoning is sound: I-equivalence, semi-graphoid closure, numeric
independence on joint tables, (minimal) I-maps.

Observe: DAG.is_iequivalent / get_immoralities; Independencies.closure / entails /
is_equivalent and IndependenceAssertion.__eq__ / __hash__; JointProbabilityDistribution.
check_independence / get_independencies / minimal_imap / is_imap; BayesianNetwork.is_imap.

Oracles (all written from the definitions, nothing below calls pgmpy to judge):
  * I-equivalence  <=> same skeleton and same (parent pair, CHILD) v-structures
                   <=> same set of d-separation triples (path-based); both are computed and
                       must agree with each other, otherwise the checker itself is wrong.
  * closure        = fix-point of symmetry / decomposition / weak union / contraction over
                     triples (A, B, C) of pairwise disjoint sets, A and B non-empty.
  * numeric CI     P(A,B,C) P(C) == P(A,C) P(B,C) cell by cell with a three-valued verdict
                     (holds <= 1e-13, clearly fails >= 1e-3 relative, else not judged).
  * I-map          every d-separation statement (sets!) of the returned graph holds in P.
"""
import itertools
import os

import numpy as np

from rv import gen, oracle

# --------------------------------------------------------------------------- plan
_SCALE = float(os.environ.get("RV_C18_SCALE", "1") or 1)      # smoke-testing the thorough tier with fewer random cases


def _sc(n):
    return max(10, int(n * _SCALE))


SEGMENTS = {
    "quick": [("ieq_small", 27), ("ieq4", 543), ("ieq_rand", _sc(400)), ("closure_exh", 193),
              ("closure_rand", _sc(220)), ("indep", _sc(600)), ("imap", _sc(400)),
              ("closure_seq", _sc(200)), ("jpd_seq", _sc(240))],
    "thorough": [("ieq_small", 27), ("ieq4", 543), ("ieq_rand", _sc(6000)), ("closure_exh", 193),
                 ("closure_rand", _sc(6000)), ("indep", _sc(6000)), ("imap", _sc(3000)),
                 ("closure_seq", _sc(3000)), ("jpd_seq", _sc(3000))],
}
PLAN = {
    "quick": {"cases": sum(c for _, c in SEGMENTS["quick"]), "hashseeds": 3, "shards": 5, "timeout": 420,
              "min_nontrivial": int(900 * min(1.0, _SCALE))},
    "thorough": {"cases": sum(c for _, c in SEGMENTS["thorough"]), "hashseeds": 8, "shards": 2, "timeout": 3000,
                 "min_nontrivial": int(9000 * min(1.0, _SCALE)), "exhaustive": False},
}
RULE = ("nine segments, case index -> segment. ieq_small: every ordered pair of DAGs on 1, 2, 3 labelled nodes "
        "(1 + 9 + 625, exhaustive); ieq4: one case per 4-node DAG G1 (543), G1 against all 543 (294 849 ordered pairs, "
        "exhaustive in both tiers); ieq_rand: random "
        "5-6 node DAG against copies, random re-orientations of its skeleton, covered / non-covered edge reversals, "
        "edge edits; closure_exh: every set of <= 2 assertions over a 4-variable universe (1541 sets in blocks of 8) "
        "with closure, 2-3 entails and 2 is_equivalent questions each; closure_rand: 1-5 random assertions over 4-5 "
        "(thorough: 4-6) variables; indep: joint tables over 3-4 (thorough 3-5) binary/ternary variables (BN-product, "
        "block-product, parity, context-specific, generic) x every pair x every conditioning set x every positive "
        "context, plus get_independencies; imap: such tables x every variable order for minimal_imap, plus is_imap in "
        "both directions; closure_seq: one or two Independencies objects built incrementally (constructor + 2-3 "
        "add_assertions batches, optional reduce()) interleaved with closure / entails / is_equivalent (live object as "
        "receiver and as argument), every answer judged against the reference closure of the assertions present at "
        "that moment, returned closure objects mutated and the source re-queried; jpd_seq: ONE "
        "JointProbabilityDistribution object serving a shuffled sequence of 20-30 check_independence (3 modes) / "
        "get_independencies / minimal_imap / is_imap / marginal_distribution / conditional_distribution(inplace=False) "
        "/ copy / to_factor calls, every answer judged against the original table. non-trivial: ieq = G1 has an edge and a same-skeleton partner other than itself; closure = "
        "some axiom adds a statement; indep = the table has both a holding and a failing statement; imap = the table "
        "has a dependency; closure_seq = >= 2 adds and some axiom fires; jpd_seq = >= 10 calls and both verdicts occur. "
        "distinct by digest of the whole spec")
ASSUMPTIONS = ["object histories: add_assertions is the only editing operation exercised on Independencies; "
               "JointProbabilityDistribution objects are only queried (inplace=False), never edited",
               "path-based d-separation and the (skeleton, v-structure with collider) key agree on every pair (asserted)",
               "reference semi-graphoid saturation written from the four axioms over disjoint triples",
               "numeric independence is judged only when it holds to 1e-13 or fails by >= 1e-3 relative; tables are "
               "built exactly factorised or with strong dependencies",
               "the array handed to JointProbabilityDistribution is the joint (C-order over the listed variables)"]
REACH = [
    "pgmpy.base.DAG:DAG.is_iequivalent",
    "pgmpy.base.DAG:DAG.get_immoralities",
    "pgmpy.independencies.Independencies:Independencies.add_assertions",
    "pgmpy.independencies.Independencies:Independencies.closure",
    "pgmpy.independencies.Independencies:Independencies.entails",
    "pgmpy.independencies.Independencies:Independencies.is_equivalent",
    "pgmpy.independencies.Independencies:IndependenceAssertion.__eq__",
    "pgmpy.independencies.Independencies:IndependenceAssertion.__hash__",
    "pgmpy.factors.discrete.JointProbabilityDistribution:JointProbabilityDistribution.check_independence",
    "pgmpy.factors.discrete.JointProbabilityDistribution:JointProbabilityDistribution.get_independencies",
    "pgmpy.factors.discrete.JointProbabilityDistribution:JointProbabilityDistribution.minimal_imap",
    "pgmpy.factors.discrete.JointProbabilityDistribution:JointProbabilityDistribution.is_imap",
    "pgmpy.models.BayesianNetwork:BayesianNetwork.is_imap",
]
REACH_REQUIRED = list(REACH)
MANIFEST = {
    "text": "I-equivalence answers equal the skeleton + v-structure (= d-separation) criterion on every ordered pair of "
            "DAGs on <= 4 nodes (exhaustive in the thorough tier) and on sampled 5-6 node pairs; closure / entails / "
            "is_equivalent equal a reference semi-graphoid saturation on every set of <= 2 assertions over 4 variables "
            "and on random larger sets; check_independence / get_independencies equal the numeric definition on "
            "factorised, parity, context-specific and generic tables; every graph returned by minimal_imap (all orders) "
            "encodes only independencies that hold; is_imap accepts the generating network and rejects non-I-maps.",
    "note": "trusted: rv.oracle.DSep (path-based), the reference saturation in this module, numpy sums.",
    "technique": "reference-model runtime monitoring over bounded-exhaustive and random workloads",
}


def segment_of(idx, tier):
    for name, cnt in SEGMENTS[tier]:
        if idx < cnt:
            return name, idx
        idx -= cnt
    raise IndexError(idx)


# ====================================================================== DAG enumeration
_DAGS = {}


def dags(n):
    """All DAGs on nodes 0..n-1 (edge tuples), their skeletons and same-skeleton groups."""
    if n not in _DAGS:
        lst = gen.all_dags(list(range(n)))
        sk = [oracle.skeleton(e) for e in lst]
        groups = {}
        for i, s in enumerate(sk):
            groups.setdefault(s, []).append(i)
        _DAGS[n] = (lst, sk, groups)
    return _DAGS[n]


_SIG = {}


def dsep_signature(nodes, edges):
    """frozenset of (x, y, Z) (x < y by position) that are d-separated, by path enumeration."""
    key = (tuple(nodes), tuple(sorted(map(tuple, edges), key=repr)))
    if key not in _SIG:
        ds = oracle.DSep(list(nodes), [tuple(e) for e in edges])
        out = set()
        for i, j in itertools.combinations(range(len(nodes)), 2):
            rest = [k for k in range(len(nodes)) if k not in (i, j)]
            for r in range(len(rest) + 1):
                for Z in itertools.combinations(rest, r):
                    if ds.dsep(nodes[i], nodes[j], [nodes[k] for k in Z]):
                        out.add((i, j, Z))
        if len(_SIG) > 40000:
            _SIG.clear()
        _SIG[key] = frozenset(out)
    return _SIG[key]


def pair_projection(nodes, edges):
    """v-structures with the collider dropped (what a parent-pair-only comparison sees)."""
    return frozenset(ab for (ab, c) in oracle.vstructures(nodes, edges))


LABELS = [["A", "B", "C", "D", "E", "F"], [0, 1, 2, 3, 4, 5], ["n10", "n2", "n33", "n4", "n5", "n06"],
          [3, 1, 4, 0, 5, 2]]


# ====================================================================== assertions / closure
def canon(A, B, C):
    a, b, c = tuple(sorted(A)), tuple(sorted(B)), tuple(sorted(C))
    return (a, b, c) if a <= b else (b, a, c)


def universe_assertions(names):
    """Every assertion (A, B, C): pairwise disjoint, A and B non-empty, modulo symmetry; sorted."""
    out = set()
    for assign in itertools.product((0, 1, 2, 3), repeat=len(names)):
        A = [v for v, k in zip(names, assign) if k == 1]
        B = [v for v, k in zip(names, assign) if k == 2]
        C = [v for v, k in zip(names, assign) if k == 3]
        if A and B:
            out.add(canon(A, B, C))
    return sorted(out)


def _proper_subsets(s):
    s = sorted(s)
    for r in range(1, len(s)):
        for c in itertools.combinations(s, r):
            yield frozenset(c)


def sg_closure(stmts, guard="exact"):
    """Semi-graphoid saturation of a set of canonical triples.
    guard="exact": contraction  X_|_W | Y u Z  &  X_|_Y | Z  =>  X_|_W u Y | Z   (the axiom).
    guard="proper-subsets": the same rule firing whenever Y and Z are disjoint PROPER subsets of the first
    statement's conditioning set - only used to recognise the known pgmpy defect, never to judge."""
    S = set()

    def add(A, B, C, new):
        if A and B and (A, B, C) not in S:
            S.add((A, B, C))
            S.add((B, A, C))           # symmetry
            new.append((A, B, C))
            new.append((B, A, C))

    frontier = []
    for (a, b, c) in stmts:
        add(frozenset(a), frozenset(b), frozenset(c), frontier)
    while frontier:
        new = []
        for (A, B, C) in frontier:
            if len(B) > 1:
                for W in _proper_subsets(B):
                    add(A, B - W, C, new)          # decomposition
                    add(A, B - W, C | W, new)      # weak union
        byX = {}
        for (A, B, C) in S:
            byX.setdefault(A, []).append((B, C))
        for X, lst in byX.items():
            for (W, YZ) in lst:
                for (Y, Z) in lst:
                    if guard == "exact":
                        fire = (Y | Z) == YZ and not (Y & Z)
                    else:
                        fire = Y < YZ and Z < YZ and not (Y & Z)
                    if fire:
                        add(X, W | Y, Z, new)      # contraction
        frontier = new
    return {canon(A, B, C) for (A, B, C) in S}


def rand_assertion(rng, names, max_vars=None):
    n = len(names)
    k = rng.randint(2, min(n, max_vars or n))
    vs = rng.sample(names, k)
    while True:
        assign = [rng.choice((1, 2, 3)) if rng.random() < 0.75 else rng.choice((1, 2)) for _ in vs]
        if 1 in assign and 2 in assign:
            break
    A = [v for v, a in zip(vs, assign) if a == 1]
    B = [v for v, a in zip(vs, assign) if a == 2]
    C = [v for v, a in zip(vs, assign) if a == 3]
    return canon(A, B, C)


def closure_item(rng, names, S, n_ent=3, max_vars=None, n_eq=2):
    """S plus entailment / equivalence questions chosen with the help of the reference closure."""
    S = [tuple(map(tuple, s)) for s in S]
    R = sorted(sg_closure(S))
    ents, eqs = [], []
    if R:
        ents.append(rng.sample(R, rng.randint(1, min(3, len(R)))))
        derived = [r for r in R if r not in S]
        if derived:
            ents.append([rng.choice(derived)])
    ents.append([rand_assertion(rng, names, max_vars)])
    if n_ent > 3:
        ents.append([rand_assertion(rng, names, max_vars) for _ in range(2)])
    if n_ent > 2:
        ents.append([])
    ents = ents[:max(2, n_ent)]
    # equivalence partner 1: chain-rule rewrite of one assertion (needs contraction to come back)
    splittable = [s for s in S if len(s[1]) > 1 or len(s[0]) > 1]
    if splittable:
        s = rng.choice(splittable)
        A, B, C = s
        if len(B) < 2:
            A, B = B, A
        y = rng.choice(B)
        rest = [b for b in B if b != y]
        T = [t for t in S if t != s] + [canon(A, rest, C), canon(A, [y], list(C) + rest)]
    elif R:
        T = list(S) + [rng.choice(R)]
    else:
        T = list(S)
    eqs.append(T)
    # equivalence partner 2: an edit of S
    T2 = list(S)
    mode = rng.random()
    if T2 and mode < 0.4:
        T2[rng.randrange(len(T2))] = rand_assertion(rng, names, max_vars)
    elif T2 and mode < 0.6:
        T2.pop(rng.randrange(len(T2)))
    elif mode < 0.8 and R:
        T2 = rng.sample(R, rng.randint(1, min(4, len(R))))
    else:
        T2.append(rand_assertion(rng, names, max_vars))
    eqs.append(T2)
    eqs = eqs[:n_eq]
    return {"S": [list(map(list, s)) for s in S],
            "ent": [[list(map(list, t)) for t in T] for T in ents],
            "eq": [[list(map(list, t)) for t in T] for T in eqs]}


# ====================================================================== joint tables
def _norm(A):
    A = np.asarray(A, dtype=float)
    return A / A.sum()


def _rand_table(rng, shape, zeros=False):
    size = int(np.prod(shape)) if shape else 1
    flat = [rng.choice(gen.GRID) * (0.5 + rng.random()) for _ in range(size)]
    if zeros:
        for i in rng.sample(range(size), rng.randint(1, max(1, size // 3))):
            flat[i] = 0.0
        if sum(flat) == 0:
            flat[0] = 1.0
    return _norm(np.array(flat).reshape(shape))


def rand_joint(rng, n, flavor=None):
    """(names, card list, J ndarray, flavor, bn-spec or None)."""
    names = rng.choice([["a", "b", "c", "d", "e"], ["x1", "x2", "x3", "x4", "x5"],
                        ["diff", "intel", "grade", "sat", "letter"]])[:n]
    names = list(names)
    if flavor is None:
        flavor = rng.choice(["bn", "bn", "bn", "product", "parity", "context", "generic", "bn_zero", "uniform_mix"])
    bn = None
    if flavor in ("bn", "bn_zero"):
        bn = gen.rand_bn_spec(rng, n=n, cards=(2, 2, 3), kind="id", names=names, zeros=(flavor == "bn_zero"),
                              max_parents=3, min_card=2)
        nodes, J = oracle.joint_table(bn)
        card = [bn["card"][v] for v in names]
    elif flavor == "product":
        card = [rng.choice((2, 2, 3)) for _ in names]
        order = list(range(n))
        rng.shuffle(order)
        cut = rng.randint(1, n - 1)
        groups = [sorted(order[:cut]), sorted(order[cut:])]
        if len(groups[1]) >= 2 and rng.random() < 0.4:
            g = groups.pop(1)
            groups += [g[:1], g[1:]]
        J = np.ones([1] * n)
        for g in groups:
            T = _rand_table(rng, [card[i] for i in g], zeros=rng.random() < 0.2)
            shp = [card[i] if i in g else 1 for i in range(n)]
            J = J * T.reshape(shp)
    elif flavor == "parity":
        # last variable = (sum of k >= 2 earlier ones) mod r, possibly through a noisy channel
        r = rng.choice((2, 2, 3))
        k = rng.randint(2, n - 1)
        card = [r] * k + [rng.choice((2, 3)) for _ in range(n - 1 - k)] + [r]
        marg = []
        for i in range(n - 1):
            marg.append(np.ones(card[i]) / card[i] if (i < k and rng.random() < 0.8) else _rand_table(rng, [card[i]]))
        eps = rng.choice((0.0, 0.0, 0.1, 0.25))
        J = np.zeros(card)
        for idx in itertools.product(*[range(c) for c in card[:-1]]):
            p = 1.0
            for i, s in enumerate(idx):
                p *= marg[i][s]
            t = sum(idx[:k]) % r
            for s in range(r):
                J[idx + (s,)] = p * ((1 - eps) if s == t else eps / (r - 1))
        perm = list(range(n))
        rng.shuffle(perm)
        J = np.transpose(J, perm)
        card = [card[p] for p in perm]
    elif flavor == "context":
        # z = first variable: in context z=0 the next two are independent, otherwise dependent
        card = [rng.choice((2, 3))] + [rng.choice((2, 2, 3)) for _ in range(n - 1)]
        J = np.zeros(card)
        pz = _rand_table(rng, [card[0]])
        for z in range(card[0]):
            if z == 0:
                T = np.ones([1] * (n - 1))
                for i in range(1, n):
                    shp = [1] * (n - 1)
                    shp[i - 1] = card[i]
                    T = T * _rand_table(rng, [card[i]]).reshape(shp)
            else:
                T = _rand_table(rng, card[1:])
            J[z] = pz[z] * T
        perm = list(range(n))
        rng.shuffle(perm)
        J = np.transpose(J, perm)
        card = [card[p] for p in perm]
    elif flavor == "uniform_mix":
        card = [rng.choice((2, 3)) for _ in names]
        J = np.ones(card)
        if rng.random() < 0.7:                      # one dependent pair inside an otherwise uniform table
            i, j = rng.sample(range(n), 2)
            shp = [card[t] if t in (i, j) else 1 for t in range(n)]
            T = _rand_table(rng, [card[min(i, j)], card[max(i, j)]])
            J = J * T.reshape(shp)
    else:
        card = [rng.choice((2, 2, 3)) for _ in names]
        J = _rand_table(rng, card, zeros=rng.random() < 0.15)
    J = _norm(J)
    return names, [int(c) for c in card], J, flavor, bn


def ci_status(J, names, A, B, C):
    """'holds' / 'fails' / 'ambiguous' for A _|_ B | C in the table J (axes = names)."""
    A, B, C = set(A), set(B), set(C)
    ax = {v: i for i, v in enumerate(names)}
    others = tuple(ax[v] for v in names if v not in A | B | C)
    P = J.sum(axis=others, keepdims=True) if others else J
    aA = tuple(ax[v] for v in A)
    aB = tuple(ax[v] for v in B)
    Pc = P.sum(axis=aA + aB, keepdims=True)
    Pac = P.sum(axis=aB, keepdims=True)
    Pbc = P.sum(axis=aA, keepdims=True)
    lhs = P * Pc
    rhs = Pac * Pbc
    d = np.abs(lhs - rhs)
    if d.max() <= 1e-13:
        return "holds"
    m = np.maximum(np.abs(lhs), np.abs(rhs))
    if np.any((d >= 1e-3 * m) & (d >= 1e-7)):
        return "fails"
    return "ambiguous"


# ====================================================================== case generation
def gen_case(seed, idx, tier):
    seg, k = segment_of(idx, tier)
    rng = gen.rng_for("C18", seed, idx, seg)
    bs = rng.randrange(10 ** 6)
    if seg == "ieq_small":
        if k == 0:
            n, row = 1, 0
        elif k == 1:
            n, row = 2, None                 # all 9 ordered pairs in one case
        else:
            n, row = 3, k - 2
        return {"kind": "ieq", "n": n, "row": row, "partners": "all", "labels": rng.randrange(len(LABELS)),
                "build_seed": bs}
    if seg == "ieq4":
        return {"kind": "ieq", "n": 4, "row": k, "partners": "all", "labels": rng.randrange(len(LABELS)),
                "build_seed": bs}
    if seg == "ieq_rand":
        return gen_ieq_rand(rng, bs, tier)
    if seg == "closure_exh":
        names = ["a", "b", "c", "d"]
        U = universe_assertions(names)
        sets = [[]] + [[u] for u in U] + [list(p) for p in itertools.combinations(U, 2)]
        block = sets[k * 8:(k + 1) * 8]
        return {"kind": "closure", "universe": names, "exhaustive": True, "build_seed": bs,
                "items": [closure_item(rng, names, S, n_ent=4 if tier == "thorough" else 3) for S in block]}
    if seg == "closure_rand":
        if tier == "thorough":
            n = rng.choice((4, 4, 5, 5, 5, 6))
        else:
            n = rng.choice((4, 4, 4, 5, 5))
        names = list(rng.choice([["a", "b", "c", "d", "e", "f"], ["x1", "x2", "x3", "x4", "x5", "x6"],
                                 ["W", "X", "Y", "Z", "T", "U"]])[:n])
        max_vars = 4 if n == 6 else None
        m = rng.randint(1, 5 if n == 4 else (4 if n == 5 else 3))
        S = [rand_assertion(rng, names, max_vars) for _ in range(m)]
        if rng.random() < 0.35:
            # bait for contraction: X _|_ W | Y,(T)  and  X _|_ Y | Z
            vs = rng.sample(names, 4)
            X, W, Y, T = vs
            if rng.random() < 0.5:
                S += [canon([X], [W], [Y]), canon([X], [Y], [])]
            else:
                S += [canon([X], [W], [Y, T]), canon([X], [Y], [] if rng.random() < 0.6 else [T])]
        if rng.random() < 0.15 and S:
            S.append(rng.choice(S))                                   # duplicate statement
        return {"kind": "closure", "universe": names, "exhaustive": False, "build_seed": bs,
                "items": [closure_item(rng, names, S, n_ent=4 if n == 4 else 2, max_vars=max_vars,
                                       n_eq=2 if n == 4 else 1)]}
    if seg == "indep":
        n = rng.choice((3, 3, 4, 4, 4, 5)) if tier == "thorough" else rng.choice((3, 3, 4, 4))
        names, card, J, flavor, bn = rand_joint(rng, n)
        return {"kind": "indep", "vars": names, "card": card, "table": J.tolist(), "flavor": flavor, "build_seed": bs}
    if seg == "imap":
        n = rng.choice((3, 3, 4, 4, 4, 4, 4, 5)) if tier == "thorough" else rng.choice((3, 3, 4, 4, 4))
        flavor = rng.choice(["bn", "bn", "bn", "bn", "bn_zero", "parity", "parity", "product", "generic", "context",
                             "uniform_mix"])
        names, card, J, flavor, bn = rand_joint(rng, n, flavor)
        alt = None
        if bn is not None:
            alt = gen.rand_bn_spec(rng, n=n, cards=(2,), kind="id", names=names, zeros=False, max_parents=3, min_card=2)
            alt["card"] = dict(bn["card"])
            alt["states"] = dict(bn["states"])
            for v in alt["nodes"]:
                pa = alt["cpds"][v]["parents"]
                q = 1
                for p in pa:
                    q *= alt["card"][p]
                alt["cpds"][v] = {"parents": pa, "table": gen.rand_cpt(rng, alt["card"][v], q, zeros=False)}
        # JPD variable order differs from the BN node order
        perm = list(range(n))
        rng.shuffle(perm)
        return {"kind": "imap", "vars": [names[p] for p in perm], "card": [card[p] for p in perm],
                "table": np.transpose(J, perm).tolist(), "flavor": flavor, "bn": bn, "alt": alt, "build_seed": bs}
    if seg == "closure_seq":
        from rv.props import C18_seq
        return C18_seq.gen_closure_seq(rng, bs, tier)
    if seg == "jpd_seq":
        from rv.props import C18_seq
        return C18_seq.gen_jpd_seq(rng, bs, tier)
    raise ValueError(seg)


def _acyclic(nodes, edges):
    return oracle.is_acyclic(nodes, edges)


def gen_ieq_rand(rng, bs, tier):
    n = rng.choice((5, 5, 6))
    labels = list(rng.choice(LABELS)[:n]) if rng.random() < 0.8 else [f"v{i}" for i in range(n)]
    g1 = [tuple(e) for e in gen.rand_dag_edges(rng, labels, max_parents=4)]
    if not g1:
        g1 = [(labels[0], labels[1])]
    partners = [list(g1)]
    sk = [tuple(e) for e in g1]
    for _ in range(4 if tier == "quick" else 8):                 # random acyclic re-orientation of the skeleton
        order = labels[:]
        rng.shuffle(order)
        pos = {v: i for i, v in enumerate(order)}
        partners.append([(u, v) if pos[u] < pos[v] else (v, u) for (u, v) in sk])
    cur = list(g1)
    for _ in range(3):                                            # covered-edge reversals keep the class
        par = gen.parents_of(labels, cur)
        cov = [(u, v) for (u, v) in cur if set(par[v]) == set(par[u]) | {u}]
        if not cov:
            break
        u, v = rng.choice(cov)
        cur = [e for e in cur if e != (u, v)] + [(v, u)]
        partners.append(list(cur))
    for _ in range(2):                                            # arbitrary single reversal
        u, v = rng.choice(g1)
        cand = [e for e in g1 if e != (u, v)] + [(v, u)]
        if _acyclic(labels, cand):
            partners.append(cand)
    if len(g1) > 1:
        gone = rng.choice(g1)
        partners.append([e for e in g1 if e != gone])             # edge deleted
    a, b = rng.sample(labels, 2)
    if (a, b) not in g1 and (b, a) not in g1 and _acyclic(labels, g1 + [(a, b)]):
        partners.append(g1 + [(a, b)])                            # edge added
    partners.append([tuple(e) for e in gen.rand_dag_edges(rng, labels, max_parents=4)])
    return {"kind": "ieqr", "labels": labels, "g1": [list(e) for e in g1],
            "partners": [[list(e) for e in p] for p in partners], "build_seed": bs}


# ====================================================================== run: I-equivalence
def _mk_dag(nodes, edges, rng, cls_name):
    from pgmpy.base import DAG
    from pgmpy.models import BayesianNetwork
    cls = BayesianNetwork if cls_name == "bn" else DAG
    nodes, edges = list(nodes), [tuple(e) for e in edges]
    rng.shuffle(nodes)
    rng.shuffle(edges)
    g = cls()
    if rng.random() < 0.5:
        g.add_nodes_from(nodes)
        g.add_edges_from(edges)
    else:
        g.add_edges_from(edges)
        g.add_nodes_from(nodes)
    return g


def _ginfo(nodes, edges):
    """What the oracle knows about one DAG: (skeleton, v-structures with collider), d-separation triples,
    v-structure parent pairs without the collider."""
    return (oracle.mec_key(nodes, edges), dsep_signature(nodes, edges), pair_projection(nodes, edges))


_INFO = {}


def dag_info(n, i):
    """_ginfo of the i-th DAG on integer nodes 0..n-1 (labels are a bijection, so it transfers)."""
    if (n, i) not in _INFO:
        _INFO[(n, i)] = _ginfo(list(range(n)), dags(n)[0][i])
    return _INFO[(n, i)]


def _judge_ieq(ctx, G1, nodes, e1, e2, info1, info2, rng, answers, agg):
    G2 = _mk_dag(nodes, e2, rng, rng.choice(("dag", "dag", "bn")))
    r = ctx.call(G1.is_iequivalent, G2)
    (k1, s1, p1), (k2, s2, p2) = info1, info2
    want = k1 == k2
    if want != (s1 == s2):
        raise RuntimeError(f"oracle disagreement on {e1} vs {e2}: structure {want}, d-separation {s1 == s2}")
    if ctx.failed(r):
        agg.setdefault(f"c18:exception:{r.type}@{r.where}",
                       [f"is_iequivalent raised {r!r}", dict(g1=sorted(e1, key=repr), g2=sorted(e2, key=repr)), 0])[2] += 1
        answers.append("E")
        return
    got = bool(r)
    answers.append("1" if got else "0")
    if got == want:
        ctx.ok()
        return
    key = "c18:wrong-iequivalence"
    if got and not want and k1[0] == k2[0] and p1 == p2:
        # same skeleton, same parent pairs, but some pair collides at a different (or a further) child:
        # exactly what a comparison of immoralities without the collider cannot see
        key = "c18:ieq-collider-dropped"
    v1, v2 = oracle.vstructures(nodes, e1), oracle.vstructures(nodes, e2)
    what = (f"is_iequivalent -> {got}, definition says {want} (v-structures {sorted(map(_vs, v1))} vs "
            f"{sorted(map(_vs, v2))})")
    agg.setdefault(key, [what, dict(g1=sorted(e1, key=repr), g2=sorted(e2, key=repr)), 0])[2] += 1


def _vs(v):
    ab, c = v
    a, b = sorted(ab, key=repr)
    return f"{a}->{c}<-{b}"


def _flush(ctx, agg):
    for key, (what, detail, cnt) in agg.items():
        ctx.violation(key, f"{what} [{cnt} such observation(s) in this case]", **detail)


def _check_immoralities(ctx, G, nodes, edges):
    r = ctx.call(G.get_immoralities)
    if ctx.failed(r):
        return ctx.violation(f"c18:exception:{r.type}@{r.where}", f"get_immoralities raised {r!r}", edges=edges)
    try:
        if isinstance(r, dict):
            got = {frozenset(p) for ps in r.values() for p in ps}
        else:
            got = {frozenset(p) for p in r}
    except Exception as e:
        return ctx.violation("c18:malformed-result", f"get_immoralities returned {r!r}: {e}")
    want = set(pair_projection(nodes, edges))
    ctx.expect(got == want, "c18:wrong-immoralities",
               f"get_immoralities parent pairs {sorted(map(sorted, got))} != unshielded collider parent pairs "
               f"{sorted(map(sorted, want))}", edges=sorted(edges, key=repr))


def run_ieq(spec, ctx):
    import random
    rng = random.Random(spec["build_seed"])
    n = spec["n"]
    lst, sk, groups = dags(n)
    labels = LABELS[spec["labels"]][:n]

    def lab(edges):
        return [(labels[u], labels[v]) for (u, v) in edges]

    rows = range(len(lst)) if spec["row"] is None else [spec["row"]]
    answers, agg = [], {}
    nontrivial = False
    for row in rows:
        e1 = lab(lst[row])
        G1 = _mk_dag(labels, e1, rng, rng.choice(("dag", "dag", "bn")))
        _check_immoralities(ctx, G1, labels, e1)
        partners = range(len(lst)) if spec["partners"] == "all" else spec["partners"]
        for p in partners:
            _judge_ieq(ctx, G1, labels, e1, lab(lst[p]), dag_info(n, row), dag_info(n, p), rng, answers, agg)
        if lst[row] and len(groups[sk[row]]) > 1:
            nontrivial = True
    _flush(ctx, agg)
    ctx.nontrivial = nontrivial
    ctx.feature(f"ieq:n{n}")
    ctx.xcell["ieq"] = "".join(answers)


def run_ieqr(spec, ctx):
    import random
    rng = random.Random(spec["build_seed"])
    labels = spec["labels"]
    e1 = [tuple(e) for e in spec["g1"]]
    G1 = _mk_dag(labels, e1, rng, rng.choice(("dag", "bn")))
    _check_immoralities(ctx, G1, labels, e1)
    answers, agg = [], {}
    info1 = _ginfo(labels, e1)
    for p in spec["partners"]:
        e2 = [tuple(e) for e in p]
        _judge_ieq(ctx, G1, labels, e1, e2, info1, _ginfo(labels, e2), rng, answers, agg)
    _flush(ctx, agg)
    ctx.nontrivial = len(e1) >= 2
    ctx.feature(f"ieq:n{len(labels)}")
    ctx.xcell["ieq"] = "".join(answers)


# ====================================================================== run: closure
def _build_ind(stmts, rng):
    from pgmpy.independencies import IndependenceAssertion, Independencies
    args = []
    for (A, B, C) in stmts:
        A, B, C = list(A), list(B), list(C)
        for E in (A, B, C):
            rng.shuffle(E)
        if rng.random() < 0.5:
            A, B = B, A
        bare = rng.random() < 0.4

        def ev(E):
            if len(E) == 1 and bare:
                return E[0]
            return tuple(E) if rng.random() < 0.3 else list(E)

        form = rng.choice(("list", "tuple", "obj", "short"))
        if form == "obj":
            args.append(IndependenceAssertion(ev(A), ev(B), ev(C)))
        elif form == "short" and not C:
            args.append([ev(A), ev(B)])
        elif form == "tuple":
            args.append((ev(A), ev(B), ev(C)))
        else:
            args.append([ev(A), ev(B), ev(C)])
    return Independencies(*args)


def _read_ind(ind):
    out = set()
    for a in ind.get_assertions():
        out.add(canon(a.event1, a.event2, a.event3))
    return out


def _fmt(t):
    a, b, c = t
    s = f"{','.join(a)} _|_ {','.join(b)}"
    return s + (f" | {','.join(c)}" if c else "")


def _tt(L):
    return [tuple(map(tuple, s)) for s in L]


def run_closure(spec, ctx):
    import random
    from pgmpy.independencies import IndependenceAssertion
    rng = random.Random(spec["build_seed"])
    nontrivial = False
    digest = []
    for item in spec["items"]:
        S = _tt(item["S"])
        R = sg_closure(S)
        M = None                                    # defect model, computed only when needed

        def model(T=None):
            return sg_closure(S if T is None else T, guard="proper-subsets")

        if len(R) > len({canon(*s) for s in S}):
            nontrivial = True
        sdesc = [_fmt(s) for s in S]
        # ---- closure
        indS = ctx.call(_build_ind, S, rng)
        if ctx.failed(indS):
            ctx.violation(f"c18:exception:{indS.type}@{indS.where}", f"Independencies(...) raised {indS!r}", S=sdesc)
            continue
        r = ctx.call(indS.closure)
        if ctx.failed(r):
            ctx.violation(f"c18:exception:{r.type}@{r.where}", f"closure raised {r!r}", S=sdesc)
        else:
            try:
                P = _read_ind(r)
            except Exception as e:
                ctx.violation("c18:malformed-result", f"cannot read closure: {type(e).__name__}: {e}", S=sdesc)
                P = None
            if P is not None:
                digest.append(sorted(P))
                if P == R:
                    ctx.ok()
                else:
                    M = model()
                    extra, missing = sorted(P - R), sorted(R - P)
                    key = "c18:closure-contraction-guard" if (P == M and M != R) else "c18:wrong-closure"
                    ctx.violation(key, f"closure of {{{'; '.join(sdesc)}}}: "
                                  f"{len(extra)} statement(s) not derivable by the semi-graphoid axioms "
                                  f"{[_fmt(t) for t in extra[:4]]}, {len(missing)} derivable statement(s) absent "
                                  f"{[_fmt(t) for t in missing[:4]]}", S=sdesc)
        # ---- entails
        for T in item["ent"]:
            T = _tt(T)
            want = all(canon(*t) in R for t in T)
            indT = ctx.call(_build_ind, T, rng)
            if ctx.failed(indT):
                ctx.violation(f"c18:exception:{indT.type}@{indT.where}", f"Independencies(...) raised {indT!r}")
                continue
            r = ctx.call(indS.entails, indT)
            tdesc = [_fmt(t) for t in T]
            if ctx.failed(r):
                ctx.violation(f"c18:exception:{r.type}@{r.where}", f"entails raised {r!r}", S=sdesc, T=tdesc)
                continue
            got = bool(r)
            digest.append(got)
            if got == want:
                ctx.ok()
                continue
            M = M if M is not None else model()
            key = "c18:closure-contraction-guard" if got == all(canon(*t) in M for t in T) else "c18:wrong-entails"
            ctx.violation(key, f"{{{'; '.join(sdesc)}}}.entails({{{'; '.join(tdesc)}}}) -> {got}, the semi-graphoid "
                          f"closure says {want}", S=sdesc, T=tdesc)
        # ---- is_equivalent
        for T in item["eq"]:
            T = _tt(T)
            RT = sg_closure(T)
            want = RT == R
            indT = ctx.call(_build_ind, T, rng)
            if ctx.failed(indT):
                ctx.violation(f"c18:exception:{indT.type}@{indT.where}", f"Independencies(...) raised {indT!r}")
                continue
            r = ctx.call(indS.is_equivalent, indT)
            tdesc = [_fmt(t) for t in T]
            if ctx.failed(r):
                ctx.violation(f"c18:exception:{r.type}@{r.where}", f"is_equivalent raised {r!r}", S=sdesc, T=tdesc)
                continue
            got = bool(r)
            digest.append(got)
            if got == want:
                ctx.ok()
                continue
            M = M if M is not None else model()
            MT = model(T)
            pred = all(canon(*t) in M for t in T) and all(canon(*s) in MT for s in S)
            key = "c18:closure-contraction-guard" if got == pred else "c18:wrong-is-equivalent"
            ctx.violation(key, f"{{{'; '.join(sdesc)}}}.is_equivalent({{{'; '.join(tdesc)}}}) -> {got}, closures are "
                          f"{'equal' if want else 'different'}", S=sdesc, T=tdesc)
        # ---- assertion equality / hashing up to symmetry
        pool = list(dict.fromkeys([canon(*s) for s in S] + [canon(*t) for TT in item["ent"] for t in _tt(TT)]))[:6]
        objs = []
        for (A, B, C) in pool:
            for (E1, E2) in ((A, B), (B, A)):
                e1, e2, e3 = list(E1), list(E2), list(C)
                rng.shuffle(e1), rng.shuffle(e2), rng.shuffle(e3)
                o = ctx.call(IndependenceAssertion, e1, e2, e3)
                if not ctx.failed(o):
                    objs.append(((A, B, C), o))
            if C:                                           # conditioning set swapped with an event: different statement
                o = ctx.call(IndependenceAssertion, list(A), list(C), list(B))
                if not ctx.failed(o):
                    objs.append((canon(A, C, B), o))
        for (c1, o1), (c2, o2) in itertools.combinations(objs, 2):
            eq = ctx.call(lambda: (o1 == o2, o1 != o2, hash(o1) == hash(o2)))
            if ctx.failed(eq):
                ctx.violation(f"c18:exception:{eq.type}@{eq.where}", f"assertion ==/hash raised {eq!r}")
                continue
            same = c1 == c2
            ctx.expect(bool(eq[0]) == same and bool(eq[1]) != same, "c18:assertion-eq",
                       f"({_fmt(c1)}) == ({_fmt(c2)}) -> {eq[0]}, != -> {eq[1]}; equal up to symmetry: {same}")
            if same:
                ctx.expect(eq[2], "c18:assertion-hash", f"equal assertions {o1} and {o2} hash differently")
    ctx.nontrivial = nontrivial
    ctx.feature(f"closure:universe{len(spec['universe'])}")
    if spec.get("exhaustive"):
        ctx.feature("closure:exhaustive-block")
    ctx.xcell["closure"] = gen.spec_digest(digest)


# ====================================================================== run: numeric independence
def _jpd(spec):
    from pgmpy.factors.discrete import JointProbabilityDistribution
    J = np.array(spec["table"], dtype=float)
    return J, JointProbabilityDistribution(list(spec["vars"]), list(spec["card"]), J.ravel())


def _pairs_of(r):
    out = set()
    for a in r.get_assertions():
        if len(a.event1) != 1 or len(a.event2) != 1 or a.event3:
            raise ValueError(f"unexpected assertion {a}")
        out.add(frozenset(a.event1 | a.event2))
    return out


def run_indep(spec, ctx):
    import random
    rng = random.Random(spec["build_seed"])
    names, card = spec["vars"], spec["card"]
    J, jpd = _jpd(spec)
    n = len(names)
    seen = {"holds": 0, "fails": 0, "ambiguous": 0}
    answers = []

    def judge(label, r, st, **detail):
        if ctx.failed(r):
            answers.append("E")
            return ctx.violation(f"c18:exception:{r.type}@{r.where}", f"{label} raised {r!r}", **detail)
        got = bool(r)
        answers.append("1" if got else "0")
        seen[st] += 1
        if st == "ambiguous":
            return ctx.note("indep:not-judged-near-tolerance")
        ctx.expect(got == (st == "holds"), "c18:wrong-independence-verdict",
                   f"{label} -> {got} but the independence {st} in the table", flavor=spec["flavor"], **detail)

    for x, y in itertools.combinations(names, 2):
        rest = [v for v in names if v not in (x, y)]
        for r_ in range(len(rest) + 1):
            for Z in itertools.combinations(rest, r_):
                a, b = (x, y) if rng.random() < 0.5 else (y, x)
                Zl = list(Z)
                rng.shuffle(Zl)
                st = ci_status(J, names, {x}, {y}, set(Z))
                if not Z:
                    judge(f"check_independence([{a}],[{b}])", ctx.call(jpd.check_independence, [a], [b]), st)
                    # an empty conditioning set given explicitly
                    if rng.random() < 0.3:
                        judge(f"check_independence([{a}],[{b}],[],True)",
                              ctx.call(jpd.check_independence, [a], [b], [], True), st)
                    continue
                ev3 = tuple(Zl) if rng.random() < 0.4 else Zl
                judge(f"check_independence([{a}],[{b}],{list(Zl)},condition_random_variable=True)",
                      ctx.call(jpd.check_independence, [a], [b], ev3, True), st)
                # context-specific: condition on values
                axes = [names.index(z) for z in Zl]
                ctxs = list(itertools.product(*[range(card[i]) for i in axes]))
                if len(ctxs) > 4:
                    ctxs = rng.sample(ctxs, 4)
                for vals in ctxs:
                    sl = [slice(None)] * n
                    for i, s in zip(axes, vals):
                        sl[i] = s
                    Jc = J[tuple(sl)]
                    if Jc.sum() < 1e-6:
                        continue
                    keep = [v for v in names if v not in Zl]
                    stc = ci_status(Jc / Jc.sum(), keep, {x}, {y}, set())
                    ev = [(z, int(s)) for z, s in zip(Zl, vals)]
                    judge(f"check_independence([{a}],[{b}],{ev})", ctx.call(jpd.check_independence, [a], [b], ev), stc)
    # get_independencies: marginal and in one context
    conds = [None]
    z = rng.choice(names)
    for s in range(card[names.index(z)]):
        conds.append([(z, s)])
    for cond in conds:
        if cond is None:
            Jc, keep = J, list(names)
        else:
            i = names.index(cond[0][0])
            sl = [slice(None)] * n
            sl[i] = cond[0][1]
            Jc = J[tuple(sl)]
            if Jc.sum() < 1e-6:
                continue
            Jc, keep = Jc / Jc.sum(), [v for v in names if v != cond[0][0]]
        r = ctx.call(jpd.get_independencies, cond) if cond else ctx.call(jpd.get_independencies)
        label = f"get_independencies({cond})"
        if ctx.failed(r):
            ctx.violation(f"c18:exception:{r.type}@{r.where}", f"{label} raised {r!r}")
            continue
        try:
            got = _pairs_of(r)
        except Exception as e:
            ctx.violation("c18:malformed-result", f"{label}: {type(e).__name__}: {e}")
            continue
        for u, v in itertools.combinations(keep, 2):
            st = ci_status(Jc, keep, {u}, {v}, set())
            seen[st] += 1
            if st == "ambiguous":
                ctx.note("indep:not-judged-near-tolerance")
                continue
            ctx.expect((frozenset((u, v)) in got) == (st == "holds"), "c18:wrong-independence-list",
                       f"{label}: pair ({u},{v}) {'listed' if frozenset((u, v)) in got else 'not listed'} but the "
                       f"independence {st}", flavor=spec["flavor"])
        extra = [sorted(p) for p in got if not p <= set(keep)]
        ctx.expect(not extra, "c18:wrong-independence-list", f"{label} lists pairs outside the remaining scope: {extra}")
    ctx.nontrivial = seen["holds"] > 0 and seen["fails"] > 0
    ctx.feature(f"table:{spec['flavor']}")
    ctx.feature(f"indep:n{n}")
    ctx.xcell["indep"] = "".join(answers)


# ====================================================================== run: I-maps
def _all_triples(names):
    """Every (A, B, C) of pairwise disjoint sets with A, B non-empty, modulo symmetry."""
    out = set()
    for assign in itertools.product((0, 1, 2, 3), repeat=len(names)):
        A = frozenset(v for v, k in zip(names, assign) if k == 1)
        B = frozenset(v for v, k in zip(names, assign) if k == 2)
        C = frozenset(v for v, k in zip(names, assign) if k == 3)
        if A and B and (B, A, C) not in out:
            out.add((A, B, C))
    return sorted(out, key=lambda t: tuple(map(sorted, t)))


def _subsets(u, proper=True):
    u = list(u)
    for r in range(len(u) + (0 if proper else 1)):
        for c in itertools.combinations(u, r):
            yield c


def judge_minimal_imap(ctx, G, order, st, triples, agg, digest, flavor, label=None):
    """Judge one minimal_imap(order) result G: every d-separation statement (sets) of the returned graph must hold
    in the table (st = three-valued numeric oracle).  Violations are aggregated into agg[key]."""
    label = label or f"minimal_imap(order={order})"
    if ctx.failed(G):
        agg.setdefault(f"c18:exception:{G.type}@{G.where}", [f"{label} raised {G!r}", {}, 0])[2] += 1
        return
    try:
        edges = sorted((u, v) for (u, v) in G.edges())
        gnodes = list(G.nodes())
        if not set(gnodes) <= set(order) or not oracle.is_acyclic(order, edges):
            raise ValueError(f"nodes {gnodes}, edges {edges}")
    except Exception as e:
        agg.setdefault("c18:malformed-result", [f"{label}: {type(e).__name__}: {e}", {}, 0])[2] += 1
        return
    digest.append(edges)
    ds = oracle.DSep(order, edges)
    bad, unsure = [], 0
    for (A, B, C) in triples:
        if all(ds.dsep(a, b, C) for a in A for b in B):
            s = st(A, B, C)
            if s == "fails":
                bad.append((A, B, C))
            elif s == "ambiguous":
                unsure += 1
    if unsure:
        ctx.note("imap:statement-not-judged-near-tolerance", unsure)
    par = gen.parents_of(order, edges)
    if not bad:
        ctx.ok()
        # minimality is observed, not demanded (the statement only asks for soundness)
        removable = [(p, x) for x in order for p in par[x]
                     if st({x}, set(order[:order.index(x)]) - (set(par[x]) - {p}), set(par[x]) - {p}) == "holds"]
        if removable:
            ctx.note("imap:returned-imap-is-not-minimal")
        return
    # ---- classify: which nodes got a parent set that does not screen off their predecessors, and why
    classes = set()
    why = []
    for i, x in enumerate(order):
        u = order[:i]
        rest = set(u) - set(par[x])
        if not rest or st({x}, rest, set(par[x])) != "fails":
            continue
        set_q = [S for S in _subsets(u) if st({x}, set(u) - set(S), set(S)) == "holds"]
        pair_q = [S for S in _subsets(u) if all(st({x}, {y}, set(S)) == "holds" for y in set(u) - set(S))]
        predicted = set().union(*[set(S) for S in pair_q]) if pair_q else set()
        if set_q or set(par[x]) != predicted:
            classes.add("other")
        elif pair_q:
            classes.add("pairwise")
        else:
            classes.add("subset-loop")
        why.append(f"{x}: predecessors {u}, parents given {sorted(par[x])}")
    if not classes or "other" in classes:
        keys = ["c18:imap-false-independence"]
    else:
        keys = [{"subset-loop": "c18:imap-subset-loop", "pairwise": "c18:imap-pairwise-event-check"}[c]
                for c in sorted(classes)]
    A, B, C = bad[0]
    what = (f"{label} returned edges {edges}, which encode {len(bad)} independence statement(s) that fail in the "
            f"table, e.g. {sorted(A)} _|_ {sorted(B)} | {sorted(C)}; nodes with insufficient parents: {why}")
    for key in keys:
        agg.setdefault(key, [what, dict(flavor=flavor, order=order), 0])[2] += 1


def run_imap(spec, ctx):
    import random
    from pgmpy.factors.discrete import JointProbabilityDistribution
    from rv import build
    rng = random.Random(spec["build_seed"])
    names = spec["vars"]
    J, jpd = _jpd(spec)
    base = sorted(names)
    triples = _all_triples(base)
    cache = {}

    def st(A, B, C):
        k = (frozenset(A), frozenset(B), frozenset(C))
        if k not in cache:
            cache[k] = cache[(k[1], k[0], k[2])] = ci_status(J, names, k[0], k[1], k[2])
        return cache[k]

    dependent = any(st({x}, {y}, set()) == "fails" or any(st({x}, {y}, {z}) == "fails" for z in base if z not in (x, y))
                    for x, y in itertools.combinations(base, 2))
    agg = {}
    digest = []
    for order in itertools.permutations(base):
        order = list(order)
        arg = list(order) if rng.random() < 0.7 else tuple(order)
        G = ctx.call(jpd.minimal_imap, arg)
        judge_minimal_imap(ctx, G, order, st, triples, agg, digest, spec["flavor"])
    _flush(ctx, agg)

    # ---- is_imap in both directions
    bn = spec.get("bn")
    if bn is not None:
        for which, b in (("own", bn), ("alt", spec.get("alt"))):
            if b is None:
                continue
            model = ctx.call(build.bayesian_network, b, random.Random(spec["build_seed"] + 1))
            if ctx.failed(model):
                ctx.violation(f"c18:exception:{model.type}@{model.where}", f"building BN raised {model!r}")
                continue
            if which == "own":
                want = True
            else:
                dsb = oracle.DSep(b["nodes"], [tuple(e) for e in b["edges"]])
                broken = [t for t in triples if all(dsb.dsep(x, y, t[2]) for x in t[0] for y in t[1])
                          and st(*t) == "fails"]
                if not broken:
                    ctx.note("imap:alt-graph-is-imap-not-judged")
                    continue
                want = False
            for label, fn, arg in (("JointProbabilityDistribution.is_imap(model)", jpd.is_imap, model),
                                   ("BayesianNetwork.is_imap(JPD)", model.is_imap, jpd)):
                r = ctx.call(fn, arg)
                if ctx.failed(r):
                    ctx.violation(f"c18:exception:{r.type}@{r.where}", f"{label} raised {r!r}", which=which)
                    continue
                digest.append(bool(r))
                ctx.expect(bool(r) == want, "c18:wrong-is-imap",
                           f"{label} -> {bool(r)} for " + ("the network that generated the table" if want else
                           "a network whose graph encodes an independence that fails in the table"),
                           edges=b["edges"], which=which)
    ctx.nontrivial = dependent
    ctx.feature(f"table:{spec['flavor']}")
    ctx.feature(f"imap:n{len(names)}")
    ctx.xcell["imap"] = gen.spec_digest(digest)


# ====================================================================== dispatch
def run_case(spec, ctx):
    kind = spec["kind"]
    if kind == "ieq":
        return run_ieq(spec, ctx)
    if kind == "ieqr":
        return run_ieqr(spec, ctx)
    if kind == "closure":
        return run_closure(spec, ctx)
    if kind == "indep":
        return run_indep(spec, ctx)
    if kind == "imap":
        return run_imap(spec, ctx)
    if kind == "closure_seq":
        from rv.props import C18_seq
        return C18_seq.run_closure_seq(spec, ctx)
    if kind == "jpd_seq":
        from rv.props import C18_seq
        return C18_seq.run_jpd_seq(spec, ctx)
    raise ValueError(kind)
