"""C20 helper: sequences of operations on ONE GaussianDistribution / CanonicalDistribution object.

A chain is 2-4 (thorough 2-6) operations applied to one object: in-place (mostly) product / divide with
operands on the same, a permuted, a sub- or an enlarged scope, marginalize, reduce, normalize, copy.  The
oracle keeps the running (variables, mean, covariance) from the defining formulas.  After EVERY step
everything the object can say about its density is compared with that running state: mean, covariance,
precision_matrix, to_canonical_factor() (K, h, g, log-density at random points).  The observations are
made on `copy.deepcopy` snapshots (python-level copies, no pgmpy code), so that observing does not
itself fill or refresh the object's caches; whether the real object's precision cache is filled before
an operation (by reading precision_matrix / to_canonical_factor()) is part of the case.
"""
import copy
import math

import numpy as np


def _B():
    from rv.props import C20
    return C20


# ------------------------------------------------------------------------------ oracle
def _ext(vs, allv, K, h):
    n = len(allv)
    ix = [allv.index(v) for v in vs]
    Ke, he = np.zeros((n, n)), np.zeros(n)
    Ke[np.ix_(ix, ix)] = K
    he[ix] = h
    return Ke, he


def g_apply(st, step):
    """Running Gaussian state (vars, mu, S) after one step, from the defining formulas."""
    vs, mu, S = st
    op = step["op"]
    if op in ("product", "divide"):
        ov = step["vars"]
        m2, S2 = np.array(step["mean"], float), np.array(step["cov"], float)
        K1 = np.linalg.inv(S)
        K2 = np.linalg.inv(S2)
        allv = list(vs) + [v for v in ov if v not in vs]
        A, a = _ext(vs, allv, K1, K1 @ mu)
        B_, b = _ext(ov, allv, K2, K2 @ m2)
        sgn = 1.0 if op == "product" else -1.0
        K, h = A + sgn * B_, a + sgn * b
        Sn = np.linalg.inv(K)
        return allv, Sn @ h, (Sn + Sn.T) / 2
    if op == "marginalize":
        keep = [i for i, v in enumerate(vs) if v not in step["drop"]]
        return [vs[i] for i in keep], mu[keep], S[np.ix_(keep, keep)]
    if op == "reduce":
        names = [v for v, _ in step["values"]]
        ri = [vs.index(v) for v in names]
        keep = [i for i, v in enumerate(vs) if v not in names]
        x = np.array([float(x) for _, x in step["values"]])
        m, C, *_ = _B().conditional(mu, S, keep, ri, x[None, :])
        return [vs[i] for i in keep], m[0], C
    return vs, mu, S                                        # normalize, copy


def c_apply(st, step):
    """Running canonical state (vars, K, h, g): C1 * C2 = C(K1+K2, h1+h2, g1+g2) on the union scope."""
    vs, K, h, g = st
    if step["op"] != "product":
        return st
    ov = step["vars"]
    allv = list(vs) + [v for v in ov if v not in vs]
    A, a = _ext(vs, allv, K, h)
    B_, b = _ext(ov, allv, np.array(step["K"], float), np.array(step["h"], float))
    return allv, A + B_, a + b, g + float(step["g"])


# --------------------------------------------------------------------------- generators
def _operand_scope(rng, vs, pool, allow_enlarge):
    mode = rng.choice(["same", "perm", "sub", "sub"] + (["enlarge"] if allow_enlarge else []))
    if mode == "same":
        return mode, list(vs)
    if mode == "perm":
        o = list(vs)
        rng.shuffle(o)
        return mode, o
    if mode == "sub":
        return mode, rng.sample(vs, rng.randint(1, max(1, len(vs) - 1)))
    new = [x for x in pool if x not in vs]
    o = rng.sample(vs, rng.randint(1, len(vs))) + rng.sample(new, 1)
    rng.shuffle(o)
    return mode, o


def _touch(rng):
    return rng.choice(["none", "none", "precision", "precision", "canonical", "both"])


def gen_gchain(rng, tier):
    B = _B()
    n = rng.randint(2, 5)
    _, names = B._names(rng, n)
    pool = [x for x in B.STR_POOL + list(range(40, 60))]
    _, cov = B._pd_matrix(rng, n)
    mean = [rng.uniform(-5, 5) for _ in range(n)]
    st = (list(names), np.array(mean, float), np.array(cov, float))
    steps = []
    L = rng.randint(2, 6 if tier == "thorough" else 4)
    for _ in range(L):
        vs = st[0]
        ops = ["product", "product", "product", "divide", "divide", "normalize", "copy"]
        if len(vs) >= 2:
            ops += ["marginalize", "reduce"]
        op = rng.choice(ops)
        step = {"op": op, "touch": _touch(rng), "inplace": rng.random() < 0.8}
        if op == "product":
            mode, ov = _operand_scope(rng, vs, pool, allow_enlarge=len(vs) < 6 and rng.random() < 0.5)
            _, c2 = B._pd_matrix(rng, len(ov))
            step.update(mode=mode, vars=ov, mean=[rng.uniform(-5, 5) for _ in ov], cov=c2)
        elif op == "divide":
            # operand with a small precision, so that K1 - K2 stays positive definite (a Gaussian)
            mode, ov = _operand_scope(rng, vs, pool, allow_enlarge=False)
            lam_min = float(np.linalg.eigvalsh(np.linalg.inv(st[2]))[0])
            _, p = B._pd_matrix(rng, len(ov))
            P = np.linalg.inv(np.array(p, float))
            P = P / float(np.linalg.eigvalsh(P)[-1])
            K2 = rng.uniform(0.1, 0.6) * lam_min * P
            S2 = np.linalg.inv(K2)
            step.update(mode=mode, vars=ov, mean=[rng.uniform(-5, 5) for _ in ov], cov=((S2 + S2.T) / 2).tolist())
        elif op == "marginalize":
            step["drop"] = rng.sample(vs, rng.randint(1, len(vs) - 1))
        elif op == "reduce":
            names_r = rng.sample(vs, rng.randint(1, len(vs) - 1))
            step["values"] = [[v, rng.choice([0, 1, -2]) if rng.random() < 0.2 else rng.uniform(-8, 8)] for v in names_r]
        elif op == "copy":
            step["switch"] = rng.random() < 0.6
        steps.append(step)
        st = g_apply(st, step)
    return {"vars": names, "mean": mean, "cov": cov, "steps": steps, "touch0": _touch(rng)}


def gen_cchain(rng, tier):
    B = _B()
    n = rng.randint(1, 5)
    _, names = B._names(rng, n)
    pool = [x for x in B.STR_POOL + list(range(40, 60))]
    _, cov = B._pd_matrix(rng, n)
    mean = [rng.uniform(-5, 5) for _ in range(n)]
    steps = []
    vs = list(names)
    for _ in range(rng.randint(2, 5 if tier == "thorough" else 3)):
        op = rng.choice(["product", "product", "product", "copy"])
        step = {"op": op, "inplace": rng.random() < 0.8}
        if op == "product":
            mode, ov = _operand_scope(rng, vs, pool, allow_enlarge=len(vs) < 6)
            _, c2 = B._pd_matrix(rng, len(ov))
            K2 = np.linalg.inv(np.array(c2, float))
            step.update(mode=mode, vars=ov, K=((K2 + K2.T) / 2).tolist(), h=[rng.uniform(-4, 4) for _ in ov],
                        g=rng.uniform(-3, 3))
            vs = vs + [v for v in ov if v not in vs]
        else:
            step["switch"] = rng.random() < 0.6
        steps.append(step)
    return {"vars": names, "mean": mean, "cov": cov, "steps": steps, "from_gaussian": rng.random() < 0.6}


def gen_chain_case(rng, tier):
    k = 10 if tier == "thorough" else 8
    return {"gchains": [gen_gchain(rng, tier) for _ in range(k)],
            "cchains": [gen_cchain(rng, tier) for _ in range(3)],
            "pt_seed": rng.randrange(2 ** 32)}


# ----------------------------------------------------------------------------- observers
def check_canonical(ctx, phi, vs, mu, S, nr, label, npts=8):
    """phi must be the canonical form of N(mu, S) over vs: K, h, g by the formulas, and the same log-density."""
    B = _B()
    n = len(vs)
    try:
        pv = list(phi.variables)
        K = np.asarray(phi.K, float)
        h = np.asarray(phi.h, float).reshape(-1)
        g = float(phi.g)
        if sorted(map(repr, pv)) != sorted(map(repr, vs)) or K.shape != (n, n) or h.shape != (n,):
            raise ValueError(f"variables {pv!r} (expected {list(vs)!r}), K {K.shape}, h {h.shape}")
    except Exception as e:
        ctx.violation("c20:malformed-result", f"{label}: to_canonical_factor: {type(e).__name__}: {e}")
        return False
    p = [list(vs).index(v) for v in pv]
    mu_p, S_p = np.asarray(mu)[p], np.asarray(S)[np.ix_(p, p)]
    wK = np.linalg.inv(S_p)
    wh = wK @ mu_p
    wg = float(-0.5 * float(mu_p @ wh) - 0.5 * (n * math.log(2 * math.pi) + np.linalg.slogdet(S_p)[1]))
    ks = float(np.abs(wK).max())
    ok = ctx.expect(B.close(K, wK, rtol=1e-6, atol=1e-6 * ks), "c20:wrong-canonical-K",
                    f"{label}: to_canonical_factor().K is {B._r(K)}, inverse of the covariance is {B._r(wK)}")
    ok &= ctx.expect(B.close(h, wh, rtol=1e-6, atol=1e-6 * (1 + float(np.abs(wh).max()))), "c20:wrong-canonical-h",
                     f"{label}: to_canonical_factor().h is {B._r(h)}, Sigma^-1 mu is {B._r(wh)}")
    ok &= ctx.expect(abs(g - wg) <= 1e-6 * (1 + abs(wg)), "c20:wrong-canonical-g",
                     f"{label}: to_canonical_factor().g is {g!r}, the defining formula gives {wg!r}")
    Lc = np.linalg.cholesky(S_p)
    P = mu_p + (nr.normal(size=(npts, n)) * nr.choice([0.5, 2.0, 6.0], size=(npts, 1))) @ Lc.T
    lw = B.gauss_logpdf(mu_p, S_p, P)
    quad = -0.5 * np.einsum("ij,jk,ik->i", P, K, P)
    lin = P @ h
    tol = 1e-6 * (1 + np.abs(quad) + np.abs(lin) + abs(g))
    ok &= ctx.expect(bool(np.all(np.abs(quad + lin + g - lw) <= tol)), "c20:canonical-density-differs",
                     f"{label}: canonical log-density {B._r((quad + lin + g)[:4])}... differs from the Gaussian's "
                     f"{B._r(lw[:4])}...")
    return bool(ok)


def observe_gauss(ctx, obj, st, label, key, nr):
    """Everything observable of `obj` against the running oracle state.  False if mean/covariance differ."""
    B = _B()
    vs, mu, S = st
    snap = copy.deepcopy(obj)
    if not B.cmp_gauss(ctx, label, snap, vs, mu, S, key=key):
        return False
    gv = list(snap.variables)
    p = [list(vs).index(v) for v in gv]
    wP = np.linalg.inv(np.asarray(S)[np.ix_(p, p)])
    P = ctx.call(lambda: snap.precision_matrix)
    if ctx.failed(P):
        ctx.violation(f"c20:exception:{P.type}@{P.where}", f"{label}: precision_matrix raised {P!r}")
    else:
        ctx.expect(B.close(P, wP, rtol=1e-6, atol=1e-6 * float(np.abs(wP).max())), "c20:stale-precision",
                   f"{label}: precision_matrix is {B._r(P)}, inverse of the (correct) covariance is {B._r(wP)}")
    snap2 = copy.deepcopy(obj)                              # cache state as in the real object
    phi = ctx.call(snap2.to_canonical_factor)
    if ctx.failed(phi):
        ctx.violation(f"c20:exception:{phi.type}@{phi.where}", f"{label}: to_canonical_factor raised {phi!r}")
    else:
        check_canonical(ctx, phi, vs, mu, S, nr, label)
    return True


def _do_touch(ctx, obj, how):
    if how in ("precision", "both"):
        ctx.call(lambda: obj.precision_matrix)
    if how in ("canonical", "both"):
        ctx.call(obj.to_canonical_factor)


def _describe(step):
    op = step["op"]
    if op in ("product", "divide"):
        return f"{op}(other over {step['vars']!r} [{step['mode']} scope], inplace={step['inplace']})"
    if op == "marginalize":
        return f"marginalize({step['drop']!r}, inplace={step['inplace']})"
    if op == "reduce":
        return f"reduce({[tuple(v) for v in step['values']]!r}, inplace={step['inplace']})"
    if op == "normalize":
        return f"normalize(inplace={step['inplace']})"
    return "copy()" + (" [continue on the copy]" if step.get("switch") else "")


KEYS = {"product": "c20:wrong-product", "divide": "c20:wrong-divide", "marginalize": "c20:wrong-marginal",
        "reduce": "c20:wrong-reduce", "normalize": "c20:wrong-normalize", "copy": "c20:wrong-copy"}


def run_gchain(ctx, ch, nr):
    B = _B()
    obj = B.build_gauss(ch["vars"], ch["mean"], ch["cov"])
    st = (list(ch["vars"]), np.array(ch["mean"], float), np.array(ch["cov"], float))
    hist = []
    _do_touch(ctx, obj, ch["touch0"])
    for i, step in enumerate(ch["steps"]):
        op = step["op"]
        hist.append(_describe(step))
        label = "one object, after " + " ; ".join(hist)
        _do_touch(ctx, obj, step["touch"])
        if step["touch"] != "none":
            ctx.feature("chain:cache-filled-before-op")
        if op in ("product", "divide"):
            other = B.build_gauss(step["vars"], step["mean"], step["cov"])
            r = ctx.call(getattr(obj, op), other, inplace=step["inplace"])
        elif op == "marginalize":
            r = ctx.call(obj.marginalize, list(step["drop"]), inplace=step["inplace"])
        elif op == "reduce":
            r = ctx.call(obj.reduce, [tuple(v) for v in step["values"]], inplace=step["inplace"])
        elif op == "normalize":
            r = ctx.call(obj.normalize, inplace=step["inplace"])
        else:
            r = ctx.call(obj.copy)
        if ctx.failed(r):
            ctx.violation(f"c20:exception:{r.type}@{r.where}", f"{label}: raised {r!r}")
            return
        st = g_apply(st, step)
        if op == "copy":
            if not observe_gauss(ctx, r, st, label + " -> the copy", KEYS[op], nr):
                return
            if step.get("switch"):
                obj = r
        elif not step["inplace"]:
            if r is None:
                ctx.violation("c20:malformed-result", f"{label}: inplace=False returned None")
                return
            # the chain continues on the returned object; what the old one looks like now is C16's business
            obj = r
        ctx.feature(f"chain:{op}")
        if not observe_gauss(ctx, obj, st, label, KEYS[op], nr):
            return                                          # later steps would only echo this difference


def observe_canonical(ctx, phi, st, label, key):
    B = _B()
    vs, K, h, g = st
    try:
        pv = list(phi.variables)
        gK = np.asarray(phi.K, float)
        gh = np.asarray(phi.h, float).reshape(-1)
        gg = float(phi.g)
        if sorted(map(repr, pv)) != sorted(map(repr, vs)) or len(pv) != len(vs) \
                or gK.shape != (len(vs), len(vs)) or gh.shape != (len(vs),):
            raise ValueError(f"variables {pv!r} (expected {list(vs)!r}), K {gK.shape}, h {gh.shape}")
    except Exception as e:
        ctx.violation(key, f"{label}: {type(e).__name__}: {e}")
        return False
    p = [list(vs).index(v) for v in pv]
    wK, wh = K[np.ix_(p, p)], h[p]
    ok = B.close(gK, wK, rtol=1e-6, atol=1e-6 * float(np.abs(wK).max())) \
        and B.close(gh, wh, rtol=1e-6, atol=1e-6 * (1 + float(np.abs(wh).max()))) and abs(gg - g) <= 1e-6 * (1 + abs(g))
    if not ctx.expect(ok, key, f"{label}: (K, h, g) over {pv!r} is ({B._r(gK)}, {B._r(gh)}, {gg!r}), the defining "
                      f"formulas give ({B._r(wK)}, {B._r(wh)}, {g!r})"):
        return False
    snap = copy.deepcopy(phi)
    r = ctx.call(snap.to_joint_gaussian)
    if ctx.failed(r):
        ctx.violation(f"c20:exception:{r.type}@{r.where}", f"{label}: to_joint_gaussian raised {r!r}")
    else:
        S = np.linalg.inv(K)
        B.cmp_gauss(ctx, label + " -> to_joint_gaussian()", r, vs, S @ h, (S + S.T) / 2,
                    key="c20:wrong-canonical-to-gaussian")
    return True


def run_cchain(ctx, ch, nr):
    from pgmpy.factors.continuous import CanonicalDistribution
    B = _B()
    vs = list(ch["vars"])
    mu, S = np.array(ch["mean"], float), np.array(ch["cov"], float)
    n = len(vs)
    K = np.linalg.inv(S)
    h = K @ mu
    g = float(-0.5 * float(mu @ h) - 0.5 * (n * math.log(2 * math.pi) + np.linalg.slogdet(S)[1]))
    if ch["from_gaussian"]:
        phi = ctx.call(B.build_gauss(vs, ch["mean"], ch["cov"]).to_canonical_factor)
    else:
        phi = ctx.call(CanonicalDistribution, list(vs), K.tolist(), [[x] for x in h], g)
    if ctx.failed(phi):
        return ctx.violation(f"c20:exception:{phi.type}@{phi.where}", f"building the canonical form raised {phi!r}")
    st = (vs, K, h, g)
    hist = ["to_canonical_factor()" if ch["from_gaussian"] else "CanonicalDistribution(K, h, g)"]
    if not observe_canonical(ctx, phi, st, "one canonical object, after " + hist[0], "c20:wrong-canonical-K"):
        return
    for step in ch["steps"]:
        if step["op"] == "product":
            hist.append(f"product(other over {step['vars']!r} [{step['mode']} scope], inplace={step['inplace']})")
            other = CanonicalDistribution(list(step["vars"]), [list(r) for r in step["K"]],
                                          [[x] for x in step["h"]], step["g"])
            r = ctx.call(phi.product, other, inplace=step["inplace"])
        else:
            hist.append("copy()" + (" [continue on the copy]" if step.get("switch") else ""))
            r = ctx.call(phi.copy)
        label = "one canonical object, after " + " ; ".join(hist)
        if ctx.failed(r):
            return ctx.violation(f"c20:exception:{r.type}@{r.where}", f"{label}: raised {r!r}")
        st = c_apply(st, step)
        if step["op"] == "copy":
            if not observe_canonical(ctx, r, st, label + " -> the copy", "c20:wrong-canonical-copy"):
                return
            if step.get("switch"):
                phi = r
        elif not step["inplace"]:
            if r is None:
                return ctx.violation("c20:malformed-result", f"{label}: inplace=False returned None")
            phi = r
        ctx.feature("cchain:" + step["op"])
        if not observe_canonical(ctx, phi, st, label, "c20:wrong-canonical-product"):
            return


def run_chain_case(spec, ctx):
    nr = np.random.default_rng(spec["pt_seed"])
    ctx.nontrivial = any(sum(s["op"] in ("product", "divide", "marginalize", "reduce") for s in ch["steps"]) >= 2
                         for ch in spec["gchains"])
    for ch in spec["gchains"]:
        run_gchain(ctx, ch, nr)
    for ch in spec["cchains"]:
        run_cchain(ctx, ch, nr)
