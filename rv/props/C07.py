"""C07 - samplers draw from the distribution they claim, reproducibly.

Primary oracle (deterministic, trace level): every value the samplers draw goes through
sample_discrete / sample_discrete_maps; the recorder in C07_trace keeps, per call, the
probability vector used for every row and the number drawn.  The checker recomputes from
the spec which CPD column each row had to use (parents' drawn numbers), compares vectors at
1e-9, checks number -> returned name, row counts, latent columns, seed reproducibility,
rejection = order-preserving evidence-matching subset of traced forward batches, likelihood
weights = product of the evidence CPD entries, Gibbs kernels = full conditionals of the
brute-force joint, simulate() = same trace check against the modified spec.
Secondary oracle: Hoeffding bound on 20 000-row forward samples (gross errors only).
"""
import itertools
import math

import numpy as np

from rv import gen, oracle
from rv.props import C07_gen as G

PLAN = {
    "quick": {"cases": 600, "hashseeds": 3, "shards": 5, "timeout": 420, "min_nontrivial": 180},
    "thorough": {"cases": 3600, "hashseeds": 8, "shards": 2, "timeout": 3000, "min_nontrivial": 1200,
                 "backends": ["numpy", "torch"], "torch_cases": 240, "torch_shards": 2, "torch_hashseeds": 2},
}
RULE = ("9 of 10 cases: random discrete BN (1-6 nodes, 1-7 thorough; ER/chain/collider/fork/family/two-part/isolated; "
        "cards 1-4; state names identity / 1-based ints / permuted ints / strings / tuples / mixed; zeros and "
        "deterministic columns; CPD columns kept >= 0.3 apart in TV where possible; random latent subset) x "
        "{forward_sample (sizes 1,2,17,1000; partial_samples on root / non-root columns, natural or category dtype), "
        "rejection_sample (0-2 evidence vars, P(e) >= 0.02, optionally partial_samples), likelihood_weighted_sample "
        "(0-3 evidence vars, P(e) > 0), GibbsSampling kernels + sample + generate_sample from a positive-mass start, "
        "2 simulate() variants drawn from do / evidence / virtual evidence / virtual intervention / partial / missing, "
        "each sampler run twice with the same seed (include_latents toggled, global RNG perturbed in between), "
        "25%: 20000-row statistical guard}. 1 of 10 cases: GibbsSampling on a random Markov network (2-5 nodes; half "
        "with potentials 1e-12..1e8 mixed). Object reuse: 60%: ONE BayesianModelSampling object serves 3-5 different "
        "forward / rejection / likelihood-weighted calls (each twice, same seed) with changing evidence (incl. [] and "
        "None), size, seed, include_latents, partial_samples; 50%: one GibbsSampling object for all sample() / "
        "generate_sample() calls, then continued without start_state (judged at the chain's own state); 50%: one model "
        "object and one set of argument objects for every simulate() call. Boundaries: seeds 0 / 1 / 2**32-1, size 1, "
        "30%: CPD entries 1e-12..1e-6 (all comparisons relative, rtol 1e-9), virtual vectors with 1e-6 and 1-1e-9, "
        "missing_prob 1e-9 and 1-1e-9, missing_columns None / [] / list, do-evidence-virtual containers None vs empty, "
        "partial frame without columns, multi-digit / negative / 2**40 integer state names, '' as a state name. "
        "non-trivial: BN with >= 2 nodes and >= 1 edge for which >= 1 traced row of a node with parents was compared, "
        "or an MN whose kernels were compared; distinct by digest of the whole spec")
ASSUMPTIONS = ["numpy.random.choice(a, size, p=p) honours p (everything above it is observed: the vectors handed to it, "
               "the rows its output lands on)",
               "brute-force joint (<= 1024 cells) is the reference for Gibbs full conditionals and the statistical guard",
               "GibbsSampling works in state numbers by its documented interface; its frames are checked as numbers",
               "virtual (soft) intervention: the prior used for the intervened node is recorded, not judged",
               "do-states whose CPD row is all zero and zero-probability evidence are outside the domain (rejection loop "
               "is unbounded there)",
               "statistical guard: Hoeffding, delta = 1e-12 per joint cell; catches gross errors only"]
REACH = [
    "pgmpy.sampling.Sampling:BayesianModelSampling.forward_sample",
    "pgmpy.sampling.Sampling:BayesianModelSampling.rejection_sample",
    "pgmpy.sampling.Sampling:BayesianModelSampling.likelihood_weighted_sample",
    "pgmpy.sampling.Sampling:GibbsSampling._get_kernel_from_bayesian_model",
    "pgmpy.sampling.Sampling:GibbsSampling._get_kernel_from_markov_model",
    "pgmpy.sampling.Sampling:GibbsSampling.sample",
    "pgmpy.sampling.Sampling:GibbsSampling.generate_sample",
    "pgmpy.sampling.base:BayesianModelInference._reduce_marg",
    "pgmpy.sampling.base:BayesianModelInference.pre_compute_reduce_maps",
    "pgmpy.sampling.base:_return_samples",
    "pgmpy.utils.mathext:sample_discrete",
    "pgmpy.utils.mathext:sample_discrete_maps",
    "pgmpy.utils.mathext:_adjusted_weights",
    "pgmpy.models.BayesianNetwork:BayesianNetwork.simulate",
    "pgmpy.models.MarkovChain:MarkovChain.set_start_state",
    "pgmpy.models.MarkovChain:MarkovChain.random_state",
]
REACH_REQUIRED = REACH[:15]
MONITORS_REQUIRED = ["trace_sample_discrete", "trace_sample_discrete_maps", "helper_groups_verified"]
MANIFEST = {
    "technique": "runtime monitoring: recorded-trace checker on the samplers' draw helpers (per-row probability vector "
                 "and drawn number), numpy.random.choice spy inside the helpers, batch recorder on forward_sample, "
                 "brute-force-joint reference for Gibbs kernels, same-seed replay, cross-process frame digests, "
                 "secondary Hoeffding guard",
    "note": "trusted: numpy.random.choice honours p; the spec -> CPD column arithmetic of the checker",
}

# numpy cells: 1e-9.  torch cells: pgmpy builds every table through torch.Tensor(values) (float32) before casting
# to the configured dtype, so stored probabilities carry ~6e-8 relative rounding; that is representation, not law.
TOL = {"atol": 1e-30, "rtol": 1e-9}     # relative: CPD entries / potentials range over 1e-12 .. 1e8


def set_tolerance(backend):
    from rv.props import C07_trace
    if backend == "numpy":
        TOL.update(atol=1e-30, rtol=1e-9)
        C07_trace.ST.helper_rtol = 1e-9
    else:
        # float32 storage: 1 - 1e-9 is 1.0 there, so complements of tiny entries are only right to ~1e-7 absolute
        TOL.update(atol=4e-7, rtol=4e-6)
        C07_trace.ST.helper_rtol = 1e-5


K_NUMNAME = "c07:number-taken-as-name"
K_PARTIAL = "c07:partial-samples-names-not-converted"
K_VLEAK = "c07:simulate-leaks-virtual-node-column"
K_GIBBS_SEED = "c07:gibbs-random-start-before-seed"
K_GEN_LAT = "c07:gibbs-generate-sample-latents"
K_EV_NONE = "c07:evidence-none-not-accepted"
K_MISS_EMPTY = "c07:missing-columns-empty-list-means-all"
OPTION_KEYS = (K_VLEAK, K_GIBBS_SEED, K_GEN_LAT, K_EV_NONE, K_MISS_EMPTY)


# ------------------------------------------------------------------ monitors
def setup(ctx):
    from rv.props import C07_trace
    C07_trace.install()


def teardown(ctx):
    from rv.props import C07_trace
    c = C07_trace.counts()
    return {"trace_sample_discrete": c["sample_discrete"], "trace_sample_discrete_maps": c["sample_discrete_maps"],
            "forward_batches": c["forward_batches"], "choice_calls": c["choice_calls"],
            "helper_groups_verified": c["helper_groups_verified"]}


# ------------------------------------------------------------------ cases
def gen_case(seed, idx, tier):
    rng = gen.rng_for("C07", seed, idx)
    if idx % 10 == 9:
        return G.gen_mn_case(rng, tier)
    spec = G.gen_bn_case(rng, tier)
    spec["partial_dtype"] = rng.choice(["natural", "category"])
    return spec


# ------------------------------------------------------------------ small helpers
def ident(bn, v):
    return list(bn["states"][v]) == list(range(bn["card"][v]))


def nonident_int(bn, v):
    s = bn["states"][v]
    return any(isinstance(x, int) and not isinstance(x, bool) for x in s) and not ident(bn, v)


def _item(x):
    try:
        return x.item() if hasattr(x, "item") else x
    except Exception:
        return x


def _hashable(x):
    if isinstance(x, list):
        return tuple(_hashable(y) for y in x)
    return x


class Prep:
    """Per-spec lookup tables (numpy CPD tables, name -> number)."""

    def __init__(self, nodes, card, states, cpds):
        self.nodes, self.card, self.states, self.cpds = list(nodes), card, states, cpds
        self.T = {v: np.array(cpds[v]["table"], dtype=float).reshape(card[v], -1) for v in nodes if v in cpds}
        self.n2n = {v: {_hashable(s): i for i, s in enumerate(states[v])} for v in nodes}

    def numbers(self, series, v):
        m = self.n2n[v]
        out = []
        for x in series.tolist():
            x = _hashable(_item(x))
            try:
                out.append(m.get(x, -1) if x == x else -1)
            except TypeError:
                out.append(-1)
        return np.array(out, dtype=int)


class Obs:
    def __init__(self):
        self.n_ok = 0
        self.viol = []
        self.notes = {}
        self.xcell = {}
        self.deep = False          # a traced row of a node with parents was compared

    def ok(self, n=1):
        self.n_ok += n

    def violation(self, key, what, attrib=(), **detail):
        if len(self.viol) < 12:
            self.viol.append({"key": key, "what": what, "attrib": list(attrib), "detail": detail})

    def expect(self, cond, key, what, attrib=(), **detail):
        if cond:
            self.n_ok += 1
        else:
            self.violation(key, what, attrib, **detail)
        return cond

    def note(self, k, n=1):
        self.notes[k] = self.notes.get(k, 0) + n


def attribs(bn, fam=(), partial=None, extra=()):
    """Structural predicates: which known mechanisms could explain a failure that involves the
    variables `fam` in a sampler call that used `partial`."""
    a = list(extra)
    if partial and any(not ident(bn, c) for c in partial["cols"]):
        a.append(K_PARTIAL)
    if any(v in bn["states"] and nonident_int(bn, v) for v in fam):
        a.append(K_NUMNAME)
    return a


def fail(obs, bn, r, label, partial=None, extra=(), **detail):
    obs.violation(f"c07:exception:{r.type}@{r.where}", f"{label} raised {r!r}",
                  attribs(bn, bn["nodes"], partial, extra), **detail)


def make_partial(bn, partial, dtype):
    import pandas as pd
    if not partial:
        return None
    if not partial["cols"]:
        return pd.DataFrame(index=range(len(partial["rows"])))
    cols = {}
    for j, c in enumerate(partial["cols"]):
        vals = [bn["states"][c][r[j]] for r in partial["rows"]]
        vals = [tuple(x) if isinstance(x, list) else x for x in vals]
        if dtype == "category":
            cols[c] = pd.Series(pd.Categorical(vals))
        elif all(isinstance(x, int) for x in vals):
            cols[c] = pd.Series(vals, dtype="int64")
        else:
            s = pd.Series([None] * len(vals), dtype=object)
            for i, x in enumerate(vals):
                s.iat[i] = x
            cols[c] = s
    return pd.DataFrame(cols)


def norm_bn(bn):
    """json round trip turns tuple state names into lists; restore hashable names."""
    bn = dict(bn)
    bn["states"] = {v: [_hashable(s) for s in ss] for v, ss in bn["states"].items()}
    return bn


def build_bn(bn, seed):
    import random
    from rv import build
    return build.bayesian_network(bn, rng=random.Random(seed))


def get_sampler(bn, aux):
    """Fresh sampler per call, or ONE shared object serving a whole call sequence (aux['shared_sampler'])."""
    from pgmpy.sampling import BayesianModelSampling
    return aux.get("shared_sampler") or BayesianModelSampling(build_bn(bn, aux["build_seed"]))


def call_with_evidence(ctx, obs, fn, evl, use_none, label, **kw):
    """evidence=None is documented as 'no evidence'.  If that raises while evidence=[] works, the failure is
    attributed to the None handling and the checks go on with the [] result."""
    from rv.props.C07_trace import Session
    with Session() as ses:
        r = ctx.call(fn, evidence=None if (use_none and not evl) else list(evl), **kw)
    if ctx.failed(r) and use_none and not evl:
        with Session() as ses2:
            r2 = ctx.call(fn, evidence=[], **kw)
        if not ctx.failed(r2):
            obs.violation(f"c07:exception:{r.type}@{r.where}", f"{label} with evidence=None raised {r!r} "
                          f"(evidence=[] is accepted)", [K_EV_NONE])
            return r2, ses2
    return r, ses


def perturb(k):
    np.random.seed((977 * k + 13) % (2 ** 31))
    np.random.random(k % 5 + 1)


# ------------------------------------------------------------------ frame / trace checks
def check_frame(obs, df, cols, n, label, attrib=()):
    import pandas as pd
    if not isinstance(df, pd.DataFrame):
        obs.violation("c07:malformed-result", f"{label}: returned {type(df).__name__}", attrib)
        return False
    good = obs.expect(len(df) == n, "c07:wrong-row-count", f"{label}: {len(df)} rows returned, {n} requested", attrib)
    got = [str(c) if not isinstance(c, str) else c for c in df.columns]
    if sorted(got) != sorted(cols):
        extra = sorted(set(got) - set(cols))
        miss = sorted(set(cols) - set(got))
        obs.violation("c07:wrong-columns", f"{label}: columns {sorted(got)}; unexpected {extra}, missing {miss}", attrib,
                      extra=extra, missing=miss)
        good = False
    else:
        obs.ok()
    return good


def frame_numbers(obs, P, df, label, bn, partial=None, allow_nan=False):
    """{column: state numbers} of a returned frame; -1 marks a value that is no state name of its column."""
    out = {}
    for c in df.columns:
        if c == "_weight" or c not in P.n2n:
            continue
        nums = P.numbers(df[c], c)
        bad = np.nonzero(nums < 0)[0]
        if len(bad) and not allow_nan:
            a = attribs(bn, [], partial if partial and c in partial["cols"] else None)
            obs.violation("c07:invalid-state-value", f"{label}: column {c!r} row {int(bad[0])} holds "
                          f"{df[c].iloc[int(bad[0])]!r}, not one of {P.states[c]!r} ({len(bad)} such rows)", a, column=c)
        else:
            obs.ok()
        out[c] = nums
    return out


def check_batch(obs, bn, P, b, label, partial=None, free=None):
    """One forward_sample invocation: every recorded draw against the spec.  Returns {node: numbers}."""
    free = free or {}
    n = b["size"]
    card = P.card
    numbers = {}
    pcols = list(partial["cols"]) if partial else []
    if partial:
        arr = np.array(partial["rows"], dtype=int).reshape(len(partial["rows"]), len(pcols))
        for j, c in enumerate(pcols):
            numbers[c] = arr[:, j]
    for ev in b["events"]:
        v = ev["node"]
        if v not in card or v in numbers:
            obs.violation("c07:trace-unexpected-draw", f"{label}: a value was drawn for {v!r} "
                          f"({'given in partial_samples' if v in pcols else 'unknown or repeated node'})",
                          attribs(bn, [], partial), node=v)
            continue
        k = card[v]
        if ev["helper"]:
            obs.violation("c07:helper-draw-mismatch", f"{label}: node {v!r}: {ev['helper'][0]}", node=v)
        out = ev["out"]
        if len(out) != n or ev["wtab"].shape[1] != k or ev["values"] != list(range(k)) or \
                (len(out) and (out.min() < 0 or out.max() >= k)):
            obs.violation("c07:trace-shape", f"{label}: node {v!r}: {len(out)} draws for {n} rows over values "
                          f"{ev['values']} with vectors of length {ev['wtab'].shape[1]} (card {k})", node=v)
            numbers[v] = np.clip(out[:n], 0, k - 1) if len(out) >= n else np.zeros(n, dtype=int)
            continue
        if v in free:
            used = ev["wtab"][np.unique(ev["widx"])]
            const = bool(np.allclose(used, used[0], atol=1e-12))
            posok = all(used[0][s] > 0 for s in free[v]["need"])
            obs.expect(const and posok, "c07:intervened-node-prior", f"{label}: intervened node {v!r} was drawn from "
                       f"{np.round(used, 6).tolist()} (must not depend on other variables and must give the "
                       f"intervention states {free[v]['need']} positive mass)", node=v)
            if free[v].get("soft"):
                sup = [s for s in range(k) if free[v]["soft"][s] > 0]
                if len(sup) > 1 and max(used[0][s] for s in sup) - min(used[0][s] for s in sup) > 1e-9:
                    obs.note("virtual_intervention_prior_nonuniform")
                else:
                    obs.note("virtual_intervention_prior_uniform")
        else:
            pa = P.cpds[v]["parents"]
            missing = [p for p in pa if p not in numbers]
            if missing:
                obs.violation("c07:trace-order", f"{label}: {v!r} drawn before its parents {missing}", node=v)
                numbers[v] = out
                continue
            col = np.zeros(n, dtype=int)
            for p in pa:
                col = col * card[p] + numbers[p]
            T = P.T[v]
            pairs = np.unique(np.stack([ev["widx"], col], axis=1), axis=0)
            good = True
            for w, c in pairs:
                if not np.allclose(ev["wtab"][w], T[:, c], **TOL):
                    r = int(np.nonzero((ev["widx"] == w) & (col == c))[0][0])
                    pav = {p: int(numbers[p][r]) for p in pa}
                    obs.violation("c07:wrong-conditional", f"{label}: row {r}: {v!r} was drawn from "
                                  f"{np.round(ev['wtab'][w], 6).tolist()} but P({v} | {pav} as state numbers) = "
                                  f"{np.round(T[:, c], 6).tolist()}",
                                  attribs(bn, pa, partial if any(p in pcols for p in pa) else None),
                                  node=v, parents=pav)
                    good = False
                    break
            if good:
                obs.ok(n)
                if pa:
                    obs.deep = True
                z = np.nonzero(T[out, col] == 0)[0]
                obs.expect(len(z) == 0, "c07:zero-probability-state-drawn", f"{label}: {v!r} row "
                           f"{int(z[0]) if len(z) else -1} has a state of probability 0", node=v)
        numbers[v] = out
    lack = [v for v in P.nodes if v not in numbers]
    if lack:
        obs.violation("c07:trace-incomplete", f"{label}: no draw recorded for {lack}", attribs(bn, [], partial))
    # number -> name of the batch's own returned frame
    res = b["result"]
    if res is not None and hasattr(res, "columns"):
        got = frame_numbers(obs, P, res, label + " (batch frame)", bn, partial)
        for c, nums in got.items():
            if c in numbers and len(nums) == len(numbers[c]):
                d = np.nonzero((nums != numbers[c]) & (nums >= 0))[0]
                if len(d):
                    r = int(d[0])
                    obs.violation("c07:wrong-state-name", f"{label}: column {c!r} row {r}: number "
                                  f"{int(numbers[c][r])} ({P.states[c][int(numbers[c][r])]!r}) "
                                  f"{'given' if c in pcols else 'drawn'}, frame holds {res[c].iloc[r]!r}",
                                  attribs(bn, [], partial if c in pcols else None), column=c)
                else:
                    obs.ok()
    return numbers


def accepted_rows(P, batches_nums, accept, size):
    """Order-preserving evidence-matching subset of the concatenated batches, first `size` rows."""
    cols = sorted({c for bn_ in batches_nums for c in bn_})
    parts = {c: [] for c in cols}
    for nums in batches_nums:
        if not nums:
            continue
        n = len(next(iter(nums.values())))
        mask = np.ones(n, dtype=bool)
        for v, s in accept.items():
            if v in nums:
                mask &= nums[v] == s
        for c in cols:
            parts[c].append(nums[c][mask] if c in nums else np.full(int(mask.sum()), -2))
    return {c: (np.concatenate(parts[c])[:size] if parts[c] else np.zeros(0, dtype=int)) for c in cols}


def compare_numbers(obs, want, got, key, label, attrib=()):
    for c, g in got.items():
        if c not in want:
            continue
        w = want[c]
        if len(w) != len(g):
            obs.violation(key, f"{label}: column {c!r}: {len(g)} rows, expected {len(w)}", attrib, column=c)
            return False
        d = np.nonzero(w != g)[0]
        if len(d):
            obs.violation(key, f"{label}: column {c!r} row {int(d[0])}: state number {int(g[d[0]])}, expected "
                          f"{int(w[d[0]])} ({len(d)} rows differ)", attrib, column=c)
            return False
        obs.ok()
    return True


def digest(nums):
    import hashlib
    h = hashlib.sha1()
    for c in sorted(nums):
        h.update(repr(c).encode())
        h.update(np.asarray(nums[c], dtype=np.int64).tobytes())
    return h.hexdigest()[:16]


# ------------------------------------------------------------------ probes
def probe_fwd(bn, prm, obs, ctx, aux):
    from pgmpy.sampling import BayesianModelSampling
    from rv.props.C07_trace import Session
    P = Prep(bn["nodes"], bn["card"], bn["states"], bn["cpds"])
    part = prm["partial"]
    n, seed = prm["size"], prm["seed"]
    lab = f"forward_sample(size={n}, seed={seed}{', partial_samples=' + str(part['cols']) if part else ''})"
    lab = aux.get("tag", "") + lab
    smp = get_sampler(bn, aux)
    perturb(1)
    with Session() as ses:
        r = ctx.call(smp.forward_sample, size=n, include_latents=True, seed=seed, show_progress=False,
                     partial_samples=make_partial(bn, part, aux["pdtype"]), n_jobs=1)
    if ctx.failed(r):
        return fail(obs, bn, r, lab, part)
    if not check_frame(obs, r, bn["nodes"], n, lab, attribs(bn, [], part)):
        return
    obs.expect(len(ses.batches) == 1, "c07:trace-shape", f"{lab}: {len(ses.batches)} forward batches recorded")
    nums = check_batch(obs, bn, P, ses.batches[0], lab, part) if ses.batches else {}
    got = frame_numbers(obs, P, r, lab, bn, part)
    compare_numbers(obs, nums, got, "c07:wrong-state-name", lab + " returned frame vs drawn numbers",
                    attribs(bn, [], part))
    # same seed, fresh sampler, perturbed global RNG, latents not requested
    smp2 = get_sampler(bn, aux)
    perturb(2)
    r2 = ctx.call(smp2.forward_sample, size=n, include_latents=False, seed=seed, show_progress=False,
                  partial_samples=make_partial(bn, part, aux["pdtype"]), n_jobs=1)
    lab2 = lab + " [2nd run, include_latents=False]"
    if ctx.failed(r2):
        return fail(obs, bn, r2, lab2, part)
    if check_frame(obs, r2, [v for v in bn["nodes"] if v not in bn["latents"]], n, lab2, attribs(bn, [], part)):
        got2 = frame_numbers(obs, P, r2, lab2, bn, part)
        compare_numbers(obs, got, got2, "c07:seed-not-reproducible", lab2 + " vs first run", attribs(bn, [], part))
    if not [v for v in obs.viol if not set(v['attrib']) & set(OPTION_KEYS)]:
        obs.xcell["forward"] = digest(got)


def probe_rej(bn, prm, obs, ctx, aux):
    from pgmpy.factors.discrete import State
    from pgmpy.sampling import BayesianModelSampling
    from rv.props.C07_trace import Session
    P = Prep(bn["nodes"], bn["card"], bn["states"], bn["cpds"])
    part, ev = prm["partial"], prm["evidence"]
    n, seed = prm["size"], prm["seed"]
    evl = [State(v, bn["states"][v][s]) for v, s in ev.items()]
    extra = []
    lab = f"rejection_sample(evidence={[(v, s) for v, s in evl]}, size={n}, seed={seed}" \
          f"{', partial_samples=' + str(part['cols']) if part else ''})"
    first = None
    for run, il in enumerate((True, False)):
        smp = get_sampler(bn, aux)
        perturb(3 + run)
        labr = aux.get("tag", "") + lab + f" [include_latents={il}]"
        r, ses = call_with_evidence(ctx, obs, smp.rejection_sample, evl, prm.get("ev_none"), labr, size=n,
                                    include_latents=il, seed=seed, show_progress=False,
                                    partial_samples=make_partial(bn, part, aux["pdtype"]))
        if ctx.failed(r):
            return fail(obs, bn, r, labr, part, extra)
        cols = [v for v in bn["nodes"] if il or v not in bn["latents"]]
        if not check_frame(obs, r, cols, n, labr, attribs(bn, [], part)):
            return
        got = frame_numbers(obs, P, r, labr, bn, part)
        for v, s in ev.items():
            if v in got:
                bad = np.nonzero(got[v] != s)[0]
                obs.expect(len(bad) == 0, "c07:rejection-disagrees-with-evidence", f"{labr}: row "
                           f"{int(bad[0]) if len(bad) else -1} has {v!r} != evidence", attribs(bn, [], part))
        if run == 0:
            bnums = [check_batch(obs, bn, P, b, labr + f" batch {i}", part) for i, b in enumerate(ses.batches)]
            obs.note("rejection_batches", len(ses.batches))
            fr = []
            for b in ses.batches:           # what each batch *returned* (names -> numbers), not what was drawn
                res = b["result"]
                fr.append({c: P.numbers(res[c], c) for c in res.columns if c in P.n2n} if res is not None else {})
            want = accepted_rows(P, fr, ev, n)
            compare_numbers(obs, want, got, "c07:rejection-not-subset-of-forward-draws",
                            labr + " vs evidence-matching rows of the traced forward batches", attribs(bn, [], part))
            first = got
        else:
            compare_numbers(obs, first, got, "c07:seed-not-reproducible", labr + " vs first run",
                            attribs(bn, [], part))
    if first is not None and not [v for v in obs.viol if not set(v['attrib']) & set(OPTION_KEYS)]:
        obs.xcell["rejection"] = digest(first)


def probe_lw(bn, prm, obs, ctx, aux):
    from pgmpy.factors.discrete import State
    from pgmpy.sampling import BayesianModelSampling
    from rv.props.C07_trace import Session
    P = Prep(bn["nodes"], bn["card"], bn["states"], bn["cpds"])
    ev = prm["evidence"]
    n, seed = prm["size"], prm["seed"]
    evl = [State(v, bn["states"][v][s]) for v, s in ev.items()]
    lab = f"likelihood_weighted_sample(evidence={[(v, s) for v, s in evl]}, size={n}, seed={seed})"
    first = None
    for run, il in enumerate((True, False)):
        smp = get_sampler(bn, aux)
        perturb(5 + run)
        labr = aux.get("tag", "") + lab + f" [include_latents={il}]"
        r, ses = call_with_evidence(ctx, obs, smp.likelihood_weighted_sample, evl, prm.get("ev_none"), labr, size=n,
                                    include_latents=il, seed=seed, show_progress=False, n_jobs=1)
        if ctx.failed(r):
            return fail(obs, bn, r, labr)
        cols = [v for v in bn["nodes"] if il or v not in bn["latents"]] + ["_weight"]
        if not check_frame(obs, r, cols, n, labr):
            return
        got = frame_numbers(obs, P, r, labr, bn)
        try:
            wts = np.array(r["_weight"].tolist(), dtype=float)
        except Exception as e:
            return obs.violation("c07:malformed-result", f"{labr}: _weight unreadable: {e}")
        if run == 0:
            # evidence nodes are clamped; every other node is drawn from its conditional
            clamp = {"cols": list(ev), "rows": [[ev[v] for v in ev]] * n}
            fake = {"events": ses.loose, "size": n, "result": None}
            nums = check_batch(obs, bn, P, fake, labr, clamp if ev else None)
            obs.expect(not ses.batches, "c07:trace-shape", f"{labr}: forward_sample was entered")
            compare_numbers(obs, nums, got, "c07:wrong-state-name", labr + " returned frame vs drawn/fixed numbers")
            for v, s in ev.items():
                if v in got:
                    obs.expect(bool(np.all(got[v] == s)), "c07:evidence-not-fixed", f"{labr}: column {v!r} is not "
                               f"constant at the evidence state")
            if all(v in nums for v in bn["nodes"]):
                want = np.ones(n)
                for v in ev:
                    col = np.zeros(n, dtype=int)
                    for p in bn["cpds"][v]["parents"]:
                        col = col * bn["card"][p] + nums[p]
                    want = want * P.T[v][ev[v], col]
                d = np.nonzero(~np.isclose(wts, want, atol=1e-300, rtol=TOL['rtol'] * 10))[0]
                fam = [p for v in ev for p in bn["cpds"][v]["parents"]]
                if len(d):
                    i = int(d[0])
                    obs.violation("c07:wrong-weight", f"{labr}: row {i}: _weight={wts[i]!r}, product of the evidence "
                                  f"CPD entries given the sampled parents = {want[i]!r}", attribs(bn, fam), row=i)
                else:
                    obs.ok(n)
            first = (got, wts)
        else:
            compare_numbers(obs, first[0], got, "c07:seed-not-reproducible", labr + " vs first run")
            obs.expect(len(wts) == len(first[1]) and bool(np.allclose(wts, first[1], atol=0, rtol=1e-12)),
                       "c07:seed-not-reproducible", f"{labr}: weights differ from the first run")
    if first is not None and not [v for v in obs.viol if not set(v['attrib']) & set(OPTION_KEYS)]:
        obs.xcell["lw"] = [digest(first[0]), float(first[1].sum())]


def track_chain(obs, evs, state, sweeps, gvars, cond, labr, attrib_of):
    """Every recorded Gibbs step must use the full conditional (from the joint) at the tracked chain state.
    Returns the list of chain states (start + one per sweep) or None."""
    state = dict(state)
    if not obs.expect(len(evs) == sweeps * len(gvars), "c07:trace-shape", f"{labr}: {len(evs)} draws for "
                      f"{sweeps} sweeps over {len(gvars)} variables"):
        return None
    rows = [dict(state)]
    it = iter(evs)
    for i in range(sweeps):
        for var in gvars:
            ev = next(it)
            if ev["helper"]:
                obs.violation("c07:helper-draw-mismatch", f"{labr}: {ev['helper'][0]}")
            want = cond(var, state)
            p = ev["wtab"][0]
            if str(ev["node"]) != var or want is None or p.shape != want.shape or not np.allclose(p, want, **TOL):
                obs.violation("c07:gibbs-step-not-full-conditional", f"{labr}: sweep {i}: {ev['node']!r} drawn "
                              f"from {p.tolist()}; full conditional of {var!r} at chain state "
                              f"{state} = {None if want is None else want.tolist()}", attrib_of(var), var=var)
                return None
            state[var] = int(ev["out"][0])
        rows.append(dict(state))
    obs.ok(sweeps * len(gvars))
    return rows


def gibbs_common(obs, ctx, g, nodes, card, J, prm, lab, latents, attrib_of):
    """Kernel table, sample() trace, seed replay.  `g` is a GibbsSampling object."""
    from pgmpy.factors.discrete import State
    from rv.props.C07_trace import Session
    from rv.build import to_np
    J = np.asarray(J, dtype=float)
    try:
        gvars = [str(v) for v in g.variables]
        tm = g.transition_models
    except Exception as e:
        return obs.violation("c07:malformed-result", f"{lab}: unreadable chain: {e}")
    if sorted(gvars) != sorted(nodes):
        return obs.violation("c07:gibbs-variables", f"{lab}: chain variables {gvars} != model nodes {nodes}")
    ax = {v: nodes.index(v) for v in nodes}

    def cond(var, assign):
        vec = J[tuple(slice(None) if v == var else assign[v] for v in nodes)]
        s = vec.sum()
        return vec / s if s > 0 else None

    # (5a) kernels
    for var in gvars:
        others = [v for v in gvars if v != var]
        bad = None
        ncmp = 0
        for tup in itertools.product(*[range(card[v]) for v in others]):
            want = cond(var, dict(zip(others, tup)))
            if want is None:
                continue
            try:
                gotk = np.asarray(to_np(tm[var][tup]), dtype=float)
            except Exception as e:
                bad = (tup, f"unreadable ({type(e).__name__}: {e})", want)
                break
            ncmp += 1
            if gotk.shape != want.shape or not np.allclose(gotk, want, **TOL):
                bad = (tup, np.round(gotk, 6).tolist(), want)
                break
        if bad:
            obs.violation("c07:gibbs-wrong-kernel", f"{lab}: transition_models[{var!r}][{dict(zip(others, bad[0]))}] = "
                          f"{bad[1]}, full conditional from the joint = {np.round(bad[2], 6).tolist()}",
                          attrib_of(var), var=var)
        else:
            obs.ok(ncmp)
            obs.deep = obs.deep or ncmp > 1
    # (5b) sample(): every step's vector is the full conditional at the chain's current state
    n, seed = prm["size"], prm["seed"]
    start = prm["start"]
    first = None
    for run, il in enumerate((True, False)):
        if run == 1:
            g = prm["rebuild"]()
            if ctx.failed(g):
                return
        perturb(7 + run)
        with Session() as ses:
            r = ctx.call(g.sample, start_state=[State(v, int(start[v])) for v in nodes], size=n, seed=seed,
                         include_latents=il)
        labr = lab + f".sample(size={n}, seed={seed}, include_latents={il})"
        if ctx.failed(r):
            return obs.violation(f"c07:exception:{r.type}@{r.where}", f"{labr} raised {r!r}", attrib_of(None))
        cols = [v for v in nodes if il or v not in latents]
        if not check_frame(obs, r, cols, n, labr):
            return
        try:
            got = {c: np.array(r[c].tolist(), dtype=int) for c in r.columns}
        except Exception as e:
            return obs.violation("c07:malformed-result", f"{labr}: {e}")
        for c in got:
            obs.expect(bool(np.all((got[c] >= 0) & (got[c] < card[c]))), "c07:invalid-state-value",
                       f"{labr}: column {c!r} holds a number outside range({card[c]})")
        if run == 0:
            rows = track_chain(obs, ses.loose, {v: int(start[v]) for v in nodes}, n - 1, gvars, cond, labr, attrib_of)
            if rows is not None:
                want = {c: np.array([rw[c] for rw in rows], dtype=int) for c in nodes}
                compare_numbers(obs, want, got, "c07:gibbs-frame-not-chain", labr + " frame vs tracked chain")
            first = got
        else:
            compare_numbers(obs, first, got, "c07:seed-not-reproducible", labr + " vs first run")
    if first is not None and not [v for v in obs.viol if not set(v['attrib']) & set(OPTION_KEYS)]:
        obs.xcell["gibbs"] = digest(first)
    # object reuse: the SAME chain object goes on from its current state (start_state omitted), with other
    # size / seed / include_latents; every step is still judged at the state the chain is really in
    if prm.get("reuse") and not obs.viol:
        for k, (n2, il, sd) in enumerate(prm["reuse"]):
            try:
                cur = {str(st.var): int(st.state) for st in g.state}
            except Exception as e:
                return obs.violation("c07:malformed-result", f"{lab}: chain state unreadable: {e}")
            perturb(30 + k)
            labr = lab + f" [same object, call {k + 3}].sample(start_state=None, size={n2}, seed={sd}, include_latents={il})"
            with Session() as ses:
                r = ctx.call(g.sample, start_state=None, size=n2, seed=sd, include_latents=il)
            if ctx.failed(r):
                return obs.violation(f"c07:exception:{r.type}@{r.where}", f"{labr} raised {r!r}", attrib_of(None))
            if not check_frame(obs, r, [v for v in nodes if il or v not in latents], n2, labr):
                return
            rows = track_chain(obs, ses.loose, cur, n2 - 1, gvars, cond, labr, attrib_of)
            if rows is not None:
                try:
                    got = {c: np.array(r[c].tolist(), dtype=int) for c in r.columns}
                except Exception as e:
                    return obs.violation("c07:malformed-result", f"{labr}: {e}")
                want = {c: np.array([rw[c] for rw in rows], dtype=int) for c in nodes}
                compare_numbers(obs, want, got, "c07:gibbs-frame-not-chain", labr + " frame vs chain continued from "
                                "the object's own state")
            # generator version on the same object, again without start_state
            try:
                cur = {str(st.var): int(st.state) for st in g.state}
            except Exception as e:
                return obs.violation("c07:malformed-result", f"{lab}: chain state unreadable: {e}")
            labg = lab + f" [same object, call {k + 3}b].generate_sample(size=2, seed={sd}, include_latents=True)"
            with Session() as ses:
                r = ctx.call(lambda: list(g.generate_sample(size=2, include_latents=True, seed=sd)))
            if ctx.failed(r):
                return obs.violation(f"c07:exception:{r.type}@{r.where}", f"{labg} raised {r!r}", attrib_of(None))
            rows = track_chain(obs, ses.loose, cur, 2, gvars, cond, labg, attrib_of)
            if rows is not None:
                try:
                    ys = [{str(st.var): int(st.state) for st in row} for row in r]
                except Exception as e:
                    return obs.violation("c07:malformed-result", f"{labg}: {e}")
                obs.expect(ys == rows[1:], "c07:gibbs-frame-not-chain", f"{labg}: yielded {ys}, tracked chain {rows[1:]}")
    # generate_sample: latents only when requested
    g2 = prm["rebuild"]()
    if not ctx.failed(g2):
        for il in (True, False):
            labg = lab + f".generate_sample(size=3, include_latents={il})"
            r = ctx.call(lambda: list(g2.generate_sample(start_state=[State(v, int(start[v])) for v in nodes], size=3,
                                                         include_latents=il, seed=seed)))
            if ctx.failed(r):
                obs.violation(f"c07:exception:{r.type}@{r.where}", f"{labg} raised {r!r}", attrib_of(None))
                continue
            try:
                vs = [[str(s.var) for s in row] for row in r]
                ok_vals = all(0 <= int(s.state) < card[str(s.var)] for row in r for s in row)
            except Exception as e:
                obs.violation("c07:malformed-result", f"{labg}: {e}")
                continue
            want = [v for v in gvars if il or v not in latents]
            obs.expect(len(r) == 3 and ok_vals, "c07:wrong-row-count", f"{labg}: {len(r)} samples / invalid numbers")
            obs.expect(all(sorted(x) == sorted(want) for x in vs), "c07:generate-sample-variables",
                       f"{labg}: yields variables {vs[0] if vs else None}, expected {want}",
                       [K_GEN_LAT] if (not il and latents) else [])


def probe_gibbs(bn, prm, obs, ctx, aux):
    from pgmpy.sampling import GibbsSampling
    nodes, J = oracle.joint_table(bn)
    lab = "GibbsSampling(bn)"

    def mk():
        return ctx.call(lambda: GibbsSampling(build_bn(bn, aux["build_seed"])))

    g = mk()
    if ctx.failed(g):
        return fail(obs, bn, g, lab)
    pa = gen.parents_of(nodes, [tuple(e) for e in bn["edges"]])

    def blanket(var):
        if var is None:
            return list(nodes)
        ch = [c for c in nodes if var in pa[c]]
        return sorted(set(pa[var]) | set(ch) | {p for c in ch for p in pa[c]} - {var})

    prm2 = dict(prm, rebuild=(lambda: g) if prm.get("reuse") else mk)
    gibbs_common(obs, ctx, g, nodes, bn["card"], J, prm2, lab, bn["latents"], lambda var: attribs(bn, blanket(var)))
    # fixed seed with a random start state (strictly positive models only)
    if prm.get("random_start") and not any(v["key"].startswith("c07:exception") for v in obs.viol):
        outs = []
        for run in range(2):
            g3 = mk()
            if ctx.failed(g3):
                return
            perturb(20 + 7 * run)
            r = ctx.call(g3.sample, start_state=None, size=3, seed=prm["seed"], include_latents=True)
            if ctx.failed(r):
                return obs.violation(f"c07:exception:{r.type}@{r.where}", f"{lab}.sample(start_state=None) raised {r!r}",
                                     attribs(bn, nodes))
            try:
                outs.append([r[c].tolist() for c in nodes])
            except Exception as e:
                return obs.violation("c07:malformed-result", f"{lab}.sample(start_state=None): {e}")
        tot = 1
        for v in nodes:
            tot *= bn["card"][v]
        obs.expect(outs[0] == outs[1], "c07:seed-not-reproducible", f"{lab}.sample(start_state=None, size=3, "
                   f"seed={prm['seed']}) on two fresh chains: {outs[0]} vs {outs[1]}",
                   [K_GIBBS_SEED] if tot > 1 else [])


def probe_mn(spec, obs, ctx):
    import random
    from pgmpy.sampling import GibbsSampling
    from rv import build
    mn = dict(spec["mn"])
    mn["states"] = {v: [_hashable(s) for s in ss] for v, ss in mn["states"].items()}
    nodes, J = oracle.mn_joint(mn)
    lab = "GibbsSampling(markov network)"

    def mk():
        return ctx.call(lambda: GibbsSampling(build.markov_network(mn, rng=random.Random(spec["build_seed"]))))

    g = mk()
    if ctx.failed(g):
        return obs.violation(f"c07:exception:{g.type}@{g.where}", f"{lab} raised {g!r}",
                             [K_NUMNAME] if any(nonident_int(mn, v) for v in nodes) else [])
    nb = {v: set() for v in nodes}
    for f in mn["factors"]:
        for a in f["vars"]:
            nb[a] |= set(f["vars"]) - {a}

    def att(var):
        fam = nodes if var is None else nb[var]
        return [K_NUMNAME] if any(nonident_int(mn, v) for v in fam) else []

    prm = dict(spec["gibbs"], rebuild=(lambda: g) if spec["gibbs"].get("reuse") else mk)
    gibbs_common(obs, ctx, g, nodes, mn["card"], J, prm, lab, [], att)


def probe_sim(bn, var, obs, ctx, aux):
    from pgmpy.factors.discrete import TabularCPD
    from rv.props.C07_trace import Session
    part = var.get("partial")
    n, seed, il = var["n"], var["seed"], var["include_latents"]
    enodes, ecard, ecpds, accept = G.sim_effective(bn, var)
    estates = dict(bn["states"])
    for v in enodes:
        if v not in estates:
            estates[v] = [0, 1]
    P = Prep(enodes, ecard, estates, ecpds)
    free = {v: {"need": [s]} for v, s in var["do"].items()}
    for d in var["vint"]:
        free[d["var"]] = {"need": [], "soft": d["vec"]}

    def vcpd(d):
        v = d["var"]
        return TabularCPD(v, bn["card"][v], [[x] for x in d["vec"]], state_names={v: list(bn["states"][v])})

    empty = var.get("empty", "none")          # how "nothing" is spelled: None or an empty dict / list
    shared = aux.get("shared_model") is not None
    _kw = []

    def kwargs():
        # with a shared model the caller-owned argument objects (dicts, CPD lists, frame) are re-used as well
        if shared and _kw:
            return dict(_kw[0])
        kw = dict(n_samples=n, do={v: bn["states"][v][s] for v, s in var["do"].items()},
                  evidence={v: bn["states"][v][s] for v, s in var["evidence"].items()},
                  virtual_evidence=[vcpd(d) for d in var["vev"]],
                  virtual_intervention=[vcpd(d) for d in var["vint"]],
                  include_latents=il, partial_samples=make_partial(bn, part, aux["pdtype"]), seed=seed,
                  show_progress=False)
        if empty == "none":
            for k in ("do", "evidence", "virtual_evidence", "virtual_intervention"):
                kw[k] = kw[k] or None
        _kw.append(kw)
        return dict(kw)

    def the_model():
        return aux.get("shared_model") or build_bn(bn, aux["build_seed"])

    desc = {k: v for k, v in var.items() if k in ("do", "evidence", "vev", "vint", "missing") and v}
    lab = f"{aux.get('tag', '')}simulate(n={n}, seed={seed}, include_latents={il}, empty={empty}, {desc}" \
          f"{', partial_samples=' + str(part['cols']) if part else ''})"
    tup_extra = []
    model = the_model()
    perturb(9)
    with Session() as ses:
        r = ctx.call(model.simulate, **kwargs())
    if ctx.failed(r):
        return fail(obs, bn, r, lab, part, tup_extra)
    cols = [v for v in bn["nodes"] if il or v not in bn["latents"]]
    leak = [K_VLEAK] if il and (var["vev"] or var["vint"]) else []
    import pandas as pd
    if not isinstance(r, pd.DataFrame):
        return obs.violation("c07:malformed-result", f"{lab}: returned {type(r).__name__}")
    extra_cols = [c for c in r.columns if c not in cols]
    if extra_cols:
        obs.violation("c07:wrong-columns", f"{lab}: unexpected columns {extra_cols}",
                      leak if all(str(c).startswith("__") for c in extra_cols) else [], extra=extra_cols)
        r = r[[c for c in r.columns if c in cols]]
    if not check_frame(obs, r, cols, n, lab, attribs(bn, [], part)):
        return
    got = frame_numbers(obs, P, r, lab, bn, part)
    for v, s in {**var["do"], **var["evidence"]}.items():
        if v in got:
            obs.expect(bool(np.all(got[v] == s)), "c07:rejection-disagrees-with-evidence",
                       f"{lab}: column {v!r} is not constant at the requested state", attribs(bn, [], part))
    fr = []
    for i, b in enumerate(ses.batches):
        check_batch(obs, bn, P, b, lab + f" batch {i}", part, free)
        res = b["result"]
        fr.append({c: P.numbers(res[c], c) for c in res.columns if c in P.n2n} if res is not None else {})
    obs.expect(len(ses.batches) >= 1, "c07:trace-shape", f"{lab}: no forward batch recorded")
    want = accepted_rows(P, fr, accept, n)
    compare_numbers(obs, want, got, "c07:rejection-not-subset-of-forward-draws",
                    lab + " vs condition-matching rows of the traced forward batches", attribs(bn, [], part))
    # same seed again
    perturb(10)
    r2 = ctx.call(the_model().simulate, **kwargs())
    if ctx.failed(r2):
        return fail(obs, bn, r2, lab + " [2nd run]", part, tup_extra)
    try:
        r2 = r2[[c for c in r2.columns if c in cols]]
        got2 = frame_numbers(obs, P, r2, lab + " [2nd run]", bn, part)
    except Exception as e:
        return obs.violation("c07:malformed-result", f"{lab} [2nd run]: {e}")
    obs.expect(set(got2) == set(got), "c07:seed-not-reproducible", f"{lab}: second run has other columns")
    compare_numbers(obs, got, got2, "c07:seed-not-reproducible", lab + " second run vs first", attribs(bn, [], part))
    # missing values: mask only on permitted columns, other cells unchanged versus the same-seed run
    ms = var.get("missing")
    if ms:
        perturb(11)
        kw = kwargs()
        kw.update(include_missing=True, missing_prob=ms["prob"], missing_columns=ms["columns"])
        r3 = ctx.call(the_model().simulate, **kw)
        lab3 = lab + f" [include_missing, prob={ms['prob']}, columns={ms['columns']}]"
        if ctx.failed(r3):
            return fail(obs, bn, r3, lab3, part, tup_extra)
        try:
            r3 = r3[[c for c in r3.columns if c in cols]]
            if not check_frame(obs, r3, cols, n, lab3):
                return
            for c in cols:
                isna = r3[c].isna().to_numpy()
                if ms["columns"] is not None and c not in ms["columns"]:
                    obs.expect(not (isna & (got[c] >= 0)).any(), "c07:missing-in-unpermitted-column", f"{lab3}: column {c!r} has missing "
                               f"values but is not in missing_columns", [K_MISS_EMPTY] if ms["columns"] == [] else [])
                nums = P.numbers(r3[c], c)
                keep = ~isna
                obs.expect(bool(np.all(nums[keep] == got[c][keep])), "c07:missing-changed-other-cells",
                           f"{lab3}: non-missing cells of {c!r} differ from the same-seed run without missing values",
                           attribs(bn, [], part))
        except Exception as e:
            return obs.violation("c07:malformed-result", f"{lab3}: {type(e).__name__}: {e}")
    if not [v for v in obs.viol if not set(v['attrib']) & set(OPTION_KEYS)]:
        obs.xcell["simulate"] = digest(got)


def probe_reuse(bn, prm, obs, ctx, aux):
    """ONE BayesianModelSampling object serves a sequence of different calls (sampler kind, evidence, size, seed,
    include_latents, partial_samples all change); every call is judged by the same oracles as a fresh one."""
    smp = ctx.call(get_sampler, bn, aux)
    if ctx.failed(smp):
        return fail(obs, bn, smp, "BayesianModelSampling(model)")
    fns = {"fwd": probe_fwd, "rej": probe_rej, "lw": probe_lw}
    for k, step in enumerate(prm["steps"]):
        aux2 = dict(aux, shared_sampler=smp, tag=f"[shared sampler, step {k + 1}/{len(prm['steps'])}] ")
        fns[step["kind"]](bn, step, obs, ctx, aux2)
    obs.xcell = {}
    obs.note("shared_sampler_steps", len(prm["steps"]))


def probe_stat(bn, prm, obs, ctx, aux):
    from pgmpy.sampling import BayesianModelSampling
    P = Prep(bn["nodes"], bn["card"], bn["states"], bn["cpds"])
    nodes, J = oracle.joint_table(bn)
    n = 20000
    lab = f"forward_sample(size={n}, seed={prm['seed']}) [statistical guard]"
    r = ctx.call(BayesianModelSampling(build_bn(bn, aux["build_seed"])).forward_sample, size=n, include_latents=True,
                 seed=prm["seed"], show_progress=False, n_jobs=1)
    if ctx.failed(r):
        return fail(obs, bn, r, lab)
    if not check_frame(obs, r, nodes, n, lab):
        return
    got = frame_numbers(obs, P, r, lab, bn)
    if any((got[v] < 0).any() for v in nodes):
        return
    flat = np.zeros(n, dtype=int)
    for v in nodes:
        flat = flat * bn["card"][v] + got[v]
    freq = np.bincount(flat, minlength=int(np.prod([bn["card"][v] for v in nodes]))) / n
    eps = math.sqrt(math.log(2 / 1e-12) / (2 * n))
    d = np.abs(freq - np.asarray(J).reshape(-1))
    i = int(np.argmax(d))
    if d[i] > eps:
        cell = np.unravel_index(i, [bn["card"][v] for v in nodes])
        obs.violation("c07:stat-forward-joint", f"{lab}: joint cell {dict(zip(nodes, map(int, cell)))} has frequency "
                      f"{freq[i]:.4f}, joint says {np.asarray(J).reshape(-1)[i]:.4f} (bound {eps:.4f})",
                      attribs(bn, nodes))
    else:
        obs.ok(len(freq))
    z = np.nonzero((np.asarray(J).reshape(-1) == 0) & (freq > 0))[0]
    obs.expect(len(z) == 0, "c07:zero-probability-state-drawn", f"{lab}: {len(z)} joint cells of probability 0 occurred",
               attribs(bn, nodes))


# ------------------------------------------------------------------ classification by neutralisation
def neutralise(bn, key, partial):
    """Remove the structural trigger of one known mechanism from the spec (labels only; tables, draws and all
    sampler parameters - kept as state numbers - are unchanged).
    number-taken-as-name : integer state names that are not 0..k-1 become strings (a number can then never be
                           mistaken for a name, while un-converted partial_samples names still are names);
    partial-samples      : the partial columns get identity names (name == number)."""
    bn = dict(bn)
    st = dict(bn["states"])
    if key == K_NUMNAME:
        for v in bn["nodes"]:
            if nonident_int(bn, v):
                st[v] = [f"{v}_n{i}" for i in range(bn["card"][v])]
    elif key == K_PARTIAL and partial:
        for c in partial["cols"]:
            st[c] = list(range(bn["card"][c]))
    else:
        return None
    bn["states"] = st
    return bn


NEUTRALISABLE = [K_NUMNAME, K_PARTIAL]


def run_probe(fn, bn, prm, ctx, aux, partial, first_aux=None):
    """Run one sampler probe; if it fails and a structural predicate of a known mechanism holds, re-run it with
    the triggers neutralised one after the other (cumulatively).  Only when a re-run is completely clean are the
    violations attributed, each to the last neutralised mechanism its own predicate names; anything else keeps
    its generic key."""
    obs = Obs()
    fn(bn, prm, obs, ctx, first_aux or aux)
    cand = [v for v in obs.viol if any(k in v["attrib"] for k in NEUTRALISABLE)]
    if cand:
        cur, applied = bn, []
        triggers = {k for v in cand for k in v["attrib"]}
        for key in NEUTRALISABLE:
            if key not in triggers:
                continue
            nb = neutralise(cur, key, partial)
            if nb is None:
                continue
            cur = nb
            applied.append(key)
            o2 = Obs()
            aux_r = aux
            if first_aux and first_aux.get("shared_model") is not None:     # re-runs re-use one (new) model object too
                aux_r = dict(first_aux, shared_model=build_bn(cur, aux["build_seed"]))
            fn(cur, prm, o2, ctx, aux_r)
            obs.note("neutralised_reruns")
            left = [w for w in o2.viol if not any(k in w["attrib"] for k in OPTION_KEYS)]
            triggers |= {k for w in left for k in w["attrib"]}   # a re-labelling can expose another known trigger
            if not left:
                for v in cand:
                    mine = [k for k in applied if k in v["attrib"]]
                    if mine:
                        v["final"] = mine[-1]
                break
    # predicates that need no re-run (the triggering feature is the call option itself)
    for v in obs.viol:
        if "final" not in v:
            for key in OPTION_KEYS:
                if key in v["attrib"]:
                    v["final"] = key
    return obs


def emit(ctx, obs):
    ctx.ok(obs.n_ok)
    for k, n in obs.notes.items():
        ctx.note(k, n)
    for v in obs.viol:
        key = v.get("final", v["key"])
        what = v["what"] if key == v["key"] else f"[{v['key']}] {v['what']}"
        ctx.violation(key, what, **v["detail"])


# ------------------------------------------------------------------ case
def run_case(spec, ctx):
    setup(ctx)
    set_tolerance(ctx.backend)
    if spec["type"] == "mn":
        obs = Obs()
        probe_mn(spec, obs, ctx)
        for v in obs.viol:                 # MN: number-as-name is attributed structurally + by re-run
            if K_NUMNAME in v["attrib"]:
                mn2 = dict(spec["mn"])
                mn2["states"] = {x: list(range(mn2["card"][x])) for x in mn2["nodes"]}
                o2 = Obs()
                probe_mn(dict(spec, mn=mn2), o2, ctx)
                if v["key"] not in {w["key"] for w in o2.viol}:
                    v["final"] = K_NUMNAME
        emit(ctx, obs)
        ctx.nontrivial = obs.deep
        ctx.feature("mn-gibbs")
        ctx.feature(f"kind:{spec['mn']['kind']}")
        for k, x in obs.xcell.items():
            ctx.xcell[f"{ctx.backend}:mn-{k}"] = x
        return
    bn = norm_bn(spec["bn"])
    aux = {"build_seed": spec["build_seed"], "pdtype": spec.get("partial_dtype", "natural")}
    deep = False
    plan = [("fwd", probe_fwd, spec["fwd"], spec["fwd"]["partial"]),
            ("rej", probe_rej, spec["rej"], spec["rej"]["partial"]),
            ("lw", probe_lw, spec["lw"], None),
            ("gibbs", probe_gibbs, spec["gibbs"], None)]
    for i, var in enumerate(spec["sim"]):
        plan.append((f"sim{i}", probe_sim, var, var.get("partial")))
    if spec.get("reuse"):
        plan.append(("reuse", probe_reuse, spec["reuse"], spec["reuse"].get("partial")))
    shared_model = build_bn(bn, spec["build_seed"]) if spec.get("sim_reuse") else None
    if spec.get("stat"):
        plan.append(("stat", probe_stat, spec["stat"], None))
    for name, fn, prm, partial in plan:
        if shared_model is not None and name.startswith("sim"):
            # ONE model object serves every simulate() call of the case (neutralised re-runs build their own)
            obs = run_probe(fn, bn, prm, ctx, aux, partial, first_aux=dict(aux, shared_model=shared_model,
                                                                            tag="[shared model] "))
        else:
            obs = run_probe(fn, bn, prm, ctx, aux, partial)
        emit(ctx, obs)
        deep = deep or obs.deep
        for k, x in obs.xcell.items():
            ctx.xcell[f"{ctx.backend}:{name}:{k}"] = x    # same seed => same frame in every process of one backend
    ctx.nontrivial = len(bn["nodes"]) >= 2 and len(bn["edges"]) >= 1 and deep
    ctx.feature(f"kind:{bn['kind']}")
    for f, c in (("latents", bn["latents"]), ("partial", spec["fwd"]["partial"]), ("rej-partial", spec["rej"]["partial"]),
                 ("card1", 1 in bn["card"].values()), ("stat-guard", spec.get("stat")),
                 ("sim-do", any(v["do"] for v in spec["sim"])), ("sim-evidence", any(v["evidence"] for v in spec["sim"])),
                 ("sim-virtual-evidence", any(v["vev"] for v in spec["sim"])),
                 ("sim-virtual-intervention", any(v["vint"] for v in spec["sim"])),
                 ("sim-missing", any(v["missing"] for v in spec["sim"])),
                 ("sim-partial", any(v["partial"] for v in spec["sim"])),
                 ("shared-sampler-sequence", spec.get("reuse")), ("shared-model-simulate", spec.get("sim_reuse")),
                 ("gibbs-object-reuse", spec["gibbs"].get("reuse")), ("tiny-cpd-entries", spec.get("tiny")),
                 ("evidence-none", spec["rej"].get("ev_none") or spec["lw"].get("ev_none")),
                 ("sim-empty-containers", any(v.get("empty") == "empty" for v in spec["sim"])),
                 ("sim-missing-columns-empty", any(v["missing"] and v["missing"]["columns"] == [] for v in spec["sim"])),
                 ("seed-0", spec["fwd"]["seed"] == 0 or spec["rej"]["seed"] == 0 or spec["lw"]["seed"] == 0)):
        if c:
            ctx.feature(f)
