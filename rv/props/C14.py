"""C14 - model conversions preserve the distribution and produce valid targets.

Observe: BayesianNetwork.to_markov_model / to_junction_tree,
         MarkovNetwork.get_partition_function / to_factor_graph / triangulate(H1..H6 | order, inplace) /
         to_junction_tree, FactorGraph.get_partition_function / to_markov_model / to_junction_tree,
         and the round trip MarkovNetwork -> to_factor_graph() -> to_markov_model().
         Of every target: node / edge lists, the factor list (scope, cardinality, state names, values) and
         the partition function pgmpy itself reports for it.
Oracle : un-normalised joint of the SOURCE = product of ALL listed source factors (duplicates included),
         computed from the spec alone.  The product of the target's factors - read through
         variables / cardinality / state_names / values and aligned per NAMED state - must have the same Z
         and the same normalised joint; state names must be kept; BN->MN graph == moral graph (skeleton +
         married parents); FG->MN graph == pairs inside factor scopes; triangulate: same node set, superset
         of the edges, chordal by an own simplicial-elimination test (not nx.is_chordal); junction tree:
         connected, acyclic, every source factor scope inside a clique, every variable in a clique, running
         intersection checked directly per variable, one potential per clique.
Call sequences (60 % of the cases): ONE BayesianNetwork / MarkovNetwork / FactorGraph object serves a row of
         conversions (to_junction_tree twice, to_markov_model twice, triangulate copy, to_factor_graph,
         triangulate(inplace=True) then to_junction_tree, triangulate again, explicit order); the RESULTS are
         overwritten in between (potential values, factor lists, nodes, edges) and the source and the other
         results must not follow; finally the SOURCE is edited (factor added, possibly on a new edge / CPD
         replaced / factor node added) and converted again - every answer is judged against the oracle for the
         model as it is at that call.
"""
import itertools
import os

import numpy as np

from rv import gen, oracle

_SCALE = float(os.environ.get("RV_CASE_SCALE", "1") or 1)          # smoke-testing the thorough tier only
PLAN = {
    "quick": {"cases": int(5000 * _SCALE), "hashseeds": 3, "shards": 5, "timeout": 900,
              "min_nontrivial": int(3300 * _SCALE)},
    "thorough": {"cases": int(20000 * _SCALE), "hashseeds": 12, "shards": 4, "timeout": 3300,
                 "min_nontrivial": int(13000 * _SCALE)},
}
RULE = ("three source kinds. BN (25 %): random discrete BNs of 1-7 nodes (8 thorough), all gen.py templates incl. "
        "isolated nodes and two parts, cards 1-4, CPD parent order shuffled -> to_markov_model (always) and "
        "to_junction_tree (moral graph connected). MN (50 %) and FG (25 %): 1-7 variables (8 thorough), cards 1-4, "
        "graph templates tree / chordless cycle 4-6 with pendants / ladder / wheel / ER / dense / k-tree (chordal) / "
        "complete / two components / isolated nodes carrying unary factors; factors on edges, triangles and single "
        "variables in random axis order, factor-less edges, several different factors on one scope, EQUAL duplicate "
        "factors (same axis order or transposed), exact zeros (Z > 0 certified by the oracle); variable names strings "
        "or (15 %) integers; state names id / 1-based / permuted ints / strings / tuples / mixed; node, edge and "
        "factor insertion order shuffled. MN: get_partition_function, to_factor_graph (+ Z and to_markov_model of "
        "that target), triangulate with every heuristic H1..H6 and two explicit full orders, inplace and copy, "
        "to_junction_tree when connected. FG: get_partition_function, to_markov_model, to_junction_tree when "
        "connected. Boundary / extreme inputs: variable names that are falsy (0, '') or multi-digit ints; 10 % special "
        "models (one variable with one state, all variables single-state, ONE factor over all variables, only "
        "isolated nodes, a variable with 10-12 states); constant factors, equal values on different scopes; 30 % of "
        "the MN/FG models scale factors (or single entries) by 1e-12..1e8 mixed in one model (summed exponents "
        "within +-200) incl. two different factors on one scope with all entries < 1e-8; 25 % of the BNs have "
        "columns with probabilities 1e-12..1e-3 next to 1-eps; triangulate also gets a lower-case heuristic name "
        "(a refusal is only recorded, a returned graph is judged) and an order given as tuple. 60 % of the cases "
        "run the call-sequence workload on one object (see module docstring). non-trivial: >= 2 variables and "
        ">= 1 edge in the (moral / primal) graph; distinct by digest of the whole spec")
ASSUMPTIONS = ["the product of the spec's factors (numpy broadcasting, cross-checked against the explicit-loop "
               "oracle.joint_table / oracle.mn_joint on small cases) is the reference; <= 4096 cells (16384 thorough)",
               "float64; Z compared at rtol 1e-9, normalised joints per cell at rtol 1e-9 (relative, because "
               "potentials span 1e-12..1e8)",
               "in the call-sequence workload results are edited through numpy in-place writes to factor.values "
               "and list / networkx edits; shared factor OBJECTS between MN and FG targets are not written to",
               "all factors of a model list the states of a variable in the same order",
               "clique-tree targets are demanded only for connected graphs (disconnected ones are only recorded)",
               "triangulate is given full permutations of the node set as explicit orders"]
REACH = [
    "pgmpy.base.DAG:DAG.moralize",
    "pgmpy.models.BayesianNetwork:BayesianNetwork.to_markov_model",
    "pgmpy.models.BayesianNetwork:BayesianNetwork.to_junction_tree",
    "pgmpy.models.MarkovNetwork:MarkovNetwork.to_factor_graph",
    "pgmpy.models.MarkovNetwork:MarkovNetwork.triangulate",
    "pgmpy.models.MarkovNetwork:MarkovNetwork.to_junction_tree",
    "pgmpy.models.MarkovNetwork:MarkovNetwork.get_partition_function",
    "pgmpy.models.FactorGraph:FactorGraph.to_markov_model",
    "pgmpy.models.FactorGraph:FactorGraph.to_junction_tree",
    "pgmpy.models.FactorGraph:FactorGraph.get_partition_function",
    "pgmpy.models.FactorGraph:FactorGraph.check_model",
    "pgmpy.models.ClusterGraph:ClusterGraph.get_partition_function",
    "pgmpy.models.ClusterGraph:ClusterGraph.add_factors",
    "pgmpy.models.JunctionTree:JunctionTree.add_edge",
    "pgmpy.base.UndirectedGraph:UndirectedGraph.is_triangulated",
]
REACH_REQUIRED = list(REACH)
MANIFEST = {
    "text": "On every generated Bayesian network, Markov network and factor graph (duplicate and repeated factors, "
            "unary factors, chordal and non-chordal graphs, isolated nodes, several process hash seeds) the targets of "
            "to_markov_model / to_factor_graph / to_junction_tree carried the same partition function and normalised "
            "joint as the product of all source factors and the source's state names; BN->MN gave the moral graph; "
            "triangulate gave a chordal supergraph on the same nodes for H1..H6 and explicit orders; junction trees were "
            "connected trees covering every factor scope with the running-intersection property.",
    "note": "trusted base: numpy broadcasting product over <= 16384 cells (cross-checked with an explicit loop), the "
            "simplicial-elimination chordality test, float64 arithmetic",
    "technique": "runtime monitoring: reference-model monitor on the conversion entry points, structural validity "
                 "checks of every target, hash-seed fan-out",
}

K_DUP = "jt:equal-factors-collapsed"
K_FGSTR = "mn2fg:string-factor-nodes"
K_ISO = "triangulate:isolated-node"
K_JTNAMES = "c14:jt-clique-potential-state-names"
K_FGDUP = "fg:equal-factor-nodes-merged"
HEURISTICS = ["H1", "H2", "H3", "H4", "H5", "H6"]
CARDS = (1, 2, 2, 2, 3, 3, 4)
BN_SHAPES = ["er", "er", "er", "er_dense", "er_dense", "chain", "collider", "collider", "fork", "family", "family",
             "two_parts", "isolated"]


# ================================================================================ graph helpers (oracle)
def _adj(nodes, pairs):
    nb = {v: set() for v in nodes}
    for a, b in pairs:
        if a != b:
            nb[a].add(b)
            nb[b].add(a)
    return nb


def _eset(pairs):
    return {frozenset(p) for p in pairs if p[0] != p[1]}


def _components(nodes, nb):
    seen, comps = set(), []
    for s in nodes:
        if s in seen:
            continue
        comp, stack = [s], [s]
        seen.add(s)
        while stack:
            x = stack.pop()
            for y in nb[x]:
                if y not in seen:
                    seen.add(y)
                    comp.append(y)
                    stack.append(y)
        comps.append(comp)
    return comps


def _connected(nodes, pairs):
    return len(nodes) <= 1 or len(_components(list(nodes), _adj(nodes, pairs))) == 1


def is_chordal(nodes, pairs):
    """Chordal iff the graph has a perfect elimination order: repeatedly delete a simplicial vertex
    (one whose remaining neighbours are pairwise adjacent); stuck with vertices left => not chordal."""
    nb = {v: set(s) for v, s in _adj(nodes, pairs).items()}
    left = list(nodes)
    while left:
        pick = None
        for v in left:
            ns = list(nb[v])
            if all(ns[j] in nb[ns[i]] for i in range(len(ns)) for j in range(i + 1, len(ns))):
                pick = v
                break
        if pick is None:
            return False
        for u in nb[pick]:
            nb[u].discard(pick)
        del nb[pick]
        left.remove(pick)
    return True


def moral_pairs(bn):
    pairs = [tuple(e) for e in bn["edges"]]
    for v in bn["nodes"]:
        pairs += list(itertools.combinations(bn["cpds"][v]["parents"], 2))
    return pairs


def scope_pairs(factors):
    out = []
    for f in factors:
        out += list(itertools.combinations(f["vars"], 2))
    return out


# ================================================================================ joint oracle
def _farr(src, f):
    return np.array(f["values"], dtype=float).reshape([src["card"][v] for v in f["vars"]])


def joint_of(src, factors):
    """Un-normalised product of `factors` ({"vars", "values" row-major}) as an array over src['nodes']."""
    nodes = src["nodes"]
    J = np.ones([src["card"][v] for v in nodes])
    for f in factors:
        J = J * expand(nodes, f["vars"], _farr(src, f))
    return J


def expand(nodes, vs, arr):
    """Array over `vs` -> broadcastable array over all `nodes` (axes in the order of `nodes`)."""
    pos = [nodes.index(v) for v in vs]
    order = sorted(range(len(vs)), key=lambda i: pos[i])
    arr = np.transpose(arr, order) if len(vs) > 1 else arr
    shape = [1] * len(nodes)
    for i in order:
        shape[pos[i]] = arr.shape[order.index(i)]
    return arr.reshape(shape)


def dup_groups(src):
    """Groups of factor indices that are EQUAL as functions (same variable set, same value for every
    assignment, whatever the axis order)."""
    canon = {}
    for i, f in enumerate(src["factors"]):
        vs = sorted(f["vars"], key=repr)
        arr = _farr(src, f)
        arr = np.transpose(arr, [f["vars"].index(v) for v in vs]) if len(vs) > 1 else arr
        canon.setdefault((tuple(map(repr, vs)), arr.tobytes()), []).append(i)
    return [g for g in canon.values() if len(g) > 1]


def same_joint(A, B):
    """Z and normalised joint equal? returns None or a description."""
    za, zb = float(A.sum()), float(B.sum())
    if not (abs(za - zb) <= 1e-9 * abs(zb) + 1e-300):
        return f"partition function {za!r} != {zb!r}"
    if zb > 0:
        a, b = A / za, B / zb
        # per entry and RELATIVE: potentials span 1e-12 .. 1e8, an absolute tolerance would hide small cells
        d = np.abs(a - b) - 1e-9 * np.maximum(np.abs(a), np.abs(b))
        if d.max() > 1e-290:
            idx = np.unravel_index(int(np.argmax(d)), d.shape)
            return f"normalised joint differs at index {tuple(int(i) for i in idx)}: {float(a[idx])!r} != {float(b[idx])!r}"
    return None


# ================================================================================ generators
def _names(rng, n):
    r = rng.random()
    if r < 0.09:
        return list(range(1, n + 1)), "int"
    if r < 0.16:
        return list(range(n)), "int0"                       # 0 is a falsy node name
    if r < 0.21:
        start = rng.choice([9, 98, 999, 10 ** 6])            # multi-digit, repr order != numeric order
        return [start + i for i in range(n)], "intbig"
    names = [f"m{i}" for i in range(n)]
    if r < 0.26:
        names[rng.randrange(n)] = ""                         # the empty string is a falsy node name too
        return names, "str-empty"
    return names, "str"


def rand_graph(rng, nodes, want):
    """Undirected edge list on `nodes`.  want: 'connected' | 'any' (two components / isolated nodes)."""
    n = len(nodes)
    order = nodes[:]
    rng.shuffle(order)
    if n == 1:
        return [], "single"
    if want == "any":
        tpl = rng.choice(["isolated", "isolated", "two_parts", "isolated_cycle", "isolated_cycle", "sparse"])
    else:
        tpl = rng.choice(["tree", "cycle", "cycle", "cycle", "ladder", "ladder", "wheel", "wheel", "er", "er", "dense",
                          "ktree", "ktree", "complete"])
    edges = []

    def add(a, b):
        if a != b and (a, b) not in edges and (b, a) not in edges:
            edges.append((a, b))

    def tree(vs):
        for i in range(1, len(vs)):
            add(vs[rng.randrange(i)], vs[i])

    def cycle(vs):
        for i in range(len(vs)):
            add(vs[i], vs[(i + 1) % len(vs)])

    if tpl == "tree":
        tree(order)
    elif tpl == "cycle":
        if n < 4:
            tree(order)
            if n == 3:
                add(order[0], order[2])
        else:
            L = rng.randint(4, min(n, 6))
            cycle(order[:L])
            for v in order[L:]:
                add(v, rng.choice(order[:L]))
                if rng.random() < 0.3:
                    add(v, rng.choice(order[:L]))
    elif tpl == "ladder":
        h = n // 2
        a, b = order[:h], order[h:2 * h]
        for i in range(h - 1):
            add(a[i], a[i + 1])
            add(b[i], b[i + 1])
        for i in range(h):
            add(a[i], b[i])
        for v in order[2 * h:]:
            add(v, rng.choice(order[:2 * h]) if h else order[0])
        if not edges:
            tree(order)
    elif tpl == "wheel":
        if n < 5:
            tree(order)
            for i in range(n):
                for j in range(i + 1, n):
                    if rng.random() < 0.5:
                        add(order[i], order[j])
        else:
            hub, rim = order[0], order[1:]
            cycle(rim)
            for v in rim:
                if rng.random() < 0.7:
                    add(hub, v)
            if not any(hub in e for e in edges):
                add(hub, rim[0])
    elif tpl in ("er", "dense"):
        tree(order)
        p = 0.25 if tpl == "er" else 0.6
        for i in range(n):
            for j in range(i + 1, n):
                if rng.random() < p:
                    add(order[i], order[j])
    elif tpl == "ktree":
        k = rng.randint(1, 3)
        for i in range(1, n):
            prev = order[:i]
            if len(prev) <= k:
                for u in prev:
                    add(u, order[i])
            else:
                # attach to an existing clique: a vertex and (k-1) of its earlier neighbours that are a clique
                base = rng.choice(prev)
                cl = [base]
                cand = [u for u in prev if u != base]
                rng.shuffle(cand)
                for u in cand:
                    if len(cl) >= k:
                        break
                    if all(((u, w) in edges or (w, u) in edges) for w in cl):
                        cl.append(u)
                for u in cl:
                    add(u, order[i])
    elif tpl == "complete":
        for i in range(n):
            for j in range(i + 1, n):
                add(order[i], order[j])
    elif tpl == "two_parts":
        h = max(1, n // 2)
        for part in (order[:h], order[h:]):
            tree(part)
            if len(part) >= 4 and rng.random() < 0.6:
                cycle(part)
    elif tpl == "isolated":
        k = rng.randint(1, max(1, n // 3))
        sub = order[k:]
        tree(sub)
        for i in range(len(sub)):
            for j in range(i + 1, len(sub)):
                if rng.random() < 0.25:
                    add(sub[i], sub[j])
    elif tpl == "isolated_cycle":
        k = rng.randint(1, 2)
        sub = order[k:]
        if len(sub) >= 4:
            L = rng.randint(4, min(len(sub), 6))
            cycle(sub[:L])
            for v in sub[L:]:
                add(v, rng.choice(sub[:L]))
        else:
            tree(sub)
    else:  # sparse
        for i in range(1, n):
            if rng.random() < 0.6:
                add(order[rng.randrange(i)], order[i])
    return edges, tpl


def _rand_vals(rng, size, uniform_ok=False):
    if size == 1:
        return [round(rng.choice(gen.GRID) * (1 + rng.randint(0, 3)) * (0.5 + rng.random()), 6)]
    if uniform_ok and rng.random() < 0.06:
        return [rng.choice([1.0, 2.0, 0.25])] * size         # a constant factor (all values equal)
    flat = [round(rng.choice(gen.GRID) * (1 + rng.randint(0, 3)), 6) if rng.random() > 0.1 else 0.0
            for _ in range(size)]
    if all(x == 0 for x in flat) or all(x == flat[0] for x in flat):
        flat[0] = 0.7
        if size > 1:
            flat[-1] = 1.3
    return flat


SPECIALS = ["one-node-card1", "all-card1", "single-factor", "isolated-only", "big-card"]
EXPONENTS = [-12, -9, -6, -3, 0, 0, 3, 6, 8]


def rand_ug_spec(rng, tier, want, special=None):
    """Markov-network / factor-graph spec: nodes, edges, card, states, factors [{"vars", "values"}]."""
    nmax = 8 if tier == "thorough" else 7
    max_joint = 16384 if tier == "thorough" else 4096
    n = rng.choice([1, 2, 3, 3, 4, 4, 4, 5, 5, 5, 6, 6, 6, 7, 7] + ([8, 8] if nmax == 8 else []))
    if special:
        n = {"one-node-card1": 1, "all-card1": rng.randint(2, 5), "single-factor": rng.randint(1, 4),
             "isolated-only": rng.randint(2, 3), "big-card": rng.randint(1, 3)}[special]
    nodes, nk = _names(rng, n)
    kind = rng.choice(gen.STATE_KINDS)
    while True:
        card = {v: rng.choice(CARDS) for v in nodes}
        if special in ("one-node-card1", "all-card1"):
            card = {v: 1 for v in nodes}
        if special == "big-card":
            card = {v: rng.choice((1, 2, 3)) for v in nodes}
            card[rng.choice(nodes)] = rng.choice((10, 11, 12))      # multi-digit cardinality
        tot = 1
        for v in nodes:
            tot *= card[v]
        if tot <= max_joint:
            break
    states = {v: gen.state_names_for(rng, v, card[v], kind) for v in nodes}
    if special == "single-factor":
        edges, tpl = list(itertools.combinations(nodes, 2)), "single-factor"
    elif special == "isolated-only":
        edges, tpl = [], "isolated-only"
    else:
        edges, tpl = rand_graph(rng, nodes, want)
    if special:
        tpl = "special:" + special
    nb = _adj(nodes, edges)
    factors = []

    def mk(vs):
        vs = list(vs)
        rng.shuffle(vs)
        size = 1
        for v in vs:
            size *= card[v]
        return {"vars": vs, "values": _rand_vals(rng, size, uniform_ok=True)}

    p_edge = rng.choice([1.0, 0.8, 0.5])
    if special == "single-factor":
        p_edge = -1.0
        factors.append(mk(nodes))
    for (u, v) in (edges if special != "single-factor" else []):
        if rng.random() < p_edge:
            factors.append(mk([u, v]))
            if rng.random() < 0.12:                 # a second, different factor on the same scope
                factors.append(mk([u, v]))
    tri = [t for t in itertools.combinations(nodes, 3)
           if t[1] in nb[t[0]] and t[2] in nb[t[0]] and t[2] in nb[t[1]]]
    for t in (tri if special != "single-factor" else []):
        if rng.random() < 0.25:
            factors.append(mk(t))
    for v in (nodes if special != "single-factor" else []):
        if rng.random() < 0.25:
            factors.append(mk([v]))
    covered = {v for f in factors for v in f["vars"]}
    for v in nodes:
        if v not in covered:
            if nb[v] and rng.random() < 0.5:
                factors.append(mk([v, sorted(nb[v], key=repr)[0]]))
            else:
                factors.append(mk([v]))
            covered |= set(factors[-1]["vars"])
    # magnitudes far from O(1), mixed inside one model (and sometimes inside one factor); the summed
    # exponents stay within +-200 so that no order of multiplication under- or overflows
    mag = "O(1)"
    if rng.random() < 0.3:
        mag = "mixed"
        lo = hi = 0
        for f in factors:
            per_entry = rng.random() < 0.3
            exps = [rng.choice(EXPONENTS) for _ in f["values"]] if per_entry else [rng.choice(EXPONENTS)] * len(f["values"])
            if lo + min(exps) < -200 or hi + max(exps) > 200:
                continue
            lo, hi = lo + min(exps), hi + max(exps)
            f["values"] = [x * 10.0 ** e for x, e in zip(f["values"], exps)]
        if rng.random() < 0.35 and lo > -180:
            # two DIFFERENT factors on one scope whose entries are all below numpy's default atol (1e-8)
            base = rng.choice(factors)
            for _ in range(2):
                factors.append({"vars": list(base["vars"]),
                                "values": [(0.1 + rng.random()) * 1e-10 for _ in base["values"]]})
    # equal duplicates
    dup = "none"
    r = rng.random()
    if special == "single-factor":
        r = 1.0
    if r < 0.35:
        dup = "equal" if r < 0.2 else "transposed"
        for _ in range(rng.choice([1, 1, 2])):
            f = rng.choice(factors)
            vs, arr = list(f["vars"]), np.array(f["values"]).reshape([card[v] for v in f["vars"]])
            if dup == "transposed" and len(vs) > 1:
                perm = list(range(len(vs)))
                while perm == list(range(len(vs))):
                    rng.shuffle(perm)
                vs = [vs[i] for i in perm]
                arr = np.transpose(arr, perm)
            factors.append({"vars": vs, "values": [float(x) for x in arr.reshape(-1)]})
    if special is None and rng.random() < 0.08:
        # same VALUES on another scope of the same shape (equal bytes, different variables)
        f = rng.choice(factors)
        shp = [card[v] for v in f["vars"]]
        for g in list(factors):
            if g is not f and set(g["vars"]) != set(f["vars"]) and [card[v] for v in g["vars"]] == shp:
                factors.append({"vars": list(g["vars"]), "values": list(f["values"])})
                break
    rng.shuffle(factors)
    spec = {"nodes": nodes, "edges": [list(e) for e in edges], "card": card, "states": states,
            "factors": factors, "kind": kind, "names": nk, "template": tpl, "dup": dup, "mag": mag}
    # certify Z > 0 (otherwise there is no normalised joint to preserve)
    if joint_of(spec, factors).sum() <= 0:
        for f in factors:
            f["values"] = [x if x != 0 else 0.5 for x in f["values"]]
        # keep duplicates equal: zeros were replaced in every factor alike
    return spec


def gen_case(seed, idx, tier):
    rng = gen.rng_for("C14", seed, idx)
    r = rng.random()
    spec = {"build_seed": rng.randrange(10 ** 6)}
    seq_on = rng.random() < 0.6
    if r < 0.25:
        spec["kind"] = "bn"
        bn = gen.rand_bn_spec(rng, n_range=(1, 8 if tier == "thorough" else 7), shape=rng.choice(BN_SHAPES),
                              max_joint=16384 if tier == "thorough" else 4096)
        spec["bn"] = bn
        bn["mag"] = "O(1)"
        if rng.random() < 0.25:
            # probabilities down to 1e-12 next to 1 - 1e-12 in some columns
            bn["mag"] = "extreme"
            for v in bn["nodes"]:
                tab, k = bn["cpds"][v]["table"], bn["card"][v]
                if k < 2:
                    continue
                for j in range(len(tab[0])):
                    if rng.random() < 0.4:
                        eps = rng.choice([1e-12, 1e-9, 1e-6, 1e-3])
                        big = rng.randrange(k)
                        for i in range(k):
                            tab[i][j] = 1.0 - (k - 1) * eps if i == big else eps
        v = rng.choice(bn["nodes"])
        q = 1
        for x in bn["cpds"][v]["parents"]:
            q *= bn["card"][x]
        spec["seq"] = {"on": seq_on, "var": v, "table": gen.rand_cpt(rng, bn["card"][v], q)}
    else:
        spec["kind"] = "mn" if r < 0.75 else "fg"
        want = "any" if (spec["kind"] == "mn" and rng.random() < 0.3) or (spec["kind"] == "fg" and rng.random() < 0.15) \
            else "connected"
        ug = rand_ug_spec(rng, tier, want, special=rng.choice(SPECIALS) if rng.random() < 0.1 else None)
        if spec["kind"] == "fg":
            # the primal graph of a factor graph is what its factors say
            ug["edges"] = [list(e) for e in sorted(_eset(scope_pairs(ug["factors"])), key=lambda s: sorted(map(repr, s)))]
            ug["edges"] = [sorted(e, key=repr) for e in ug["edges"]]
        spec["ug"] = ug
        nodes = ug["nodes"]
        orders = []
        for _ in range(2):
            p = nodes[:]
            rng.shuffle(p)
            orders.append(p)
        spec["orders"] = orders
        spec["inplace_bits"] = [rng.random() < 0.5 for _ in range(10)]
        spec["order_as_tuple"] = rng.random() < 0.5
        spec["h_other_case"] = rng.choice(HEURISTICS).lower()
        # an edit of the SOURCE for the call-sequence workload: one more factor, possibly on a new edge
        card = ug["card"]
        nb = _adj(nodes, [tuple(e) for e in ug["edges"]])
        non_adj = [(a, b) for a, b in itertools.combinations(nodes, 2) if b not in nb[a]]
        new_edge = None
        if spec["kind"] == "fg":
            vs = rng.sample(nodes, rng.randint(1, min(3, len(nodes))))
        elif non_adj and rng.random() < 0.5:
            new_edge = list(rng.choice(non_adj))
            vs = list(new_edge)
        elif ug["edges"] and rng.random() < 0.7:
            vs = list(rng.choice(ug["edges"]))
        else:
            vs = [rng.choice(nodes)]
        rng.shuffle(vs)
        size = 1
        for v in vs:
            size *= card[v]
        f2 = {"vars": vs, "values": _rand_vals(rng, size)}
        if joint_of(ug, ug["factors"] + [f2]).sum() <= 0:        # keep Z > 0 after the edit as well
            f2["values"] = [x if x != 0 else 0.5 for x in f2["values"]]
        spec["seq"] = {"on": seq_on, "factor": f2, "new_edge": new_edge,
                       "h": [rng.choice(HEURISTICS) for _ in range(3)]}
    return spec


# ================================================================================ builders (worker side)
def build_factor(src, f):
    from pgmpy.factors.discrete import DiscreteFactor
    vs = list(f["vars"])
    return DiscreteFactor(vs, [src["card"][v] for v in vs], np.array(f["values"], dtype=float),
                          state_names={v: list(src["states"][v]) for v in vs})


def build_mn(src, rng):
    from pgmpy.models import MarkovNetwork
    m = MarkovNetwork()
    nodes, edges, fs = list(src["nodes"]), [tuple(e) for e in src["edges"]], list(src["factors"])
    rng.shuffle(nodes)
    rng.shuffle(edges)
    rng.shuffle(fs)
    edges = [e if rng.random() < 0.5 else (e[1], e[0]) for e in edges]
    m.add_nodes_from(nodes)
    m.add_edges_from(edges)
    m.add_factors(*[build_factor(src, f) for f in fs])
    return m


def build_fg(src, rng):
    from pgmpy.models import FactorGraph
    g = FactorGraph()
    nodes, fs = list(src["nodes"]), list(src["factors"])
    rng.shuffle(nodes)
    rng.shuffle(fs)
    g.add_nodes_from(nodes)
    phis = [build_factor(src, f) for f in fs]
    for phi in phis:
        g.add_node(phi)
        for v in phi.variables:
            g.add_edge(v, phi)
    g.add_factors(*phis)
    return g


# ================================================================================ reading targets
class Malformed(Exception):
    pass


def read_factor(f, src):
    """(vars, values aligned to the spec's state order, [(var, names)] whose names were lost).
    Reads only variables / cardinality / state_names / values."""
    from rv.build import to_np
    vs = list(f.variables)
    vals = np.asarray(to_np(f.values), dtype=float)
    card = [int(c) for c in f.cardinality]
    if list(vals.shape) != card:
        raise Malformed(f"values shape {vals.shape} != cardinality {card}")
    if len(set(map(repr, vs))) != len(vs):
        raise Malformed(f"repeated variable in scope {vs}")
    lost = []
    for ax, v in enumerate(vs):
        if v not in src["card"]:
            raise Malformed(f"unknown variable {v!r} in scope {vs}")
        if card[ax] != src["card"][v]:
            raise Malformed(f"cardinality of {v!r} is {card[ax]}, source says {src['card'][v]}")
        names, want = list(f.state_names[v]), list(src["states"][v])
        if names == want:
            continue
        if names == list(range(len(want))):
            lost.append((v, names))                  # default labels: positional reading
        elif len(names) == len(want) and all(x in names for x in want):
            vals = np.take(vals, [names.index(x) for x in want], axis=ax)     # same names, other order
        else:
            lost.append((v, names))
    return vs, vals, lost


def product_of(factors, src):
    """(joint array over src nodes, lost-name list [(scope, var, names)]) of a list of pgmpy factors."""
    nodes = src["nodes"]
    J = np.ones([src["card"][v] for v in nodes])
    lost = []
    for f in factors:
        vs, vals, l = read_factor(f, src)
        J = J * expand(nodes, vs, vals)
        lost += [(tuple(vs), v, names) for v, names in l]
    return J, lost


def names_verdict(ctx, label, lost, src, jt=False, **detail):
    if not lost:
        return ctx.ok()
    scope, v, names = lost[0]
    default = names == list(range(src["card"][v]))
    key = K_JTNAMES if (jt and default) else "c14:state-names-lost"
    ctx.violation(key, f"{label}: factor on {list(scope)} names the states of {v!r} {names!r}, the source says "
                  f"{list(src['states'][v])!r} ({len(lost)} variable/factor pairs affected)", **detail)


def check_factors(ctx, label, factors, src, expect_n=None, jt=False, wrong_key=None, **detail):
    """Product of the target's factors vs the source joint + state names.  Returns True if all held."""
    try:
        factors = list(factors)
        J, lost = product_of(factors, src)
    except Exception as e:
        ctx.violation("c14:malformed-result", f"{label}: cannot read target factors: {type(e).__name__}: {e}", **detail)
        return False
    good = True
    if expect_n is not None and len(factors) != expect_n:
        ctx.violation(wrong_key or "c14:factor-count", f"{label}: target lists {len(factors)} factors, the source {expect_n} "
                      "(every original factor must be used exactly once)", **detail)
        good = False
    diff = same_joint(J, src["J"])
    if diff:
        good = False
        key = wrong_key or "c14:wrong-product"
        if jt and not wrong_key:
            key = classify_jt_product(J, src) or "c14:jt-wrong-product"
        ctx.violation(key, f"{label}: product of target factors vs product of all source factors: {diff}", **detail)
    else:
        ctx.ok(2)
    names_verdict(ctx, label, lost, src, jt=jt, **detail)
    return good and not lost


def classify_jt_product(J, src):
    """Structural classifier for jt:equal-factors-collapsed: the source lists factors that are equal as
    functions AND the observed product is exactly the product with some of the later copies left out."""
    groups = dup_groups(src)
    if not groups:
        return None
    cand = [i for g in groups for i in g[1:]][:8]
    for k in range(1, len(cand) + 1):
        for S in itertools.combinations(cand, k):
            rest = [f for i, f in enumerate(src["factors"]) if i not in S]
            if same_joint(J, joint_of(src, rest)) is None:
                return K_DUP
    return None


def check_Z(ctx, label, r, src, key_exc=None, **detail):
    if ctx.failed(r):
        ctx.violation(key_exc or f"c14:exception:{r.type}@{r.where}", f"{label} raised {r!r}", **detail)
        return False
    try:
        z = float(r)
    except Exception as e:
        ctx.violation("c14:malformed-result", f"{label}: not a number: {r!r}", **detail)
        return False
    return ctx.expect(abs(z - src["Z"]) <= 1e-9 * abs(src["Z"]), "c14:wrong-partition-function",
                      f"{label} = {z!r}, sum over the product of all source factors = {src['Z']!r}", **detail)


def graph_of(g):
    """(node list, set of frozenset edges) of a networkx-like target, read defensively."""
    nodes = list(g.nodes())
    edges = set()
    for e in g.edges():
        a, b = tuple(e)[:2]
        edges.add(frozenset((a, b)))
    return nodes, edges


def check_graph(ctx, label, g, nodes, pairs, key, **detail):
    try:
        gn, ge = graph_of(g)
    except Exception as e:
        ctx.violation("c14:malformed-result", f"{label}: cannot read graph: {type(e).__name__}: {e}", **detail)
        return False
    want = _eset(pairs)
    ok = True
    if len(gn) != len(nodes) or set(gn) != set(nodes):
        ok = False
        ctx.violation(key + "-nodes", f"{label}: nodes {sorted(gn, key=repr)} expected {sorted(nodes, key=repr)}", **detail)
    if ge != want:
        ok = False
        ctx.violation(key + "-edges", f"{label}: unexpected edges {sorted(map(sorted_pair, ge - want))}, "
                      f"missing edges {sorted(map(sorted_pair, want - ge))}", **detail)
    if ok:
        ctx.ok(2)
    return ok


def sorted_pair(e):
    return tuple(sorted(e, key=repr))


# ================================================================================ junction tree
def check_jt(ctx, label, jt, src, primal_pairs, **detail):
    """Structural validity + distribution of a junction-tree target."""
    try:
        cliques = [tuple(c) for c in jt.nodes()]
        tedges = [(tuple(a), tuple(b)) for a, b in (tuple(e)[:2] for e in jt.edges())]
        pots = list(jt.factors)
    except Exception as e:
        return ctx.violation("c14:malformed-result", f"{label}: cannot read junction tree: {type(e).__name__}: {e}", **detail)
    detail = dict(detail, cliques=cliques, tree_edges=tedges)
    nodes = src["nodes"]
    ctx.note("jt_cliques", len(cliques))
    if len(cliques) >= 2:
        ctx.feature("jt>=2cliques")
    # clique nodes are sets of known variables
    bad = [c for c in cliques if any(v not in src["card"] for v in c) or len(set(map(repr, c))) != len(c)]
    if bad or not cliques:
        return ctx.violation("c14:jt-malformed-clique", f"{label}: clique nodes {bad or cliques}", **detail)
    # tree: connected and acyclic
    cnb = _adj(cliques, tedges)
    comps = _components(cliques, cnb)
    ctx.expect(len(comps) == 1, "c14:jt-not-connected", f"{label}: clique tree has {len(comps)} components", **detail)
    ctx.expect(len({frozenset(e) for e in tedges}) == len(cliques) - len(comps), "c14:jt-cycle",
               f"{label}: {len(tedges)} edges on {len(cliques)} cliques in {len(comps)} components: not a tree", **detail)
    # every variable and every source factor scope inside a clique
    csets = [set(c) for c in cliques]
    miss = [v for v in nodes if not any(v in c for c in csets)]
    ctx.expect(not miss, "c14:jt-variable-not-covered", f"{label}: variables {miss} in no clique", **detail)
    unc = [f["vars"] for f in src["factors"] if not any(set(f["vars"]) <= c for c in csets)]
    ctx.expect(not unc, "c14:jt-scope-not-covered", f"{label}: factor scopes {unc[:3]} inside no clique", **detail)
    # running intersection, directly: cliques containing v induce a connected subtree
    for v in nodes:
        holder = [c for c in cliques if v in c]
        if len(holder) <= 1:
            ctx.ok()
            continue
        sub = {c: {d for d in cnb[c] if v in d} for c in holder}
        k = len(_components(holder, sub))
        ctx.expect(k == 1, "c14:jt-running-intersection",
                   f"{label}: the {len(holder)} cliques containing {v!r} form {k} separate subtrees", var=v, **detail)
    # adjacent cliques share a variable (sepsets are not empty in a connected model's tree)
    # one potential per clique, on exactly that clique
    pscopes = []
    try:
        pscopes = [frozenset(p.variables) for p in pots]
    except Exception as e:
        ctx.violation("c14:malformed-result", f"{label}: cannot read potentials: {e}", **detail)
    want = sorted((frozenset(c) for c in cliques), key=lambda s: sorted(map(repr, s)))
    got = sorted(pscopes, key=lambda s: sorted(map(repr, s)))
    ctx.expect(got == want, "c14:jt-potential-scopes",
               f"{label}: potential scopes {[sorted(s, key=repr) for s in got]} != cliques "
               f"{[sorted(s, key=repr) for s in want]}", **detail)
    # distribution
    good = check_factors(ctx, label + " clique potentials", pots, src, jt=True, **detail)
    r = ctx.call(jt.get_partition_function)
    if good or ctx.failed(r):
        check_Z(ctx, label + ".get_partition_function()", r, src, **detail)
    return good


# ================================================================================ case runners
def _features(ctx, src, pairs):
    ctx.feature("names:" + src.get("names", "str"))
    ctx.feature("states:" + src["kind"])
    if 1 in src["card"].values():
        ctx.feature("card1")
    if any(len(f["vars"]) == 1 for f in src["factors"]):
        ctx.feature("unary")
    if any(len(f["vars"]) >= 3 for f in src["factors"]):
        ctx.feature("scope>=3")
    if dup_groups(src):
        ctx.feature("equal-duplicates")
    sc = {}
    for f in src["factors"]:
        sc[frozenset(f["vars"])] = sc.get(frozenset(f["vars"]), 0) + 1
    if any(k > 1 for k in sc.values()):
        ctx.feature("repeated-scope")
    nb = _adj(src["nodes"], pairs)
    if any(not nb[v] for v in src["nodes"]) and len(src["nodes"]) > 1:
        ctx.feature("isolated-node")
    ctx.feature("chordal" if is_chordal(src["nodes"], pairs) else "non-chordal")
    ctx.feature("connected" if _connected(src["nodes"], pairs) else "disconnected")
    if any(x == 0 for f in src["factors"] for x in f["values"]):
        ctx.feature("zeros")
    if "mag" in src:
        ctx.feature("mag:" + src["mag"])
    if len(src["factors"]) == 1:
        ctx.feature("single-factor")
    if all(c == 1 for c in src["card"].values()):
        ctx.feature("all-card1")
    if max(src["card"].values()) >= 10:
        ctx.feature("card>=10")


def run_bn(spec, ctx):
    import random
    from rv import build
    bn = spec["bn"]
    nodes, card = bn["nodes"], bn["card"]
    factors = []
    for v in nodes:
        c = bn["cpds"][v]
        factors.append({"vars": [v] + list(c["parents"]),
                        "values": [float(x) for row in c["table"] for x in row]})
    src = {"nodes": nodes, "card": card, "states": bn["states"], "factors": factors, "kind": bn["kind"]}
    src["J"] = joint_of(src, factors)
    _, Jloop = oracle.joint_table(bn)                     # self-check of the broadcasting product
    assert np.allclose(src["J"], Jloop, rtol=1e-12, atol=0), "oracle self-check failed (BN joint)"
    src["Z"] = float(src["J"].sum())
    pairs = moral_pairs(bn)
    ctx.nontrivial = len(nodes) >= 2 and len(bn["edges"]) >= 1
    ctx.feature("kind:bn")
    ctx.feature("shape-married" if len(_eset(pairs)) > len(_eset(bn["edges"])) else "shape-no-marriage")
    _features(ctx, src, pairs)
    ctx.feature("mag:" + bn.get("mag", "O(1)"))
    ctx.xcell["Z"] = src["Z"]
    detail = dict(edges=bn["edges"], parents={v: bn["cpds"][v]["parents"] for v in nodes})

    model = build.bayesian_network(bn, rng=random.Random(spec["build_seed"]))
    mm = ctx.call(model.to_markov_model)
    if ctx.failed(mm):
        ctx.violation(f"c14:exception:{mm.type}@{mm.where}", f"BN.to_markov_model raised {mm!r}", **detail)
    else:
        check_graph(ctx, "BN.to_markov_model", mm, nodes, pairs, "c14:not-moral-graph", **detail)
        good = check_factors(ctx, "BN.to_markov_model", getattr(mm, "factors", None), src, expect_n=len(nodes), **detail)
        r = ctx.call(mm.get_partition_function)
        if good or ctx.failed(r):
            check_Z(ctx, "BN.to_markov_model().get_partition_function()", r, src, **detail)
    if _connected(nodes, pairs):
        jt = ctx.call(model.to_junction_tree)
        if ctx.failed(jt):
            ctx.violation(f"c14:exception:{jt.type}@{jt.where}", f"BN.to_junction_tree raised {jt!r}", **detail)
        else:
            check_jt(ctx, "BN.to_junction_tree", jt, src, pairs, **detail)
    else:
        jt = ctx.call(model.to_junction_tree)
        ctx.note("jt-disconnected-refused" if ctx.failed(jt) else "jt-disconnected-returned")
    if spec["seq"]["on"]:
        seq_bn(spec, ctx, bn, src, pairs, detail)


def _src_of(ug):
    src = dict(ug)
    src["J"] = joint_of(ug, ug["factors"])
    if src["J"].size <= 512:                               # self-check of the broadcasting product
        _, Jloop = oracle.mn_joint(ug)
        assert np.allclose(src["J"], Jloop, rtol=1e-12, atol=0), "oracle self-check failed (MN joint)"
    src["Z"] = float(src["J"].sum())
    assert src["Z"] > 0
    return src


def run_mn(spec, ctx):
    import random
    ug = spec["ug"]
    src = _src_of(ug)
    nodes, pairs = ug["nodes"], [tuple(e) for e in ug["edges"]]
    nb = _adj(nodes, pairs)
    connected = _connected(nodes, pairs)
    chordal = is_chordal(nodes, pairs)
    isolated = [v for v in nodes if not nb[v]] if len(nodes) > 1 else []
    ctx.nontrivial = len(nodes) >= 2 and len(pairs) >= 1
    ctx.feature("kind:mn")
    ctx.feature("tpl:" + ug["template"])
    _features(ctx, src, pairs)
    ctx.xcell["Z"] = src["Z"]
    detail = dict(edges=ug["edges"], scopes=[f["vars"] for f in ug["factors"]])
    mk = lambda: build_mn(ug, random.Random(spec["build_seed"]))

    model = mk()
    chk = ctx.call(model.check_model)
    if ctx.failed(chk):
        # the generator certifies validity (every variable in a factor, every scope a clique)
        ctx.violation(f"c14:exception:{chk.type}@{chk.where}", f"valid Markov network refused by check_model: {chk!r}", **detail)
        return
    check_Z(ctx, "MN.get_partition_function()", ctx.call(model.get_partition_function), src, **detail)

    # ---- MN -> factor graph
    fg = ctx.call(model.to_factor_graph)
    if ctx.failed(fg):
        ctx.violation(_fg_exc_key(fg, ug), f"MN.to_factor_graph raised {fg!r}", **detail)
    else:
        check_fg_target(ctx, fg, model, src, **detail)

    # ---- triangulate
    jobs = [(h, None) for h in HEURISTICS] + [(None, o) for o in spec["orders"]] + [(spec["h_other_case"], None)]
    for j, (h, order) in enumerate(jobs):
        inplace = spec["inplace_bits"][j]
        modes = [inplace] if ctx.tier == "quick" else [False, True]
        for ip in modes:
            run_triangulate(ctx, mk(), ug, src, h, order, ip, chordal, isolated, lenient=(j == 8),
                            as_tuple=(j == 7 and spec["order_as_tuple"]), **detail)

    # ---- junction tree
    model = mk()
    jt = ctx.call(model.to_junction_tree)
    if connected:
        if ctx.failed(jt):
            ctx.violation(f"c14:exception:{jt.type}@{jt.where}", f"MN.to_junction_tree raised {jt!r}", **detail)
        else:
            check_jt(ctx, "MN.to_junction_tree", jt, src, pairs, **detail)
    else:
        ctx.note("jt-disconnected-refused" if ctx.failed(jt) else "jt-disconnected-returned")
    if spec["seq"]["on"]:
        seq_mn(spec, ctx, ug, src, pairs, connected, detail)


def _fg_exc_key(fg, ug):
    if fg.type == "TypeError" and ug["names"].startswith("int") and "to_factor_graph" in fg.where:
        return K_FGSTR               # the factor node is a *string* glued from the variable names
    return f"c14:exception:{fg.type}@{fg.where}"


def check_fg_target(ctx, fg, model, src, **detail):
    """Target of MarkovNetwork.to_factor_graph."""
    nodes = src["nodes"]
    label = "MN.to_factor_graph"
    try:
        gn, ge = graph_of(fg)
        facs = list(fg.factors)
    except Exception as e:
        return ctx.violation("c14:malformed-result", f"{label}: cannot read factor graph: {type(e).__name__}: {e}", **detail)
    varset = set(nodes)
    fnodes = [x for x in gn if not (_hashable_in(x, varset))]
    ctx.expect(all(_hashable_in(v, set(gn)) for v in nodes), "c14:fg-variable-missing",
               f"{label}: variable nodes missing from the factor graph", **detail)
    # bipartite: no variable-variable / factor-factor edge; each factor's scope is the neighbourhood of a factor node
    bad = [tuple(e) for e in ge if len([x for x in e if _hashable_in(x, varset)]) != 1]
    ctx.expect(not bad, "c14:fg-not-bipartite", f"{label}: edges not between a variable and a factor node: {bad[:3]}", **detail)
    fnb = {}
    for e in ge:
        vs = [x for x in e if _hashable_in(x, varset)]
        fs = [x for x in e if not _hashable_in(x, varset)]
        if len(vs) == 1 and len(fs) == 1:
            fnb.setdefault(fs[0], set()).add(vs[0])
    try:
        scopes = [frozenset(f.variables) for f in facs]
    except Exception as e:
        scopes = []
    miss = [sorted(s, key=repr) for s in scopes if s not in [frozenset(x) for x in fnb.values()]]
    ctx.expect(not miss, "c14:fg-scope-without-node", f"{label}: no factor node whose neighbours are {miss[:3]}", **detail)
    good = check_factors(ctx, label, facs, src, expect_n=len(src["factors"]), **detail)
    # the target's own partition function and the way back
    string_nodes = [x for x in fnodes if isinstance(x, str)]
    for name, fn in (("get_partition_function", fg.get_partition_function), ("to_markov_model", fg.to_markov_model)):
        r = ctx.call(fn)
        lab = f"MN.to_factor_graph().{name}()"
        if ctx.failed(r):
            key = f"c14:exception:{r.type}@{r.where}"
            if r.type == "ValueError" and string_nodes and neutral_fg_ok(ctx, facs, src, name):
                key = K_FGSTR
            ctx.violation(key, f"{lab} raised {r!r}; factor nodes of the target: {fnodes[:4]}", **detail)
        elif name == "get_partition_function":
            if good:
                check_Z(ctx, lab, r, src, **detail)
        else:
            check_graph(ctx, lab, r, nodes, scope_pairs(src["factors"]), "c14:fg2mn-graph", **detail)
            check_factors(ctx, lab, getattr(r, "factors", None), src, expect_n=len(src["factors"]), **detail)


def _hashable_in(x, s):
    try:
        return x in s
    except TypeError:
        return False


def neutral_fg_ok(ctx, facs, src, name):
    """Neutralised re-run for mn2fg:string-factor-nodes: the same factor objects wired to factor-OBJECT nodes.
    If equal duplicates exist such a graph cannot be built (fg:equal-factor-nodes-merged), the structural
    predicate (string factor nodes) alone decides."""
    if dup_groups(src):
        return True
    from pgmpy.models import FactorGraph
    try:
        g = FactorGraph()
        g.add_nodes_from(src["nodes"])
        for phi in facs:
            g.add_node(phi)
            for v in phi.variables:
                g.add_edge(v, phi)
        g.add_factors(*facs)
        r = getattr(g, name)()
        if name == "get_partition_function":
            return abs(float(r) - src["Z"]) <= 1e-9 * src["Z"]
        return True
    except Exception:
        return False


def run_triangulate(ctx, model, ug, src, h, order, inplace, chordal, isolated, neutral=False, out=None,
                    lenient=False, as_tuple=False, **detail):
    nodes, pairs = ug["nodes"], [tuple(e) for e in ug["edges"]]
    kw = dict(heuristic=h) if h else dict(order=tuple(order) if as_tuple else list(order))
    label = f"MN.triangulate({'heuristic=' + h if h else 'order=' + repr(kw['order'])}, inplace={inplace})"
    r = ctx.call(model.triangulate, inplace=inplace, **kw)
    target = model if inplace else r
    if out is not None:
        out["target"] = None if ctx.failed(r) else target
    problems = []
    if ctx.failed(r) and lenient:
        # a heuristic name outside H1..H6 may be refused; a RETURNED result is judged like any other
        ctx.note("triangulate-other-case-refused")
        return False
    if ctx.failed(r):
        problems.append((f"c14:exception:{r.type}@{r.where}", f"{label} raised {r!r}"))
    else:
        try:
            gn, ge = graph_of(target)
        except Exception as e:
            problems.append(("c14:malformed-result", f"{label}: cannot read result: {type(e).__name__}: {e}"))
            gn = None
        if gn is not None:
            if len(gn) != len(nodes) or set(gn) != set(nodes):
                problems.append(("c14:triangulate-nodes", f"{label}: result nodes {sorted(gn, key=repr)}, "
                                 f"source nodes {sorted(nodes, key=repr)}"))
            lostE = _eset(pairs) - ge
            if lostE:
                problems.append(("c14:triangulate-lost-edges", f"{label}: source edges missing {sorted(map(sorted_pair, lostE))}"))
            known = [e for e in ge if all(x in ug["card"] for x in e) and len(e) == 2]
            if len(known) != len(ge):
                problems.append(("c14:triangulate-bad-edge", f"{label}: edges on unknown nodes / self loops"))
            if not is_chordal(sorted(set(gn) | set(nodes), key=repr), [tuple(e) for e in known]):
                problems.append(("c14:triangulate-not-chordal", f"{label}: result is not chordal; edges "
                                 f"{sorted(map(sorted_pair, ge))}"))
    if neutral:
        return not problems
    if not problems:
        ctx.ok(3)
        if inplace:
            # the model still holds its factors: the distribution must be untouched
            z = ctx.call(model.get_partition_function)
            check_Z(ctx, label + " then get_partition_function()", z, src, **detail)
        return True
    # structural classifier for triangulate:isolated-node: a non-chordal graph with an isolated node, and the
    # same call on the same model without its isolated nodes is fine
    keyed = False
    if isolated and not chordal:
        sub = dict(ug)
        keep = [v for v in nodes if v not in isolated]
        sub["nodes"] = keep
        sub["factors"] = [f for f in ug["factors"] if not (set(f["vars"]) & set(isolated))]
        sub["card"] = {v: ug["card"][v] for v in keep}
        sub["states"] = {v: ug["states"][v] for v in keep}
        import random
        m2 = build_mn(sub, random.Random(1))
        o2 = [v for v in order if v in keep] if order else None
        keyed = run_triangulate(ctx, m2, sub, None, h, o2, inplace, False, [], neutral=True)
    for key, what in problems:
        ctx.violation(K_ISO if keyed else key, what + (f" [graph has isolated nodes {isolated}]" if keyed else ""), **detail)
    return False


def run_fg(spec, ctx):
    import random
    ug = spec["ug"]
    src = _src_of(ug)
    nodes = ug["nodes"]
    pairs = scope_pairs(ug["factors"])
    connected = _connected(nodes, pairs)
    ctx.nontrivial = len(nodes) >= 2 and len(_eset(pairs)) >= 1
    ctx.feature("kind:fg")
    _features(ctx, src, pairs)
    ctx.xcell["Z"] = src["Z"]
    detail = dict(scopes=[f["vars"] for f in ug["factors"]])
    g = build_fg(ug, random.Random(spec["build_seed"]))
    # structural observation used by the classifier: equal factors are ONE networkx node
    try:
        n_fnodes = len([x for x in g.nodes() if not _hashable_in(x, set(nodes))])
    except Exception:
        n_fnodes = -1
    merged = 0 <= n_fnodes < len(ug["factors"])
    if merged:
        ctx.feature("fg-factor-nodes-merged")

    def exc_key(r):
        if merged and dup_groups(src) and r.type == "ValueError":
            return K_FGDUP
        return f"c14:exception:{r.type}@{r.where}"

    z = ctx.call(g.get_partition_function)
    check_Z(ctx, "FG.get_partition_function()", z, src, key_exc=exc_key(z) if ctx.failed(z) else None, **detail)
    mm = ctx.call(g.to_markov_model)
    if ctx.failed(mm):
        ctx.violation(exc_key(mm), f"FG.to_markov_model raised {mm!r}"
                      + (f" [{len(ug['factors'])} factors but {n_fnodes} factor nodes: equal factors are one node]" if merged else ""),
                      **detail)
    else:
        check_graph(ctx, "FG.to_markov_model", mm, nodes, pairs, "c14:fg2mn-graph", **detail)
        good = check_factors(ctx, "FG.to_markov_model", getattr(mm, "factors", None), src, expect_n=len(ug["factors"]), **detail)
        r = ctx.call(mm.get_partition_function)
        if good or ctx.failed(r):
            check_Z(ctx, "FG.to_markov_model().get_partition_function()", r, src, **detail)
    jt = ctx.call(g.to_junction_tree)
    if connected:
        if ctx.failed(jt):
            ctx.violation(exc_key(jt), f"FG.to_junction_tree raised {jt!r}", **detail)
        else:
            check_jt(ctx, "FG.to_junction_tree", jt, src, pairs, **detail)
    else:
        ctx.note("jt-disconnected-refused" if ctx.failed(jt) else "jt-disconnected-returned")
    if spec["seq"]["on"] and not merged:
        seq_fg(spec, ctx, ug, src, pairs, connected, detail)


def run_case(spec, ctx):
    {"bn": run_bn, "mn": run_mn, "fg": run_fg}[spec["kind"]](spec, ctx)


# ================================================================================ call sequences on ONE object
# One model object serves several different conversions in a row, results are edited in between, finally the
# SOURCE is edited; every answer is judged against the oracle for the model as it is at THAT call.
def _scale_potentials(ctx, obj):
    """Edit a RESULT in place: overwrite the values of all its factors."""
    def edit():
        for p in obj.factors:
            p.values *= 3.0
            p.values.flat[0] = 0.123
    return not ctx.failed(ctx.call(edit))


def _source_intact(ctx, tag, model, src, nodes, pairs, n_factors, **detail):
    if pairs is not None:
        check_graph(ctx, f"source after {tag}", model, nodes, pairs, "c14:source-modified", **detail)
    facs = getattr(model, "factors", None)
    check_factors(ctx, f"source factors after {tag}", facs, src, expect_n=n_factors,
                  wrong_key="c14:source-modified", **detail)


def _jt_twice(ctx, L, model, src, pairs, detail):
    """to_junction_tree twice on one object; the first result is overwritten, the second must not change."""
    jts = []
    for k in (1, 2):
        jt = ctx.call(model.to_junction_tree)
        if ctx.failed(jt):
            ctx.violation(f"c14:exception:{jt.type}@{jt.where}", f"{L}: to_junction_tree (call {k}) raised {jt!r}", **detail)
            return
        check_jt(ctx, f"{L}: to_junction_tree (call {k})", jt, src, pairs, **detail)
        jts.append(jt)
    if _scale_potentials(ctx, jts[0]):
        try:
            pots = list(jts[1].factors)
        except Exception:
            pots = None
        check_factors(ctx, f"{L}: second junction tree after overwriting the first one's potentials", pots, src,
                      jt=True, wrong_key="c14:results-aliased", **detail)


def seq_mn(spec, ctx, ug, src, pairs, connected, detail):
    import random
    sq = spec["seq"]
    nodes = ug["nodes"]
    L = "sequence on one MarkovNetwork"
    detail = dict(detail, sequence=True)
    ctx.feature("seq:mn")
    model = build_mn(ug, random.Random(spec["build_seed"] + 1))
    nf = len(ug["factors"])
    check_Z(ctx, f"{L}: get_partition_function()", ctx.call(model.get_partition_function), src, **detail)
    if connected:
        _jt_twice(ctx, L, model, src, pairs, detail)
        _source_intact(ctx, "to_junction_tree x2 and overwriting the result", model, src, nodes, pairs, nf, **detail)
    # a triangulated COPY is edited: the source graph must not follow
    out = {}
    nb = _adj(nodes, pairs)
    isolated = [v for v in nodes if not nb[v]] if len(nodes) > 1 else []
    run_triangulate(ctx, model, ug, src, sq["h"][0], None, False, is_chordal(nodes, pairs), isolated, out=out, **detail)
    tgt = out.get("target")
    if tgt is not None and tgt is not model:
        def edit():
            if len(nodes) >= 2:
                tgt.remove_node(nodes[0])
            tgt.add_edge("__x", "__y")
        ctx.call(edit)
        _source_intact(ctx, "editing the triangulated copy", model, src, nodes, pairs, nf, **detail)
    # factor graph target edited structurally (its factor LIST is its own)
    fg = ctx.call(model.to_factor_graph)
    if ctx.failed(fg):
        if _fg_exc_key(fg, ug) != K_FGSTR:
            ctx.violation(_fg_exc_key(fg, ug), f"{L}: to_factor_graph raised {fg!r}", **detail)
    else:
        check_factors(ctx, f"{L}: to_factor_graph", getattr(fg, "factors", None), src, expect_n=nf, **detail)

        def edit_fg():
            fg.add_node("__junk")
            fg.factors.pop()
        ctx.call(edit_fg)
        _source_intact(ctx, "editing the factor-graph target", model, src, nodes, pairs, nf, **detail)
    # triangulate IN PLACE, then convert the same object
    ok = run_triangulate(ctx, model, ug, src, sq["h"][1], None, True, is_chordal(nodes, pairs), isolated, **detail)
    if not ok:
        return
    try:
        _, ge = graph_of(model)
        pairs2 = [tuple(e) for e in ge]
    except Exception:
        return
    ug2 = dict(ug, edges=[list(sorted_pair(e)) for e in pairs2])
    _source_intact(ctx, "triangulate(inplace=True)", model, src, nodes, None, nf, **detail)
    if connected:
        jt = ctx.call(model.to_junction_tree)
        if ctx.failed(jt):
            ctx.violation(f"c14:exception:{jt.type}@{jt.where}", f"{L}: to_junction_tree after triangulate(inplace=True) "
                          f"raised {jt!r}", **detail)
        else:
            check_jt(ctx, f"{L}: to_junction_tree after triangulate(inplace=True)", jt, src, pairs2, **detail)
    # again in place (already chordal), other heuristic; then an explicit order on the same object
    run_triangulate(ctx, model, ug2, src, sq["h"][2], None, True, True, [], **detail)
    run_triangulate(ctx, model, ug2, src, None, spec["orders"][0], False, True, [], **detail)
    # ---- edit the SOURCE and convert again: nothing may be remembered from before the edit
    f2 = sq["factor"]
    ug3 = dict(ug2, factors=list(ug["factors"]) + [f2])
    if sq["new_edge"]:
        ug3["edges"] = ug2["edges"] + [list(sq["new_edge"])]

    def edit_src():
        if sq["new_edge"]:
            model.add_edge(*sq["new_edge"])
        model.add_factors(build_factor(ug, f2))
    if ctx.failed(ctx.call(edit_src)):
        return
    src3 = _src_of(ug3)
    pairs3 = [tuple(e) for e in ug3["edges"]]
    check_Z(ctx, f"{L}: get_partition_function() after adding a factor", ctx.call(model.get_partition_function), src3, **detail)
    if _connected(nodes, pairs3):
        jt = ctx.call(model.to_junction_tree)
        if ctx.failed(jt):
            ctx.violation(f"c14:exception:{jt.type}@{jt.where}", f"{L}: to_junction_tree after adding a factor raised {jt!r}", **detail)
        else:
            check_jt(ctx, f"{L}: to_junction_tree after adding a factor", jt, src3, pairs3, **detail)
    fg = ctx.call(model.to_factor_graph)
    if not ctx.failed(fg):
        check_factors(ctx, f"{L}: to_factor_graph after adding a factor", getattr(fg, "factors", None), src3,
                      expect_n=nf + 1, **detail)
    run_triangulate(ctx, model, ug3, src3, sq["h"][0], None, False, is_chordal(nodes, pairs3), [], **detail)


def seq_fg(spec, ctx, ug, src, pairs, connected, detail):
    import random
    sq = spec["seq"]
    nodes = ug["nodes"]
    L = "sequence on one FactorGraph"
    detail = dict(detail, sequence=True)
    ctx.feature("seq:fg")
    g = build_fg(ug, random.Random(spec["build_seed"] + 1))
    nf = len(ug["factors"])
    mms = []
    for k in (1, 2):
        mm = ctx.call(g.to_markov_model)
        if ctx.failed(mm):
            ctx.violation(f"c14:exception:{mm.type}@{mm.where}", f"{L}: to_markov_model (call {k}) raised {mm!r}", **detail)
            return
        check_graph(ctx, f"{L}: to_markov_model (call {k})", mm, nodes, pairs, "c14:fg2mn-graph", **detail)
        check_factors(ctx, f"{L}: to_markov_model (call {k})", getattr(mm, "factors", None), src, expect_n=nf, **detail)
        mms.append(mm)
        if k == 1:
            check_Z(ctx, f"{L}: get_partition_function()", ctx.call(g.get_partition_function), src, **detail)

    # edit the first Markov-network target structurally (node / edge / factor LIST are its own)
    def edit():
        m = mms[0]
        m.add_edge("__x", "__y")
        m.factors.pop()
        if len(nodes) >= 2:
            m.remove_node(nodes[-1])
    ctx.call(edit)
    check_graph(ctx, f"{L}: second Markov network after editing the first", mms[1], nodes, pairs, "c14:results-aliased", **detail)
    check_factors(ctx, f"{L}: second Markov network after editing the first", getattr(mms[1], "factors", None), src,
                  expect_n=nf, wrong_key="c14:results-aliased", **detail)
    check_factors(ctx, f"{L}: source factors after editing a target", getattr(g, "factors", None), src, expect_n=nf,
                  wrong_key="c14:source-modified", **detail)
    check_Z(ctx, f"{L}: get_partition_function() after editing a target", ctx.call(g.get_partition_function), src, **detail)
    if connected:
        _jt_twice(ctx, L, g, src, pairs, detail)
        check_factors(ctx, f"{L}: source factors after to_junction_tree x2", getattr(g, "factors", None), src, expect_n=nf,
                      wrong_key="c14:source-modified", **detail)
    # ---- edit the SOURCE: one more factor node
    f2 = sq["factor"]
    ug3 = dict(ug, factors=list(ug["factors"]) + [f2])
    pairs3 = scope_pairs(ug3["factors"])

    def edit_src():
        phi = build_factor(ug, f2)
        g.add_node(phi)
        for v in phi.variables:
            g.add_edge(v, phi)
        g.add_factors(phi)
    if ctx.failed(ctx.call(edit_src)):
        return
    try:
        if len([x for x in g.nodes() if not _hashable_in(x, set(nodes))]) != nf + 1:
            return                    # the new factor equals an old one: fg:equal-factor-nodes-merged territory
    except Exception:
        return
    src3 = _src_of(ug3)
    check_Z(ctx, f"{L}: get_partition_function() after adding a factor", ctx.call(g.get_partition_function), src3, **detail)
    mm = ctx.call(g.to_markov_model)
    if ctx.failed(mm):
        ctx.violation(f"c14:exception:{mm.type}@{mm.where}", f"{L}: to_markov_model after adding a factor raised {mm!r}", **detail)
    else:
        check_graph(ctx, f"{L}: to_markov_model after adding a factor", mm, nodes, pairs3, "c14:fg2mn-graph", **detail)
        check_factors(ctx, f"{L}: to_markov_model after adding a factor", getattr(mm, "factors", None), src3,
                      expect_n=nf + 1, **detail)
    if _connected(nodes, pairs3):
        jt = ctx.call(g.to_junction_tree)
        if ctx.failed(jt):
            ctx.violation(f"c14:exception:{jt.type}@{jt.where}", f"{L}: to_junction_tree after adding a factor raised {jt!r}", **detail)
        else:
            check_jt(ctx, f"{L}: to_junction_tree after adding a factor", jt, src3, pairs3, **detail)


def seq_bn(spec, ctx, bn, src, pairs, detail):
    import random
    from rv import build
    sq = spec["seq"]
    nodes = bn["nodes"]
    L = "sequence on one BayesianNetwork"
    detail = dict(detail, sequence=True)
    ctx.feature("seq:bn")
    model = build.bayesian_network(bn, rng=random.Random(spec["build_seed"] + 1))
    connected = _connected(nodes, pairs)

    def convert(tag, s, prs):
        mm = ctx.call(model.to_markov_model)
        if ctx.failed(mm):
            ctx.violation(f"c14:exception:{mm.type}@{mm.where}", f"{L}: to_markov_model ({tag}) raised {mm!r}", **detail)
            return None
        check_graph(ctx, f"{L}: to_markov_model ({tag})", mm, nodes, prs, "c14:not-moral-graph", **detail)
        check_factors(ctx, f"{L}: to_markov_model ({tag})", getattr(mm, "factors", None), s, expect_n=len(nodes), **detail)
        return mm

    mm1 = convert("call 1", src, pairs)
    if connected:
        _jt_twice(ctx, L, model, src, pairs, detail)
    mm2 = convert("call 2", src, pairs)
    if mm1 is None or mm2 is None:
        return

    # overwrite the first target: values, factor list, graph
    def edit():
        for p in mm1.factors:
            p.values *= 3.0
            p.values.flat[0] = 0.123
        mm1.factors.pop()
        mm1.add_edge("__x", "__y")
        if len(nodes) >= 2:
            mm1.remove_node(nodes[-1])
    ctx.call(edit)
    check_graph(ctx, f"{L}: second Markov network after editing the first", mm2, nodes, pairs, "c14:results-aliased", **detail)
    check_factors(ctx, f"{L}: second Markov network after editing the first", getattr(mm2, "factors", None), src,
                  expect_n=len(nodes), wrong_key="c14:results-aliased", **detail)
    convert("call 3, after overwriting the first target", src, pairs)       # the BN's CPDs must not have followed
    if connected:
        jt = ctx.call(model.to_junction_tree)
        if ctx.failed(jt):
            ctx.violation(f"c14:exception:{jt.type}@{jt.where}", f"{L}: to_junction_tree after editing a target raised {jt!r}", **detail)
        else:
            check_jt(ctx, f"{L}: to_junction_tree after editing a target", jt, src, pairs, **detail)
    # ---- edit the SOURCE: replace one CPD
    v = sq["var"]
    bn3 = dict(bn, cpds=dict(bn["cpds"]))
    bn3["cpds"][v] = {"parents": list(bn["cpds"][v]["parents"]), "table": sq["table"]}
    if ctx.failed(ctx.call(lambda: model.add_cpds(build.tabular_cpd(bn3, v)))):
        return
    factors = []
    for x in nodes:
        c = bn3["cpds"][x]
        factors.append({"vars": [x] + list(c["parents"]), "values": [float(y) for row in c["table"] for y in row]})
    src3 = dict(src, factors=factors)
    src3["J"] = joint_of(src3, factors)
    src3["Z"] = float(src3["J"].sum())
    mm = convert("after replacing a CPD", src3, pairs)
    if mm is not None:
        check_Z(ctx, f"{L}: to_markov_model().get_partition_function() after replacing a CPD",
                ctx.call(mm.get_partition_function), src3, **detail)
    if connected:
        jt = ctx.call(model.to_junction_tree)
        if ctx.failed(jt):
            ctx.violation(f"c14:exception:{jt.type}@{jt.where}", f"{L}: to_junction_tree after replacing a CPD raised {jt!r}", **detail)
        else:
            check_jt(ctx, f"{L}: to_junction_tree after replacing a CPD", jt, src3, pairs, **detail)
