"""C09 - writing a model to BIF / XMLBIF / UAI / NET and reading it back returns the same model.

Observe: str(Writer(model)) -> Reader(string=...).get_model() for BIF, XMLBIF, UAI (BAYES and
         MARKOV) and NET; BayesianNetwork.save / load on files in a per-worker scratch directory.
Oracle : the case spec.  Variables, edges and str(state) lists must be those of the spec; every
         read-back CPD, re-indexed by *names* into the spec's declared order, must equal the spec
         table; the product of the read-back CPDs must equal the brute-force joint J(spec) for every
         named full assignment.  Exact formats are compared at 1e-15 relative per entry (the writers
         print repr(float), so the round trip is bit-for-bit), NET at 0.5e-4 per entry.  UAI carries
         no names: the checker searches a cardinality-respecting bijection spec-node <-> var_i under
         which edges and every table agree (the writer's numbering rule is not re-implemented).
Classifier: a failing round trip is re-run with one structural feature neutralised (names renamed
         to neutral identifiers / entries that print with an exponent set to 0 / numpy print
         threshold lifted / isolated Markov nodes removed); only if the failure then disappears does
         it get the feature's mechanism key.  A UAI table that is right under a permutation of the
         read-back parent list is keyed uai:parent-order.  Everything else keeps a generic key.
"""
import itertools
import math
import os
import re

import numpy as np

from rv import gen, oracle

PLAN = {
    "quick": {"cases": 228, "hashseeds": 3, "shards": 5, "timeout": 900, "min_nontrivial": 110},
    "thorough": {"cases": 1800, "hashseeds": 8, "shards": 2, "timeout": 4500, "min_nontrivial": 900},
}
if os.environ.get("RV_C09_CASES"):        # development aid: run only a prefix of the same case stream
    for _t in PLAN.values():
        _n = max(12, int(os.environ["RV_C09_CASES"]))
        _t["min_nontrivial"] = max(5, _t["min_nontrivial"] * _n // _t["cases"])
        _t["cases"] = _n
RULE = ("random discrete BNs (quick: 1-6 nodes, cards 1-5, 0-4 parents; thorough: 1-8 nodes, cards 1-6, 0-5 "
        "parents; ~30% of the BNs and ~35% of the MNs mix one or two 10..13-state variables with 2..9-state ones) "
        "with parents in shuffled declared order and (mostly) pairwise distinct parent cardinalities; "
        "variable / state names are identifiers: neutral, random (a few with a leading underscore), or containing a "
        "format keyword as prefix / suffix / infix, or (name style / state style 'exact', ~1 model in 6 each) being "
        "exactly a keyword of BIF, XMLBIF or NET as root, child, parent or parent state, lower or upper case (variable, probability, network, table, "
        "default, node, potential, states, data, property, type, net, given, for, outcome, definition); one model in "
        "six uses pgmpy's default integer state names (compared as strings); tables: full-precision grid with exact "
        "0/1 columns, magnitudes 1e-12..1 renormalised, <=4-decimal values, deterministic; two cases in 30 have a "
        "table with > 1000 entries (cards up to 9 there, so that numpy's elision can apply). case idx % 6: 0,1 (and 2 "
        "in quick) -> all four writer/reader pairs; (2,) 3, 4 -> XMLBIF, UAI, NET only (BIFReader needs ~2 s per "
        "construction); 5 -> Markov network through UAI (2-6/7 nodes, cards 2-5, cycles, duplicate and unary factors, "
        "isolated nodes, a single-variable network now and then, tiny values, potentials 1e-12..1e16 mixed in one "
        "factor, integers as floats). value style 'extreme': 5e-324, 1e-300, 2.5e-200, 1e-17, 0.9999999999999999, "
        "exact 0/1; state style 'digits': digits-only string labels. After every correct fresh round trip the SAME "
        "writer is asked for str() again, before and after all its public getters were called, the SAME reader for "
        "get_model() again after the first model was zeroed / had its state lists reversed / lost a node and the "
        "reader's getters were called, and the read-back model is written and read once more (classes for XMLBIF, "
        "UAI, NET; save->load->save->load for the save/load cases); each answer is judged by the same oracle. "
        "save/load: XMLBIF and UAI on every BN, BIF on a quarter of the BIF cases. "
        "non-trivial: BN with >= 2 nodes and >= 1 edge, or MN with >= 1 edge; distinct by digest of the whole spec")
ASSUMPTIONS = ["brute-force joint of the spec (<= 20 000 cells) is the reference",
               "exact formats compared at 1e-15 relative per table entry / 1e-13 per joint cell; NET at 0.5e-4 "
               "per entry and n*0.5e-4 per joint cell",
               "UAI: existence of a cardinality- and edge-respecting bijection to var_i is all that is demanded",
               "state-name lists compared as strings, order-insensitively; values compared per named assignment",
               "BIFReader run with n_jobs=1 (n_jobs=2 on a few thorough cases)"]
REACH = [
    "pgmpy.readwrite.BIF:BIFWriter.__str__",
    "pgmpy.readwrite.BIF:BIFReader.variable_block",
    "pgmpy.readwrite.BIF:BIFReader.probability_block",
    "pgmpy.readwrite.BIF:BIFReader._get_values_from_block",
    "pgmpy.readwrite.BIF:BIFReader.get_model",
    "pgmpy.readwrite.XMLBIF:XMLBIFWriter.get_values",
    "pgmpy.readwrite.XMLBIF:XMLBIFReader.get_values",
    "pgmpy.readwrite.XMLBIF:XMLBIFReader.get_model",
    "pgmpy.readwrite.UAI:UAIWriter.__str__",
    "pgmpy.readwrite.UAI:UAIWriter.get_functions",
    "pgmpy.readwrite.UAI:UAIWriter.get_tables",
    "pgmpy.readwrite.UAI:UAIReader.get_grammar",
    "pgmpy.readwrite.UAI:UAIReader.get_edges",
    "pgmpy.readwrite.UAI:UAIReader.get_model",
    "pgmpy.readwrite.NET:NETWriter.net_cpd",
    "pgmpy.readwrite.NET:NETReader.get_values",
    "pgmpy.readwrite.NET:NETReader.get_model",
    "pgmpy.models.BayesianNetwork:BayesianNetwork.save",
    "pgmpy.models.BayesianNetwork:BayesianNetwork.load",
]
REACH_REQUIRED = list(REACH)
MANIFEST = {
    "text": "On the generated networks, str(Writer(model)) followed by Reader(string=...).get_model() (and "
            "save/load) gave back the same variables, edges, state names and per-named-assignment probabilities "
            "for BIF, XMLBIF, UAI and NET, in every hash-seed cell, apart from the listed known findings.",
    "note": "trusted: brute-force joint of the spec, numpy float printing/parsing being a bijection on float64",
    "technique": "runtime monitoring with a reference model; failures classified by neutralising one input feature",
}

FORMATS = ("bif", "xmlbif", "uai", "net")
SAVELOAD = ("bif", "xmlbif", "uai")

# --------------------------------------------------------------------------- name pools
KEYWORDS = ["variable", "probability", "network", "table", "default", "node", "potential", "states",
            "data", "property", "type", "discrete", "net", "given", "for", "outcome", "definition"]
DESIGN_NAMES = ["variable1", "my_probability", "network_x", "tablet", "node_a", "potential_b", "default0",
                "property_p", "states_s", "data_d", "table1", "leafnode", "my_node", "tablee", "subnetwork",
                "typed", "xdefault", "nodes", "subnode", "parent_node", "probability_of_rain", "is_variable", "defaultE1", "the_table"]
PLAIN_POOL = ["A", "B", "C", "D", "E", "F", "G", "H", "Rain", "Sprinkler", "GrassWet", "x1", "x2", "x_3",
              "Smoker", "lung", "xray", "dysp", "T", "alpha", "Beta", "q7", "Z_z", "n0", "kid", "HearBark",
              "u", "w", "Cloudy", "burglary", "JohnCalls", "m_1", "m_2", "VAR", "yy", "p0", "p1"]
STATE_POOLS = [["yes", "no"], ["true", "false"], ["low", "mid", "high"], ["a", "b", "c", "d", "e", "f"],
               ["present", "absent"], ["s0", "s1", "s2", "s3", "s4", "s5"], ["T", "F"],
               ["none", "mild", "moderate", "severe", "critical", "fatal"],
               ["x0", "X1", "x_2", "X_3", "x4", "X5"], ["On", "Off"]]
# names / state labels that ARE a keyword of one of the formats (every BN goes through XMLBIF, UAI and NET, about
# half through BIF, so the union is used); drawn in lower or upper case
EXACT_KEYWORDS = ["table", "default", "variable", "probability", "network", "property", "type", "discrete",   # BIF
                  "bif", "name", "outcome", "definition", "for", "given",                                    # XMLBIF tags
                  "node", "potential", "data", "states", "net"]                                              # NET
IDENT0 = "abcdefghijklmnopqrstuvwxyzABCDEFGHIJKLMNOPQRSTUVWXYZ"
IDENT = IDENT0 + "0123456789_"


def rand_ident(rng, lead_underscore=False):
    s = rng.choice(IDENT0) + "".join(rng.choice(IDENT) for _ in range(rng.randint(0, 7)))
    return ("_" + s) if lead_underscore else s


def keyword_name(rng):
    r = rng.random()
    if r < 0.45:
        return rng.choice(DESIGN_NAMES)
    kw = rng.choice(KEYWORDS)
    if rng.random() < 0.2:
        kw = kw.upper()            # XMLBIF tag names are upper case
    if r < 0.6:
        return kw + rng.choice(["0", "1", "7", "_x", "_a", "s", "X", "e", "E5", "2b"])
    if r < 0.8:
        return rng.choice(["my_", "x", "sub", "A_", "the"]) + kw
    return rng.choice(["a_", "pre", "X"]) + kw + rng.choice(["_z", "1", "ed", "Q"])


def exact_keyword(rng):
    kw = rng.choice(EXACT_KEYWORDS)
    return kw.upper() if rng.random() < 0.25 else kw


def unique_names(rng, n, style):
    out = []
    tries = 0
    while len(out) < n:
        tries += 1
        if style == "neutral":
            c = f"v{len(out)}"
        elif style == "exact":     # about half of the variables are named exactly like a format keyword
            c = exact_keyword(rng) if rng.random() < 0.5 or not out else \
                (rng.choice(PLAIN_POOL) if rng.random() < 0.7 else keyword_name(rng))
        elif style == "plain":
            c = rng.choice(PLAIN_POOL) if rng.random() < 0.6 else rand_ident(rng, rng.random() < 0.04)
        else:   # "kw": about half of the names carry a keyword
            c = keyword_name(rng) if rng.random() < 0.55 or not out else \
                (rng.choice(PLAIN_POOL) if rng.random() < 0.5 else rand_ident(rng))
        if tries > 200:
            c = c + str(tries)
        if c not in out:
            out.append(c)
    return out


def state_list(rng, var, k, style):
    if style == "int":
        return list(range(k))
    if style == "digits":          # digits-only labels given as strings (what the readers hand back for int names)
        base = rng.choice([0, 1, 10, 100])
        step = rng.choice([1, 1, 5])
        l = [str(base + step * i) for i in range(k)]
        if rng.random() < 0.3:
            rng.shuffle(l)
        return l
    if style == "neutral":
        return [f"s{i}" for i in range(k)]
    if style in ("kw", "exact"):
        out = []
        while len(out) < k:
            c = (exact_keyword(rng) if style == "exact" else keyword_name(rng)) if rng.random() < 0.6 else f"st{len(out)}"
            if c not in out:
                out.append(c)
        return out
    r = rng.random()
    if r < 0.35:
        pool = [p for p in STATE_POOLS if len(p) >= k] or [[f"lvl{i}" for i in range(k)]]
        p = rng.choice(pool)
        return list(p[:k]) if rng.random() < 0.7 else rng.sample(p, k)
    if r < 0.6:
        l = [f"{var}_{i}" for i in range(k)]
        if rng.random() < 0.4:
            rng.shuffle(l)
        return l
    out = []
    while len(out) < k:
        c = rand_ident(rng)
        if c not in out:
            out.append(c)
    return out


# ------------------------------------------------------------------------------ tables
MAGN = [0.0, 0.0, 1e-12, 3e-7, 1e-5, 5e-5, 9.9e-5, 1e-4, 1.234e-3, 1.0 / 3.0, 0.1, 0.25, 0.5, 1.0, 1.0, 2.0, 7.0]


def fix_sum(col):
    s = sum(col)
    col = [c / s for c in col]
    i = max(range(len(col)), key=lambda t: col[t])
    col[i] = 1.0 - sum(c for t, c in enumerate(col) if t != i)
    return col


def column(rng, r, style):
    if r == 1:
        return [1.0]
    if style == "grid":
        return gen.rand_column(rng, r, zeros=True)
    if style == "det":
        col = [0.0] * r
        col[rng.randrange(r)] = 1.0
        return col
    if style == "dec":      # multiples of 1e-4, every entry >= 1e-3 or exactly 0
        w = [rng.randint(10, 3000) if rng.random() > 0.15 else 0 for _ in range(r)]
        if sum(w) == 0:
            w[0] = 10
        rest = 10000 - sum(w)
        i = rng.randrange(r)
        if w[i] + rest < 10:
            return column(rng, r, "dec")
        w[i] += rest
        col = [x / 10000.0 for x in w]
        i = max(range(r), key=lambda t: col[t])
        col[i] = 1.0 - sum(c for t, c in enumerate(col) if t != i)
        return col
    if style == "extreme":
        # boundary floats: denormal minimum, 1e-300, 1e-17, the float just below 1, exact 0 / 1; the dominant entry
        # is 1 - (sum of the others), which is 1.0 or 0.9999999999999999 in float64
        if rng.random() < 0.3:
            col = [0.0] * r
            i, j = rng.sample(range(r), 2)
            col[i], col[j] = 1.0 - 1e-16, 1e-16
            return col
        col = [rng.choice([0.0, 0.0, 5e-324, 1e-300, 2.5e-200, 1e-17, 1e-12]) for _ in range(r)]
        i = rng.randrange(r)
        col[i] = 0.0
        col[i] = 1.0 - sum(col)
        return col
    # "magn": many magnitudes, renormalised
    col = [rng.choice(MAGN) * (1.0 if rng.random() < 0.5 else (0.5 + rng.random())) for _ in range(r)]
    if sum(col) <= 0:
        col[rng.randrange(r)] = 1.0
    if max(col) < 1e-3:                       # keep one ordinary entry so that tiny ones stay tiny
        col[rng.randrange(r)] = 1.0
    return fix_sum(col)


def table(rng, r, q, style):
    cols = []
    for _ in range(q):
        st = style
        if style == "mixed":
            st = rng.choice(["grid", "magn", "dec", "det", "extreme"])
        cols.append(column(rng, r, st))
    return [[cols[j][i] for j in range(q)] for i in range(r)]


# ---------------------------------------------------------------------------- BN specs
def bn_spec(rng, tier, big=False):
    thorough = tier == "thorough"
    max_n, max_card, max_par = (8, 6, 5) if thorough else (6, 5, 4)
    max_joint = 20000 if thorough else 4096
    name_style = rng.choice(["neutral", "plain", "plain", "plain", "kw", "exact"])
    state_style = rng.choice(["neutral", "plain", "plain", "plain", "kw", "int", "exact", "digits"])
    val_style = rng.choice(["grid", "grid", "magn", "dec", "dec", "mixed", "mixed", "det", "extreme"])
    if big:
        # one family whose table has > 1000 entries (numpy's print threshold)
        while True:
            k = rng.randint(2, max_par)
            pc = [rng.randint(2, 6) for _ in range(k)]
            cc = rng.randint(2, 6)
            if rng.random() < 0.5:        # numpy only elides an axis longer than 2*edgeitems = 6
                if rng.random() < 0.5:
                    cc = rng.randint(7, 9)
                else:
                    pc[rng.randrange(k)] = rng.randint(7, 9)
            size = cc * math.prod(pc)
            if 1000 < size <= (9000 if thorough else 2600):
                break
        extra = rng.randint(0, 1)
        n = k + 1 + extra
        names = unique_names(rng, n, name_style)
        cards = pc + [cc] + [rng.randint(1, 3)] * extra
        order = list(range(n))
        par_idx = {i: [] for i in range(n)}
        par_idx[k] = list(range(k))
        if extra:
            par_idx[k + 1] = [k] if rng.random() < 0.5 else []
        if val_style in ("det",):
            val_style = "grid"
    else:
        n = rng.choice([1, 2, 2, 3, 3, 4, 4, 5, 5, 6] + ([7, 8] if thorough else []))
        n = min(n, max_n)
        # "wide": one (sometimes two) variable with 10..13 states next to variables with 2..9 states, so that
        # multi-digit cardinalities (whose string and numeric orders differ) are mixed with single-digit ones
        wide = rng.random() < 0.3
        if wide:
            n = max(n, 2)
        names = unique_names(rng, n, name_style)
        while True:
            if rng.random() < 0.6:
                base = list(range(1, max_card + 1))
                rng.shuffle(base)
                cards = [base[i % len(base)] for i in range(n)]
                if rng.random() < 0.7:     # few card-1 nodes
                    cards = [c if c > 1 or rng.random() < 0.4 else rng.randint(2, max_card) for c in cards]
            else:
                cards = [rng.choice([1, 2, 2, 2, 3, 3, 4, 5, max_card]) for _ in range(n)]
            if wide:
                w = rng.sample(range(n), 2 if (n >= 3 and rng.random() < 0.25) else 1)
                for i in w:
                    cards[i] = rng.randint(10, 13)
                rest = [i for i in range(n) if i not in w]
                if not any(2 <= cards[i] <= 9 for i in rest):
                    cards[rng.choice(rest)] = rng.randint(2, 9)
                elif rng.random() < 0.3:
                    cards[rng.choice(rest)] = rng.randint(6, 9)
            if n == 1 and rng.random() < 0.35:
                cards[0] = rng.randint(10, 13)          # single-variable network with a multi-digit cardinality
            if math.prod(cards) <= max_joint:
                break
        order = list(range(n))
        rng.shuffle(order)
        par_idx = {}
        for pos, i in enumerate(order):
            kmax = min(max_par, pos)
            k = rng.choice([0, 1, 1, 2, 2, 3, 4, 5][:6 + (2 if thorough else 1)])
            k = min(k, kmax)
            cand = order[:pos]
            if rng.random() < 0.7:          # prefer parents with pairwise distinct cardinalities
                rng.shuffle(cand)
                chosen, seen = [], set()
                for c in cand:
                    if cards[c] not in seen and len(chosen) < k:
                        chosen.append(c)
                        seen.add(cards[c])
                for c in cand:
                    if len(chosen) < k and c not in chosen:
                        chosen.append(c)
            else:
                chosen = rng.sample(cand, k)
            # cap the table size
            while chosen and cards[i] * math.prod(cards[c] for c in chosen) > 900:
                chosen.pop()
            par_idx[i] = chosen
    nodes = list(names)
    card = {names[i]: cards[i] for i in range(n)}
    states = {names[i]: state_list(rng, names[i], cards[i], state_style) for i in range(n)}
    edges, cpds = [], {}
    for i in range(n):
        pa = [names[j] for j in par_idx[i]]
        rng.shuffle(pa)
        for p in pa:
            edges.append([p, names[i]])
        q = math.prod(card[p] for p in pa)
        cpds[names[i]] = {"parents": pa, "table": table(rng, cards[i], q, val_style)}
    rng.shuffle(edges)
    return {"nodes": nodes, "edges": edges, "card": card, "states": states, "cpds": cpds, "latents": [],
            "kind": state_style, "name_style": name_style, "val_style": val_style, "big": bool(big)}


def mn_spec(rng, tier):
    thorough = tier == "thorough"
    if rng.random() < 0.35:
        # "wide": a variable with 10..13 states mixed with 2..9-state ones (string vs numeric order of cardinalities)
        for _ in range(40):
            spec = gen.rand_mn_spec(rng, n_range=(2, 5), cards=(2, 2, 3, 3, 4, 7, 9, 10, 11, 12, 13),
                                    kind=rng.choice(["id", "str"]), max_joint=8000 if thorough else 4096)
            cs = list(spec["card"].values())
            if any(c >= 10 for c in cs) and any(2 <= c <= 9 for c in cs):
                break
    else:
        spec = gen.rand_mn_spec(rng, n_range=(2, 7 if thorough else 6),
                                cards=(2, 2, 3, 3, 4, 5) if thorough else (2, 2, 3, 4),
                                kind=rng.choice(["id", "str"]), max_joint=8000 if thorough else 2048)
    # isolated nodes carrying a unary factor (a valid Markov network: every variable has a factor)
    if rng.random() < 0.25:
        for t in range(rng.randint(1, 2)):
            v = f"iso{t}"
            c = rng.choice([2, 3])
            spec["nodes"].append(v)
            spec["card"][v] = c
            spec["states"][v] = list(range(c)) if spec["kind"] == "id" else [f"{v}_s{i}" for i in range(c)]
            spec["factors"].append({"vars": [v], "values": [rng.choice(gen.GRID) * rng.randint(1, 4) for _ in range(c)]})
    if rng.random() < 0.08:
        # single-variable Markov network: one node, no edge, one unary factor
        v = spec["nodes"][0]
        f0 = next((f for f in spec["factors"] if f["vars"] == [v]), None) or \
            {"vars": [v], "values": [rng.choice(gen.GRID) * rng.randint(1, 4) for _ in range(spec["card"][v])]}
        spec = {"nodes": [v], "edges": [], "card": {v: spec["card"][v]}, "states": {v: spec["states"][v]},
                "factors": [f0], "kind": spec["kind"]}
    style = rng.choice(["plain", "plain", "tiny", "int", "range"])
    for f in spec["factors"]:
        if style == "range":      # potentials from 1e-12 to 1e16 mixed within one factor, integers written as floats
            f["values"] = [x * rng.choice([1.0, 1.0, 1e-12, 1e-5, 1e8, 1e16]) if rng.random() < 0.7
                           else float(rng.choice([0, 1, 3, 100000, 123456789])) for x in f["values"]]
            if not any(f["values"]):
                f["values"][0] = 1.0
        elif style == "tiny":
            f["values"] = [x * rng.choice([1.0, 1.0, 1e-6, 1e-11]) for x in f["values"]]
        elif style == "int":
            f["values"] = [float(rng.randint(0, 9)) for _ in f["values"]]
            if not any(f["values"]):
                f["values"][0] = 1.0
    spec["val_style"] = style
    _, J = oracle.mn_joint(spec)
    if not (J.sum() > 0):                      # all-zero measure is not a distribution: out of domain
        for f in spec["factors"]:
            f["values"] = [x if x > 0 else 0.5 for x in f["values"]]
    return spec


def gen_case(seed, idx, tier):
    """idx % 6: 0,1,(2 in quick) -> BN through all four formats; (2),3,4 -> BN through XMLBIF / UAI / NET only
    (BIFReader costs ~2 s per construction under pyparsing 3, so BIF gets about half of the models);
    5 -> Markov network (UAI)."""
    rng = gen.rng_for("C09", seed, idx)
    if idx % 6 == 5:
        return {"type": "mn", "mn": mn_spec(rng, tier), "build_seed": rng.randrange(10 ** 6)}
    big = idx % 30 in (1, 3)
    full = idx % 6 < (3 if tier == "quick" else 2)
    spec = {"type": "bn", "bn": bn_spec(rng, tier, big=big), "build_seed": rng.randrange(10 ** 6),
            "sl_ext": rng.random() < 0.5, "n_jobs": 1,
            "formats": list(FORMATS if full else FORMATS[1:]),
            "sl_bif": rng.random() < 0.25}
    if tier == "thorough" and idx in (6, 7):
        spec["n_jobs"] = 2
        spec["sl_bif"] = True
    return spec


# ----------------------------------------------------------- structural predicates / neutralisers
_EXP = re.compile(r"[eE]")


def prints_with_exponent(x):
    return bool(_EXP.search(repr(float(x)))) and math.isfinite(x)


def bn_has_exponent(bn):
    return any(prints_with_exponent(x) for c in bn["cpds"].values() for row in c["table"] for x in row)


def bn_without_exponent(bn):
    """Same structure; every entry that numpy prints with an exponent is set to 0 and the column is
    renormalised (repeated until no such entry is left)."""
    out = dict(bn)
    out["cpds"] = {}
    for v, c in bn["cpds"].items():
        tab = [list(r) for r in c["table"]]
        r, q = len(tab), len(tab[0])
        for j in range(q):
            col = [tab[i][j] for i in range(r)]
            for _ in range(6):
                if not any(prints_with_exponent(x) for x in col):
                    break
                col = [0.0 if (prints_with_exponent(x) or x < 1e-4) else x for x in col]
                if sum(col) <= 0:
                    col = [0.0] * r
                    col[0] = 1.0
                # round the survivors to 6 decimals so that renormalising cannot create new exponents
                col = [round(x, 6) for x in col]
                i = max(range(r), key=lambda t: col[t])
                col[i] = round(1.0 - sum(x for t, x in enumerate(col) if t != i), 6)
            for i in range(r):
                tab[i][j] = col[i]
        out["cpds"][v] = {"parents": list(c["parents"]), "table": tab}
    return out


BIF_KW = re.compile(r"variable|probability|(?:table|default)[0-9eE.+\-]")


def bn_names(bn):
    out = list(bn["nodes"])
    for v in bn["nodes"]:
        out += [s for s in bn["states"][v] if isinstance(s, str)]
    return out


BIF_BLOCK_KW = ("variable", "probability")


def bif_keyword_feature(bn):
    """some name merely CONTAINS a BIF block keyword (or table/default + number-like tail)"""
    return any(BIF_KW.search(x) and x not in BIF_BLOCK_KW for x in bn_names(bn))


def bif_exact_keyword_names(bn):
    """variable or state names that ARE a block keyword of the BIF reader's splitter"""
    return {x for x in bn_names(bn) if x in BIF_BLOCK_KW}


def net_keyword_feature(bn):
    # the reader recognises a node declaration by the literal "node " anywhere in the file: a parent whose
    # name ends in "node" and is followed by another parent looks like one
    return any(p.endswith("node") and p != "node" for c in bn["cpds"].values() for p in c["parents"][:-1])


def net_exact_keyword_names(bn):
    """a parent named exactly `node` that is followed by another parent: `potential (c | node x)`"""
    return {p for c in bn["cpds"].values() for p in c["parents"][:-1] if p == "node"}


def bn_renamed(bn, only=None):
    """Same network with neutral variable / state names (v0.., s0..).  With `only` (a set of names) just the
    variables / states carrying exactly one of those names are renamed."""
    if only is None:
        vm = {v: f"v{i}" for i, v in enumerate(bn["nodes"])}
        sm = {v: [f"s{i}" for i in range(bn["card"][v])] for v in bn["nodes"]}
    else:
        vm = {v: (f"kwv{i}" if v in only else v) for i, v in enumerate(bn["nodes"])}
        sm = {v: [f"kws{i}" if x in only else x for i, x in enumerate(bn["states"][v])] for v in bn["nodes"]}
    out = dict(bn)
    out["nodes"] = [vm[v] for v in bn["nodes"]]
    out["edges"] = [[vm[a], vm[b]] for a, b in bn["edges"]]
    out["card"] = {vm[v]: k for v, k in bn["card"].items()}
    out["states"] = {vm[v]: sm[v] for v in bn["nodes"]}
    out["cpds"] = {vm[v]: {"parents": [vm[p] for p in c["parents"]], "table": c["table"]}
                   for v, c in bn["cpds"].items()}
    return out


def bn_has_big_table(bn):
    return any(len(c["table"]) * len(c["table"][0]) > 1000 for c in bn["cpds"].values())


def bn_has_elidable_table(bn):
    """numpy's str() elides an array only if it has > 1000 entries AND some axis is longer than 6."""
    return any(len(c["table"]) * len(c["table"][0]) > 1000 and
               max([bn["card"][v]] + [bn["card"][p] for p in c["parents"]]) > 6 for v, c in bn["cpds"].items())


def bn_single_value_nodes(bn):
    return [v for v, c in bn["cpds"].items() if len(c["table"]) * len(c["table"][0]) == 1]


def bn_without_single_value_nodes(bn):
    """Remove every node whose table has exactly one entry (cardinality 1, all parents of cardinality 1).  Such a
    node contributes a factor 1 and, as a parent, one column index 0: the other tables are unchanged."""
    drop = set(bn_single_value_nodes(bn))
    out = dict(bn)
    out["nodes"] = [v for v in bn["nodes"] if v not in drop]
    out["edges"] = [e for e in bn["edges"] if e[0] not in drop and e[1] not in drop]
    out["card"] = {v: k for v, k in bn["card"].items() if v not in drop}
    out["states"] = {v: s for v, s in bn["states"].items() if v not in drop}
    out["cpds"] = {v: {"parents": [p for p in c["parents"] if p not in drop], "table": c["table"]}
                   for v, c in bn["cpds"].items() if v not in drop}
    return out


def single_multidigit(spec):
    """the network has exactly one variable and its cardinality has more than one digit"""
    return len(spec["nodes"]) == 1 and spec["card"][spec["nodes"][0]] >= 10


def bn_with_second_node(bn):
    out = dict(bn)
    z = "zz_extra"
    out["nodes"] = list(bn["nodes"]) + [z]
    out["card"] = dict(bn["card"], **{z: 2})
    out["states"] = dict(bn["states"], **{z: ["e0", "e1"]})
    out["cpds"] = dict(bn["cpds"], **{z: {"parents": [], "table": [[0.25], [0.75]]}})
    return out


def mn_with_second_node(mn):
    out = dict(mn)
    z = "zz_extra"
    out["nodes"] = list(mn["nodes"]) + [z]
    out["card"] = dict(mn["card"], **{z: 2})
    out["states"] = dict(mn["states"], **{z: [0, 1] if mn.get("kind") == "id" else ["e0", "e1"]})
    out["factors"] = list(mn["factors"]) + [{"vars": [z], "values": [1.0, 3.0]}]
    return out


def mn_has_exponent(mn):
    return any(prints_with_exponent(x) for f in mn["factors"] for x in f["values"])


def mn_without_exponent(mn):
    """Same network; entries that print with an exponent become 0.25 (factors need no normalisation)."""
    out = dict(mn)
    out["factors"] = [{"vars": list(f["vars"]), "values": [0.25 if prints_with_exponent(x) else x for x in f["values"]]}
                      for f in mn["factors"]]
    return out


def mn_isolated(mn):
    touched = {x for e in mn["edges"] for x in e}
    return [v for v in mn["nodes"] if v not in touched]


def mn_without_isolated(mn):
    iso = set(mn_isolated(mn))
    out = dict(mn)
    out["nodes"] = [v for v in mn["nodes"] if v not in iso]
    out["card"] = {v: k for v, k in mn["card"].items() if v not in iso}
    out["states"] = {v: s for v, s in mn["states"].items() if v not in iso}
    out["factors"] = [f for f in mn["factors"] if not (set(f["vars"]) & iso)]
    return out


# ------------------------------------------------------------------ reading models defensively
class Problem:
    def __init__(self, key, what, generic=True):
        self.key, self.what, self.generic = key, what, generic

    def __repr__(self):
        return f"[{self.key}] {self.what}"


def bn_view(model):
    """Plain-data view of a read-back Bayesian network through public attributes only."""
    from rv.build import to_np
    nodes = list(model.nodes())
    edges = [(a, b) for a, b in model.edges()]
    cpds = {}
    for c in model.get_cpds():
        variables = list(c.variables)
        vals = np.asarray(to_np(c.values), dtype=float)
        sn = {x: list(c.state_names[x]) for x in variables}
        if tuple(vals.shape) != tuple(len(sn[x]) for x in variables):
            raise ValueError(f"cpd of {c.variable}: values shape {vals.shape} vs state names "
                             f"{[len(sn[x]) for x in variables]}")
        if c.variable in cpds:
            raise ValueError(f"two cpds for {c.variable}")
        if variables[0] != c.variable:
            raise ValueError(f"cpd of {c.variable}: first scope variable is {variables[0]}")
        cpds[c.variable] = (variables, sn, vals)
    return {"nodes": nodes, "edges": edges, "cpds": cpds}


def spec_array(bn, v):
    c = bn["cpds"][v]
    shape = [bn["card"][v]] + [bn["card"][p] for p in c["parents"]]
    return np.array(c["table"], dtype=float).reshape(shape)


def aligned(bn, v, entry, ren, positional):
    """Read-back CPD of (spec) node v as an array with axes [v] + declared parents of the spec and states
    in the spec's order.  `ren`: spec name -> read-back name.  Returns (array | None, problem text | None)."""
    variables, sn, vals = entry
    want = [v] + list(bn["cpds"][v]["parents"])
    back = {ren[x]: x for x in want}
    if set(variables) != set(back) or len(variables) != len(want):
        return None, f"scope of read-back CPD is {variables}, expected {[ren[x] for x in want]}"
    arr = vals
    for ax, rb in enumerate(variables):
        x = back[rb]
        names = sn[rb]
        if len(names) != bn["card"][x]:
            return None, f"{rb}: {len(names)} states read back, {bn['card'][x]} written"
        if positional:
            continue
        try:
            snames = [str(t) for t in names]
            idx = [snames.index(str(s)) for s in bn["states"][x]]
        except ValueError:
            return None, f"{rb}: state names {names!r}, written {[str(s) for s in bn['states'][x]]!r}"
        arr = np.take(arr, idx, axis=ax)
    perm = [variables.index(ren[x]) for x in want]
    return np.transpose(arr, perm), None


def close_exact(a, b, rel=1e-15):
    return a.shape == b.shape and bool(np.all(np.abs(a - b) <= rel * np.abs(b)))


def first_diff(a, b):
    d = np.abs(a - b)
    i = np.unravel_index(int(np.argmax(d)), d.shape)
    return f"cell {tuple(int(t) for t in i)}: read back {float(a[i])!r}, written {float(b[i])!r}"


def compare_bn(bn, view, fmt, ren=None, positional=False, J=None, try_parent_perms=False):
    """Problems of a read-back BN `view` against spec `bn` (names mapped by ren: spec -> read-back)."""
    P = []
    nodes = bn["nodes"]
    ren = ren or {v: v for v in nodes}
    net = fmt == "net"
    if sorted(view["nodes"]) != sorted(ren[v] for v in nodes) or len(view["nodes"]) != len(nodes):
        P.append(Problem(f"c09:{fmt}:variables", f"variables read back {sorted(view['nodes'])}, written {sorted(nodes)}"))
        return P
    if sorted(view["edges"]) != sorted((ren[a], ren[b]) for a, b in bn["edges"]):
        P.append(Problem(f"c09:{fmt}:edges", f"edges read back {sorted(view['edges'])}, written "
                         f"{sorted((ren[a], ren[b]) for a, b in bn['edges'])}"))
        return P
    arrays = {}
    for v in nodes:
        if ren[v] not in view["cpds"]:
            P.append(Problem(f"c09:{fmt}:missing-cpd", f"no CPD read back for {v}"))
            continue
        entry = view["cpds"][ren[v]]
        if not positional:
            bad = False
            for rb in entry[0]:
                x = next((s for s in nodes if ren[s] == rb), None)
                if x is not None and sorted(map(str, entry[1][rb])) != sorted(str(s) for s in bn["states"][x]):
                    P.append(Problem(f"c09:{fmt}:state-names", f"{x}: state names read back {entry[1][rb]!r}, written "
                                     f"{[str(s) for s in bn['states'][x]]!r}"))
                    bad = True
                    break
            if bad:
                continue
        arr, err = aligned(bn, v, entry, ren, positional)
        if err:
            P.append(Problem(f"c09:{fmt}:cpd-scope", f"{v}: {err}"))
            continue
        want = spec_array(bn, v)
        ok = bool(np.all(np.abs(arr - want) <= 0.5e-4 + 1e-12)) if net else close_exact(arr, want)
        if not ok:
            explained = False
            if try_parent_perms and len(bn["cpds"][v]["parents"]) >= 2:
                variables, sn, vals = entry
                flat = vals.reshape(vals.shape[0], -1)
                for pi in itertools.permutations(variables[1:]):
                    if list(pi) == variables[1:]:
                        continue
                    shp = [vals.shape[0]] + [len(sn[x]) for x in pi]
                    e2 = ([variables[0]] + list(pi), sn, flat.reshape(shp))
                    a2, err2 = aligned(bn, v, e2, ren, positional)
                    if err2 is None and close_exact(a2, want):
                        explained = True
                        P.append(Problem("c09:uai:parent-order",
                                         f"{v}: table is right only if the read-back parent list {variables[1:]} is read "
                                         f"as {list(pi)} (declared {bn['cpds'][v]['parents']})", generic=False))
                        break
            if not explained:
                P.append(Problem(f"c09:{fmt}:wrong-table", f"P({v} | {bn['cpds'][v]['parents']}): {first_diff(arr, want)}"))
            continue
        arrays[v] = arr
    if not P and J is not None:
        # product of the read-back CPDs per named full assignment, multiplied in the oracle's order
        shape = [bn["card"][v] for v in nodes]
        Jr = np.ones(shape if shape else ())
        for v in nodes:
            axes = [nodes.index(x) for x in [v] + list(bn["cpds"][v]["parents"])]
            order = sorted(range(len(axes)), key=lambda t: axes[t])
            a = np.transpose(arrays[v], order)
            shp = [1] * len(nodes)
            for t in order:
                shp[axes[t]] = arrays[v].shape[t]
            Jr = Jr * a.reshape(shp)
        tol_ok = bool(np.all(np.abs(Jr - J) <= len(nodes) * 0.5e-4 + 1e-12)) if net else \
            bool(np.all(np.abs(Jr - J) <= 1e-13 * np.abs(J)))
        if not tol_ok:
            P.append(Problem(f"c09:{fmt}:wrong-joint", f"joint of read-back CPDs: {first_diff(Jr, J)}"))
    return P


def compare_bn_uai(bn, view, J):
    """UAI: existential search over cardinality- and edge-respecting bijections spec node -> var_i."""
    nodes = bn["nodes"]
    rb_nodes = list(view["nodes"])
    if len(rb_nodes) != len(nodes) or len(set(rb_nodes)) != len(nodes):
        return [Problem("c09:uai:variables", f"{len(rb_nodes)} variables read back ({rb_nodes}), {len(nodes)} written")]
    rb_card = {}
    for rb in rb_nodes:
        if rb not in view["cpds"]:
            return [Problem("c09:uai:missing-cpd", f"no CPD read back for {rb}")]
        rb_card[rb] = view["cpds"][rb][2].shape[0]
    if sorted(rb_card.values()) != sorted(bn["card"].values()):
        return [Problem("c09:uai:cardinalities", f"cardinalities read back {sorted(rb_card.values())}, written "
                        f"{sorted(bn['card'].values())}")]
    want_edges = [tuple(e) for e in bn["edges"]]
    rb_edges = set(view["edges"])
    if len(rb_edges) != len(want_edges):
        return [Problem("c09:uai:edges", f"{len(rb_edges)} edges read back ({sorted(rb_edges)}), {len(want_edges)} written")]
    # candidate renamings: a spec node may only map to a read-back node with the same cardinality, in/out degree
    # and multiset of table entries (first pass); without the entries if that leaves no candidate (second pass,
    # only to word the diagnosis)
    def sig_spec(v, with_values):
        c = bn["cpds"][v]
        s = (bn["card"][v], len(c["parents"]), sum(1 for a, b in want_edges if a == v))
        return s + (tuple(sorted(x for row in c["table"] for x in row)),) if with_values else s

    def sig_rb(r, with_values):
        s = (rb_card[r], sum(1 for a, b in rb_edges if b == r), sum(1 for a, b in rb_edges if a == r))
        return s + (tuple(sorted(view["cpds"][r][2].ravel().tolist())),) if with_values else s

    best = None
    n_cand = 0
    for with_values in (True, False):
        options = {v: [r for r in rb_nodes if sig_rb(r, with_values) == sig_spec(v, with_values)] for v in nodes}
        order = sorted(nodes, key=lambda v: len(options[v]))

        def rec(i, used, ren):
            if i == len(order):
                yield dict(ren)
                return
            v = order[i]
            for r in options[v]:
                if r not in used:
                    used.add(r)
                    ren[v] = r
                    yield from rec(i + 1, used, ren)
                    used.discard(r)
                    del ren[v]

        for ren in rec(0, set(), {}):
            if any((ren[a], ren[b]) not in rb_edges for a, b in want_edges):
                continue
            n_cand += 1
            if n_cand > 3000:
                break
            P = compare_bn(bn, view, "uai", ren=ren, positional=True, J=J, try_parent_perms=True)
            if not P:
                return []
            score = (sum(1 for p in P if p.generic), len(P))
            if best is None or score < best[0]:
                best = (score, P, ren)
        if best is not None:
            break
    if best is None:
        return [Problem("c09:uai:no-bijection", f"no cardinality-, degree- and edge-respecting renaming of {rb_nodes} "
                        f"onto {nodes}: edges read back {sorted(rb_edges)}, written {sorted(want_edges)}")]
    if n_cand > 3000 and any(p.generic for p in best[1]):
        return [Problem("c09:uai:search-cap", "more than 3000 admissible renamings tried without success", generic=False)]
    for p in best[1]:
        p.what += f" [best of {n_cand} renamings: {best[2]}]"
    return best[1]


def mn_view(model):
    from rv.build import to_np
    nodes = list(model.nodes())
    edges = [tuple(e) for e in model.edges()]
    factors = []
    for f in model.get_factors():
        variables = list(f.variables)
        vals = np.asarray(to_np(f.values), dtype=float)
        if vals.ndim != len(variables):
            raise ValueError(f"factor on {variables}: values of shape {vals.shape}")
        factors.append((variables, vals))
    return {"nodes": nodes, "edges": edges, "factors": factors}


def compare_mn_uai(mn, view, J):
    nodes = mn["nodes"]
    rb_nodes = list(view["nodes"])
    if len(rb_nodes) != len(nodes) or len(set(rb_nodes)) != len(nodes):
        return [Problem("c09:uai:variables", f"{len(rb_nodes)} variables read back ({sorted(rb_nodes)}), {len(nodes)} written")]
    rb_card = {}
    for variables, vals in view["factors"]:
        for x, k in zip(variables, vals.shape):
            if rb_card.setdefault(x, k) != k:
                return [Problem("c09:uai:cardinalities", f"{x} has two cardinalities among the read-back factors")]
    if set(rb_card) != set(rb_nodes):
        return [Problem("c09:uai:variables", f"read-back factors cover {sorted(rb_card)}, nodes are {sorted(rb_nodes)}")]
    if sorted(rb_card.values()) != sorted(mn["card"].values()):
        return [Problem("c09:uai:cardinalities", f"cardinalities read back {sorted(rb_card.values())}, written "
                        f"{sorted(mn['card'].values())}")]
    want_edges = {frozenset(e) for e in mn["edges"]}
    rb_edges = {frozenset(e) for e in view["edges"]}
    if len(rb_edges) != len(want_edges):
        return [Problem("c09:uai:edges", f"{len(rb_edges)} edges read back, {len(want_edges)} written")]
    if len(view["factors"]) != len(mn["factors"]):
        return [Problem("c09:uai:factors", f"{len(view['factors'])} factors read back, {len(mn['factors'])} written")]
    # un-normalised product of the read-back factors over rb_nodes
    shape = [rb_card[x] for x in rb_nodes]
    Jr = np.ones(shape)
    for variables, vals in view["factors"]:
        axes = [rb_nodes.index(x) for x in variables]
        order = sorted(range(len(axes)), key=lambda t: axes[t])
        shp = [1] * len(rb_nodes)
        for t in order:
            shp[axes[t]] = vals.shape[t]
        Jr = Jr * np.transpose(vals, order).reshape(shp)
    Zr, Z = Jr.sum(), J.sum()
    if not (Zr > 0):
        return [Problem("c09:uai:wrong-joint", "read-back factors multiply to the zero measure")]
    n_cand = 0
    worst = None
    for perm in itertools.permutations(rb_nodes):
        ren = dict(zip(nodes, perm))
        if any(rb_card[ren[v]] != mn["card"][v] for v in nodes):
            continue
        if any(frozenset((ren[a], ren[b])) not in rb_edges for a, b in mn["edges"]):
            continue
        n_cand += 1
        A = np.transpose(Jr, [rb_nodes.index(ren[v]) for v in nodes])
        if A.shape == J.shape and bool(np.all(np.abs(A / Zr - J / Z) <= 1e-12 * (J / Z) + 1e-300)):
            return []
        if worst is None and A.shape == J.shape:
            worst = first_diff(A / Zr, J / Z)
    if n_cand == 0:
        return [Problem("c09:uai:no-bijection", f"no cardinality- and edge-respecting renaming: edges read back "
                        f"{sorted(map(sorted, rb_edges))}, written {sorted(map(sorted, want_edges))}")]
    return [Problem("c09:uai:wrong-joint", f"normalised product of read-back factors differs under all {n_cand} "
                    f"admissible renamings; first: {worst}")]


# ------------------------------------------------------------------------- the round trips
def classes(fmt):
    from pgmpy.readwrite import (BIFReader, BIFWriter, NETReader, NETWriter, UAIReader, UAIWriter, XMLBIFReader,
                                 XMLBIFWriter)
    return {"bif": (BIFWriter, BIFReader), "xmlbif": (XMLBIFWriter, XMLBIFReader),
            "uai": (UAIWriter, UAIReader), "net": (NETWriter, NETReader)}[fmt]


def write_read(ctx, fmt, model, n_jobs=1, lift_threshold=False):
    """str(Writer(model)) -> Reader(string=...).get_model().  Returns (text, read-back model | None, problems)."""
    W, R = classes(fmt)

    objs = {}

    def write():
        objs["writer"] = W(model)
        if lift_threshold:
            import sys
            with np.printoptions(threshold=sys.maxsize):
                return str(objs["writer"])
        return str(objs["writer"])

    text = ctx.call(write)
    if ctx.failed(text):
        return None, None, [Problem(f"c09:exception:{text.type}@{text.where}", f"{fmt} writer raised {text!r}")]
    if not isinstance(text, str):
        return None, None, [Problem(f"c09:{fmt}:malformed-result", f"writer returned {type(text).__name__}")]

    def read():
        r = R(string=text, n_jobs=n_jobs) if fmt == "bif" else R(string=text)
        objs["reader"] = r
        return r.get_model()

    back = ctx.call(read)
    if ctx.failed(back):
        return text, None, [Problem(f"c09:exception:{back.type}@{back.where}", f"{fmt} reader raised {back!r} on the "
                                    f"writer's own output")]
    LAST.update(objs)
    return text, back, []


LAST = {}        # writer / reader objects of the most recent successful write_read (for the reuse sequences)

WRITER_GETTERS = {"bif": ["get_variables", "get_states", "get_properties", "get_parents", "get_cpds"],
                  "xmlbif": ["get_variables", "get_states", "get_properties", "get_definition", "get_values"],
                  "uai": ["get_nodes", "get_domain", "get_functions", "get_tables"],
                  "net": ["get_variables", "get_cpds", "get_properties", "get_states", "get_parents"]}
READER_GETTERS = {"bif": ["get_variables", "get_states", "get_parents", "get_edges", "get_network_name"],
                  "xmlbif": ["get_variables", "get_edges", "get_states", "get_parents", "get_values", "get_property"],
                  "uai": ["get_network_type", "get_variables", "get_domain", "get_edges", "get_tables"],
                  "net": ["get_variables", "get_states", "get_parents", "get_values", "get_edges", "get_network_name"]}


def reuse_sequences(ctx, fmt, judge, writer, reader, text, back, n_jobs=1, markov=False, gen2=True):
    """ONE writer object asked for str() again (before and after its public getters were called), ONE reader
    object asked for get_model() again after the first model was edited in place and the reader's getters were
    called, and the read-back model written and read once more (second generation).  Every answer is judged by
    the same oracle (`judge(model) -> problems`).  Returns a list of (stage, problems)."""
    W, R = classes(fmt)
    out = []

    def read_text(t):
        m = ctx.call(lambda: (R(string=t, n_jobs=n_jobs) if fmt == "bif" else R(string=t)).get_model())
        if ctx.failed(m):
            return [Problem(f"c09:exception:{m.type}@{m.where}", f"reader raised {m!r}")]
        return judge(m)

    # -- writer: str() twice, then getters, then str() again
    seen = {text}
    for stage in ("writer-second-str", "writer-str-after-getters"):
        if stage == "writer-str-after-getters":
            for g in WRITER_GETTERS[fmt]:
                r = ctx.call(getattr(writer, g))
                if ctx.failed(r):
                    out.append((stage, [Problem(f"c09:exception:{r.type}@{r.where}", f"writer.{g}() raised {r!r}")]))
        t = ctx.call(lambda: str(writer))
        if ctx.failed(t):
            out.append((stage, [Problem(f"c09:exception:{t.type}@{t.where}", f"str(writer) raised {t!r}")]))
            continue
        if t in seen:
            out.append((stage, []))          # identical text: identical reading
            continue
        seen.add(t)
        out.append((stage, read_text(t)))
    # -- reader: edit the first model in place, call getters, get_model() again
    try:
        objs = list(back.get_factors()) if markov else list(back.get_cpds())
        for c in objs:
            c.values *= 0.0
            for k in list(c.state_names):
                c.state_names[k].reverse()
        if len(list(back.nodes())) > 0:
            back.remove_node(list(back.nodes())[0])
    except Exception:
        pass                                   # editing is only a perturbation; what is judged is the next answer
    for g in READER_GETTERS[fmt]:
        ctx.call(getattr(reader, g))
    m2 = ctx.call(reader.get_model)
    if ctx.failed(m2):
        out.append(("reader-second-get-model", [Problem(f"c09:exception:{m2.type}@{m2.where}", f"second get_model() raised {m2!r}")]))
        return out
    out.append(("reader-second-get-model", judge(m2)))
    # -- second generation through the classes (BIFReader is too slow for that: BIF does it through save/load)
    if gen2 and fmt != "bif" and not out[-1][1]:
        t2 = ctx.call(lambda: str(W(m2)))
        if ctx.failed(t2):
            out.append(("second-generation", [Problem(f"c09:exception:{t2.type}@{t2.where}", f"writer raised {t2!r} on a read-back model")]))
        else:
            out.append(("second-generation", read_text(t2)))
    return out


def report_reuse(ctx, fmt, results, text):
    for stage, P in results:
        if not P:
            ctx.ok()
            continue
        key = f"c09:reuse:{fmt}:{stage}"
        if stage == "writer-str-after-getters":
            # The property is about str(Writer(model)) -> Reader(...).get_model(); what the writer's builder
            # getters do when a user calls them again by hand is outside it (XMLBIFWriter's getters append
            # their elements a second time): observed and reported as a note, never a verdict.
            ctx.note(f"writer-output-differs-after-manual-getter-calls:{fmt}")
            continue
        ctx.violation(key, f"{fmt} {stage}: {P[0].key}: {P[0].what}", text=(text or "")[:600])


def judge_bn(bn, back, fmt, J):
    try:
        view = bn_view(back)
    except Exception as e:
        return [Problem(f"c09:{fmt}:malformed-result", f"cannot read the read-back model: {type(e).__name__}: {e}")]
    if fmt == "uai":
        return compare_bn_uai(bn, view, J)
    return compare_bn(bn, view, fmt, J=J)


def roundtrip_bn(ctx, bn, fmt, build_seed, n_jobs=1, lift_threshold=False, J=None):
    import random
    from rv import build
    model = build.bayesian_network(bn, rng=random.Random(build_seed))
    if J is None:
        _, J = oracle.joint_table(bn)
    text, back, P = write_read(ctx, fmt, model, n_jobs=n_jobs, lift_threshold=lift_threshold)
    if not P:
        P = judge_bn(bn, back, fmt, J)
    return model, text, back, P


def roundtrip_mn(ctx, mn, build_seed, reuse=False):
    import random
    from rv import build
    model = build.markov_network(mn, rng=random.Random(build_seed))
    chk = ctx.call(model.check_model)
    if ctx.failed(chk):
        return None, None, None          # not a valid Markov network for pgmpy: outside the quantifier
    _, J = oracle.mn_joint(mn)
    text, back, P = write_read(ctx, "uai", model)
    if not P:
        try:
            from pgmpy.models import MarkovNetwork
            if not isinstance(back, MarkovNetwork):
                P = [Problem("c09:uai:malformed-result", f"MARKOV file read back as {type(back).__name__}")]
            else:
                P = compare_mn_uai(mn, mn_view(back), J)
        except Exception as e:
            P = [Problem("c09:uai:malformed-result", f"cannot read the read-back model: {type(e).__name__}: {e}")]
    if not P and reuse and LAST.get("writer") is not None:
        def judge(m):
            try:
                return compare_mn_uai(mn, mn_view(m), J)
            except Exception as e:
                return [Problem("c09:uai:malformed-result", f"cannot read the read-back model: {type(e).__name__}: {e}")]
        report_reuse(ctx, "uai-markov", reuse_sequences(ctx, "uai", judge, LAST["writer"], LAST["reader"], text, back,
                                                         markov=True), text)
    return model, text, P


def attribute(P, candidates, rerun):
    """P: problems of the original case.  candidates: [(key, neutraliser-id)] whose structural predicate holds.
    rerun(set of neutraliser ids) -> problems.  Generic problems are re-keyed to a mechanism key only if they
    vanish when that feature (alone, or together with the other present features) is neutralised."""
    generic = [p for p in P if p.generic]
    if not generic or not candidates:
        return P, {}
    notes = {}
    ids = [c[1] for c in candidates]
    for key, cid in candidates:
        P2 = rerun({cid})
        if not [p for p in P2 if p.generic]:
            notes[key] = 1
            kept = [p for p in P if not p.generic]
            seen = {p.key for p in kept}
            out = kept + [Problem(key, generic[0].what + f" -- passes with '{cid}' neutralised", generic=False)]
            out += [p for p in P2 if p.key not in seen]      # e.g. parent-order visible only after neutralising
            return out, notes
    if len(ids) > 1:
        Pall = rerun(set(ids))
        if not [p for p in Pall if p.generic]:
            needed = []
            for key, cid in candidates:
                Pk = rerun(set(ids) - {cid})
                if [p for p in Pk if p.generic]:
                    needed.append((key, cid))
            if needed:
                kept = [p for p in P if not p.generic]
                out = kept + [Problem(key, generic[0].what + f" -- passes only with {sorted(ids)} neutralised",
                                      generic=False) for key, cid in needed]
                seen = {p.key for p in out}
                out += [p for p in Pall if p.key not in seen]
                return out, {k: 1 for k, _ in needed}
    return P, notes


def report(ctx, P, fmt, text, **detail):
    if not P:
        ctx.ok()
        return
    seen = set()
    for p in P:
        if p.key in seen:
            continue
        seen.add(p.key)
        ctx.violation(p.key, f"{fmt}: {p.what}", text=(text or "")[:1200], **detail)


# ------------------------------------------------------------------------------- worker hooks
_SCRATCH = {"dir": None, "n": 0}


def setup(ctx):
    import atexit
    import shutil
    import tempfile
    root = os.path.join(os.path.dirname(os.path.dirname(os.path.dirname(os.path.abspath(__file__)))), "out")
    os.makedirs(root, exist_ok=True)
    d = tempfile.mkdtemp(prefix="C09-files-", dir=root)
    _SCRATCH["dir"] = d
    atexit.register(shutil.rmtree, d, True)


def teardown(ctx):
    import shutil
    d = _SCRATCH["dir"]
    if d:
        shutil.rmtree(d, ignore_errors=True)
    return {"files_written": _SCRATCH["n"]}


def save_load(ctx, bn, model, fmt, text, P_class, J, with_ext, n_jobs):
    """BayesianNetwork.save / load must agree with the writer / reader classes."""
    from pgmpy.models import BayesianNetwork
    if _SCRATCH["dir"] is None:
        setup(ctx)
    _SCRATCH["n"] += 1
    stem = os.path.join(_SCRATCH["dir"], f"m{_SCRATCH['n']}")
    path = f"{stem}.{fmt}" if with_ext else stem + "_noext"
    kw = {"n_jobs": n_jobs} if fmt == "bif" else {}
    try:
        r = ctx.call(model.save, path, filetype=fmt)
        if ctx.failed(r):
            if text is None:
                return ctx.ok()       # writer class failed too (already reported): they agree
            return ctx.violation("c09:saveload-disagrees", f"save(filetype={fmt}) raised {r!r} but the writer class "
                                 f"produced text")
        if text is None:
            return ctx.violation("c09:saveload-disagrees", f"save(filetype={fmt}) succeeded but the writer class raised")
        try:
            with open(path) as fh:
                content = fh.read()
        except Exception as e:
            return ctx.violation("c09:saveload-disagrees", f"save(filetype={fmt}) left no readable file: {e}")
        ctx.expect(content == text, "c09:saveload-disagrees",
                   f"save(filetype={fmt}) wrote {len(content)} chars that differ from str({fmt} writer) ({len(text)} chars)",
                   file=content[:600], text=text[:600])
        back = ctx.call(BayesianNetwork.load, path, filetype=fmt, **kw)
        if ctx.failed(back):
            P = [Problem(f"c09:exception:{back.type}@{back.where}", "")]
        else:
            P = judge_bn(bn, back, fmt, J)
        a, b = sorted({p.key for p in P}), sorted({p.key for p in P_class})
        # the classifier re-keys class-path problems; compare on the raw keys recorded before attribution
        ctx.expect(a == b, "c09:saveload-disagrees",
                   f"load(filetype={fmt}) gives {a or 'a correct model'}, reader class gives {b or 'a correct model'}")
        if not P and not ctx.failed(back):
            # save -> load -> save -> load: the loaded model is itself a valid network and must round-trip again
            path2 = path + ("2." + fmt if with_ext else "_2")
            try:
                r2 = ctx.call(back.save, path2, filetype=fmt)
                back2 = r2 if ctx.failed(r2) else ctx.call(BayesianNetwork.load, path2, filetype=fmt, **kw)
                if ctx.failed(back2):
                    P2 = [Problem(f"c09:exception:{back2.type}@{back2.where}", f"raised {back2!r}")]
                else:
                    P2 = judge_bn(bn, back2, fmt, J)
                if P2:
                    ctx.violation(f"c09:reuse:{fmt}:save-load-second-generation",
                                  f"save/load of the loaded model: {P2[0].key}: {P2[0].what}")
                else:
                    ctx.ok()
            finally:
                try:
                    os.remove(path2)
                except OSError:
                    pass
    finally:
        try:
            os.remove(path)
        except OSError:
            pass


# ----------------------------------------------------------------------------------- run_case
def run_case(spec, ctx):
    if spec["type"] == "mn":
        return run_mn(spec, ctx)
    bn = spec["bn"]
    nodes, J = oracle.joint_table(bn)
    ctx.nontrivial = len(nodes) >= 2 and len(bn["edges"]) >= 1
    maxpar = max(len(c["parents"]) for c in bn["cpds"].values())
    for f in ("bn", f"names:{bn['name_style']}", f"states:{bn['kind']}", f"values:{bn['val_style']}",
              f"parents:{maxpar}", "big-table" if bn_has_big_table(bn) else None,
              "elidable-table" if bn_has_elidable_table(bn) else None,
              "single-value-table" if bn_single_value_nodes(bn) else None,
              "card1" if 1 in bn["card"].values() else None,
              "card>=10 mixed with 2..9" if (any(c >= 10 for c in bn["card"].values()) and
                                             any(2 <= c <= 9 for c in bn["card"].values())) else None,
              "exponent-entries" if bn_has_exponent(bn) else None,
              "exact-keyword-variable" if any(v.lower() in EXACT_KEYWORDS for v in bn["nodes"]) else None,
              "exact-keyword-parent" if any(p.lower() in EXACT_KEYWORDS for c in bn["cpds"].values() for p in c["parents"]) else None,
              "exact-keyword-child" if any(v.lower() in EXACT_KEYWORDS and c["parents"] for v, c in bn["cpds"].items()) else None,
              "exact-keyword-state" if any(isinstance(x, str) and x.lower() in EXACT_KEYWORDS
                                           for v in bn["nodes"] for x in bn["states"][v]) else None,
              "exact-keyword-parent-state" if any(isinstance(x, str) and x.lower() in EXACT_KEYWORDS
                                                  for c in bn["cpds"].values() for p in c["parents"]
                                                  for x in bn["states"][p]) else None,
              "underscore-lead-name" if any(v.startswith("_") for v in bn_names(bn)) else None,
              "keyword-in-name" if any(k in x.lower() for x in bn_names(bn) for k in KEYWORDS if len(k) > 3) else None,
              "n_jobs=2" if spec.get("n_jobs", 1) != 1 else None):
        if f:
            ctx.feature(f)
    seed = spec["build_seed"]
    for fmt in spec.get("formats", FORMATS):
        ctx.feature("fmt:" + fmt)
        n_jobs = spec.get("n_jobs", 1) if fmt == "bif" else 1
        model, text, back, P = roundtrip_bn(ctx, bn, fmt, seed, n_jobs=n_jobs, J=J)
        raw = list(P)
        objs = dict(LAST)
        if P:
            cands = []
            if fmt == "bif" and bif_exact_keyword_names(bn):
                cands.append(("c09:bif:keyword-name", "exact-names"))
            if fmt == "net" and net_exact_keyword_names(bn):
                cands.append(("c09:net:keyword-name", "exact-names"))
            if fmt == "bif" and bif_keyword_feature(bn):
                cands.append(("c09:bif:keyword-substring", "names"))
            if fmt == "net" and net_keyword_feature(bn):
                cands.append(("c09:net:keyword-substring", "names"))
            if fmt == "net" and bn_has_elidable_table(bn):
                cands.append(("c09:net:print-threshold", "threshold"))
            if fmt == "uai" and bn_has_exponent(bn):
                cands.append(("c09:uai:exponent", "exponent"))
            if fmt == "uai" and bn_single_value_nodes(bn):
                cands.append(("c09:uai:single-value-table", "single"))
            if fmt == "uai" and single_multidigit(bn):
                cands.append(("c09:uai:single-variable-domain", "second-node"))

            def rerun(ids, fmt=fmt):
                b2 = bn
                if "names" in ids:
                    b2 = bn_renamed(b2)
                elif "exact-names" in ids:
                    b2 = bn_renamed(b2, only=bif_exact_keyword_names(bn) if fmt == "bif" else net_exact_keyword_names(bn))
                if "exponent" in ids:
                    b2 = bn_without_exponent(b2)
                if "second-node" in ids:
                    b2 = bn_with_second_node(b2)
                if "single" in ids:
                    b2 = bn_without_single_value_nodes(b2)
                    if not b2["nodes"]:
                        return []           # nothing but single-value tables: nothing left that could fail
                return roundtrip_bn(ctx, b2, fmt, seed, lift_threshold="threshold" in ids)[3]

            P, notes = attribute(P, cands, rerun)
            for k in notes:
                ctx.note("classified:" + k)
        report(ctx, P, fmt, text, nodes=bn["nodes"], parents={v: c["parents"] for v, c in bn["cpds"].items()},
               card=bn["card"])
        n_entries = sum(len(c["table"]) * len(c["table"][0]) for c in bn["cpds"].values())
        if not raw and objs.get("writer") is not None and objs.get("reader") is not None and \
                (fmt != "uai" or n_entries <= 600):      # UAIReader re-parses the whole file once per function
            # object reuse / call sequences (only when the fresh-object round trip is right, so that nothing is masked)
            ctx.feature("reuse:" + fmt)
            res = reuse_sequences(ctx, fmt, lambda m, fmt=fmt: judge_bn(bn, m, fmt, J), objs["writer"], objs["reader"],
                                  text, back, n_jobs=n_jobs)
            report_reuse(ctx, fmt, res, text)
        if fmt in SAVELOAD and (fmt != "bif" or spec.get("sl_bif", True)):
            ctx.feature("saveload:" + fmt)
            save_load(ctx, bn, model, fmt, text, raw, J, spec.get("sl_ext", True), n_jobs)


def run_mn(spec, ctx):
    mn = spec["mn"]
    seed = spec["build_seed"]
    model, text, P = roundtrip_mn(ctx, mn, seed, reuse=True)
    if model is None:
        ctx.note("mn-invalid-skipped")
        return
    ctx.nontrivial = len(mn["edges"]) >= 1
    for f in ("mn", f"mn-values:{mn.get('val_style')}", "mn-isolated-node" if mn_isolated(mn) else None,
              "card>=10 mixed with 2..9" if (any(c >= 10 for c in mn["card"].values()) and
                                             any(2 <= c <= 9 for c in mn["card"].values())) else None,
              "exponent-entries" if mn_has_exponent(mn) else None):
        if f:
            ctx.feature(f)
    if P:
        cands = []
        if mn_has_exponent(mn):
            cands.append(("c09:uai:exponent", "exponent"))
        if mn_isolated(mn) and len(mn["nodes"]) > 1:
            cands.append(("c09:uai:markov-isolated-node", "isolated"))
        if single_multidigit(mn):
            cands.append(("c09:uai:single-variable-domain", "second-node"))

        def rerun(ids):
            m2 = mn
            if "exponent" in ids:
                m2 = mn_without_exponent(m2)
            if "isolated" in ids:
                m2 = mn_without_isolated(m2)
            if "second-node" in ids:
                m2 = mn_with_second_node(m2)
            r = roundtrip_mn(ctx, m2, seed)
            return r[2] if r[0] is not None else [Problem("c09:uai:neutralised-invalid", "neutralised network invalid")]

        P, notes = attribute(P, cands, rerun)
        for k in notes:
            ctx.note("classified:" + k)
    report(ctx, P, "uai-markov", text, nodes=mn["nodes"], edges=mn["edges"], card=mn["card"],
           scopes=[f["vars"] for f in mn["factors"]])
