"""C06 - parameter learning returns the closed-form estimates.

Observe: model.fit(data, estimator, **prior) on BayesianNetwork and DAG, MaximumLikelihoodEstimator /
BayesianEstimator .get_parameters / .estimate_cpd, BayesianNetwork.fit_update, and for
ExpectationMaximization the per-iteration CPD sets (spy on `_is_converged`, which is called exactly once per
iteration with the new CPDs while `model_copy.cpds` still holds the previous ones) plus the final return.
Oracle : counts by a plain Python loop over the rows of the caller's data (dict keyed by *named* states):
  MLE        N(c, pa) / N(pa), uniform where N(pa) = 0
  Bayesian   (N + a) / (N(pa) + sum a) with a = 1 (K2), ess / (r q) (BDeu) or the explicit Dirichlet table
  fit_update Bayesian with a = n_prev * previous CPD (read per named assignment before the call)
  EM         observed-data log-likelihood (brute force over latent states) of every recorded CPD set must not
             decrease; with no latent variable the result is the MLE
every comparison is made per named assignment, so it does not depend on the evidence order of the result.
"""
import itertools
import math

from rv import gen, oracle

PLAN = {
    "quick": {"cases": 1920, "hashseeds": 3, "shards": 5, "timeout": 420, "min_nontrivial": 800},
    "thorough": {"cases": 9600, "hashseeds": 8, "shards": 2, "timeout": 3000, "min_nontrivial": 4000},
}
RULE = ("case idx%8: 0 -> EM case, 1-2 -> fit_update case, 3-6 -> fit case, 7 -> object-reuse sequence. World = random DAG (templates of "
        "gen.rand_dag_edges: ER, chain, collider, fork, family, two parts, isolated node; string node names whose "
        "sorted order differs from insertion order) with a random ground-truth BN (zeros / deterministic columns "
        "=> sparse data, unseen parent configurations); 5-300 rows sampled ancestrally; columns int64/int32/int8 "
        "(0-based, 1-based, gapped), category (str / int categories, unused categories, ordered or not), object "
        "(str / int); declared state_names (full or partial dict, permuted, with 0-2 never-observed extra states) "
        "in ~45% of cases; `_weight` column (incl. zero weights) in ~25%. fit case: prior in {MLE, K2, BDeu(ess "
        "scalar or per-node dict), Dirichlet scalar, Dirichlet tables} x routes {BayesianNetwork.fit, "
        "Estimator.get_parameters, Estimator.estimate_cpd per node, row shuffle, column shuffle, node/edge "
        "insertion shuffle, DAG.fit}. fit_update case: previous CPDs built by hand with shuffled evidence order "
        "or by fit on a first chunk; 1-2 successive updates, n_prev None or given; row/column shuffled variants. "
        "EM case: 1-4 observed columns (<= 60 rows) + 0-2 latent nodes (card 1-3, as parents / mediators / "
        "children), seed fixed, max_iter 1-6 (8 thorough), init_cpds (ground truth, random positive, subset) in "
        "half the cases, routes direct / model.fit / DAG.fit. Sequence case: ONE estimator object answering 4-8 "
        "different estimate_cpd / get_parameters calls (nodes, priors, hyper-parameters, weighted flag vary; returned "
        "CPDs are overwritten by the checker between calls), ONE BayesianNetwork fitted / fit_update'd 3-5 times on "
        "different row ranges, priors and column orders, ONE ExpectationMaximization object asked 2-3 times with "
        "different latent_card / seed / max_iter / init_cpds; every answer judged against the oracle of THAT call. "
        "Boundary values: 1-3 row data, single-state columns, state '' and multi-digit ints, state_names={}, weights "
        "0 / 1e-9 / 1e6 / non-integer mixed in one column, `_weight` column present but weighted=False, ess and "
        "pseudo counts 1e-6 / 1e6 / non-integer / integer-typed / 0 and 0.0 (only when every parent configuration is "
        "observed), n_prev_samples 0 / 0.0 (same condition) / 1 / 2.5 / 1e-6 / 1e6, EM seed 0. non-trivial: >= 2 columns and >= 1 edge (fit, "
        "update); >= 1 latent and >= 1 recorded iteration (EM). distinct by digest of the whole spec")
ASSUMPTIONS = [
    "counts are taken by a Python loop over the generated rows; float64 comparison per named assignment, purely "
    "relative (rtol 1e-9) because weights and pseudo counts span 1e-9..1e6",
    "a zero prior (ess, pseudo count or n_prev_samples equal to 0) is only used when every parent configuration is "
    "observed; otherwise the posterior is 0/0 and the statement promises nothing",
    "undeclared state names are the sorted distinct values of the column (pgmpy documentation)",
    "an explicit Dirichlet table is laid out like the returned CPD: rows = states of the node in declared order, "
    "columns = row-major configurations of the sorted parents (documented layout of pseudo_counts)",
    "EM monotonicity is judged on the brute-force observed-data log-likelihood of the CPD sets seen by "
    "_is_converged; runs whose E-step touches the implementation's 1e-10 probability clamp are counted and "
    "excluded from the monotonicity verdict",
    "node names are strings (integer column names are refused by pandas unstack and are outside the domain)",
]
REACH = [
    "pgmpy.estimators.base:BaseEstimator.state_counts",
    "pgmpy.estimators.base:ParameterEstimator.state_counts",
    "pgmpy.estimators.MLE:MaximumLikelihoodEstimator.estimate_cpd",
    "pgmpy.estimators.MLE:MaximumLikelihoodEstimator.get_parameters",
    "pgmpy.estimators.BayesianEstimator:BayesianEstimator.estimate_cpd",
    "pgmpy.estimators.BayesianEstimator:BayesianEstimator.get_parameters",
    "pgmpy.models.BayesianNetwork:BayesianNetwork.fit_update",
    "pgmpy.base.DAG:DAG.fit",
    "pgmpy.estimators.EM:ExpectationMaximization.get_parameters",
    "pgmpy.estimators.EM:ExpectationMaximization._compute_weights",
    "pgmpy.estimators.EM:ExpectationMaximization._parallel_compute_weights",
    "pgmpy.estimators.EM:ExpectationMaximization._is_converged",
    "pgmpy.utils.utils:preprocess_data",
]
REACH_REQUIRED = list(REACH)
MANIFEST = {
    "text": "On generated DAGs and complete discrete data sets, every CPD returned by MLE / Bayesian fitting / "
            "fit_update equals the closed-form estimate computed from row counts per named assignment, the "
            "fitted network validates, results are invariant to row, column and insertion order, and every "
            "recorded EM run has a non-decreasing observed-data likelihood (and equals MLE without latents).",
    "note": "trusted: Python row-count oracle, brute-force latent marginalisation, float64 at 1e-9.",
    "technique": "runtime monitoring with a reference-model oracle and a recorded-trace monotonicity check",
}

K_ISO_BE = "c06:bayes-estimator-drops-isolated-nodes"
K_ISO_DAG = "c06:dag-fit-drops-isolated-nodes"
K_LAT_DAG = "c06:dag-fit-drops-latents"
K_UPD_ORDER = "c06:fit-update-prior-in-old-parent-order"
K_EM_1COL = "c06:em-single-observed-column-keyerror"
# closed-form estimates are ratios of positive sums: both sides carry a relative rounding error of a few
# hundred ulp whatever the magnitudes of weights / pseudo counts, so the comparison is relative
REL_TOL = dict(atol=1e-300, rtol=1e-9)

NAME_POOL = ["a", "b", "c", "d", "X", "Y", "Zed", "x1", "x10", "x2", "Ab", "aB", "n_0", "m", "w", "K", "q9"]
STR_POOL = ["lo", "hi", "mid", "Z", "a", "B", "10", "9", "yes", "no", "s_1", "s_0", "Up", "dn", "", "0"]
INT_POOL = list(range(-3, 40)) + [100, 255, 1000, -17, 12345, 70000]
EXTREME = [1e-9, 1e-6, 0.37, 1.0, 2.5, 1e3, 1e6]
LAT_POOL = ["L", "H", "lat", "U"]


# ------------------------------------------------------------------------------ generators
def _states(rng, k, kind, n_extra):
    """k true state values (random order) + n_extra never-generated values of the same type."""
    tot = k + n_extra
    if kind == "int0":
        vals = list(range(tot))
        return _shuf(rng, vals[:k]), vals[k:]
    if kind == "int1":
        vals = list(range(1, tot + 1))
        return _shuf(rng, vals[:k]), vals[k:]
    if kind in ("gap", "catint", "objint"):
        vals = rng.sample(INT_POOL, tot)
        return vals[:k], vals[k:]
    vals = rng.sample(STR_POOL, tot)
    return vals[:k], vals[k:]


def _shuf(rng, l):
    l = list(l)
    rng.shuffle(l)
    return l


def gen_world(rng, n, cards, max_parents=3, n_rows=None, zeros=True, kinds=None, names=None, shape=None):
    names = names or rng.sample(NAME_POOL, n)
    edges = [list(e) for e in gen.rand_dag_edges(rng, list(names), max_parents=max_parents, shape=shape)]
    kinds = kinds or ["int0", "int0", "int1", "gap", "cat", "cat", "obj", "catint", "objint"]
    mono = rng.random() < 0.3
    k0 = rng.choice(kinds)
    kind, card, T, extra, npdtype, cats, ordered = {}, {}, {}, {}, {}, {}, {}
    for v in names:
        kind[v] = k0 if mono else rng.choice(kinds)
        card[v] = rng.choice(cards)
        T[v], extra[v] = _states(rng, card[v], kind[v], rng.choice([0, 0, 1, 2]))
        big = max([abs(x) for x in T[v] + extra[v] if isinstance(x, int)] or [0])
        npdtype[v] = rng.choice(["int64", "int64", "int32"] + (["int8"] if big < 128 else []))
        # category order is arbitrary; unused categories in some columns
        cats[v] = _shuf(rng, T[v] + (extra[v][:1] if rng.random() < 0.3 else []))
        ordered[v] = rng.random() < 0.25
    par = gen.parents_of(list(names), [tuple(e) for e in edges])
    truth = {}
    for v in names:
        q = 1
        for p in par[v]:
            q *= card[p]
        truth[v] = {"parents": list(par[v]), "table": gen.rand_cpt(rng, card[v], q, zeros)}
    return {"nodes": list(names), "edges": edges, "kind": kind, "card": card, "T": T, "extra": extra,
            "npdtype": npdtype, "cats": cats, "ordered": ordered, "truth": truth}


def sample_rows(rng, w, n_rows):
    """Ancestral sampling of state *indices* from the ground truth; returns {v: [values]}."""
    nodes, edges = w["nodes"], [tuple(e) for e in w["edges"]]
    order = gen.topo_order(nodes, edges)
    data = {v: [] for v in nodes}
    for _ in range(n_rows):
        a = {}
        for v in order:
            c = w["truth"][v]
            col = 0
            for p in c["parents"]:
                col = col * w["card"][p] + a[p]
            u, acc, pick = rng.random(), 0.0, w["card"][v] - 1
            for i in range(w["card"][v]):
                acc += c["table"][i][col]
                if u < acc:
                    pick = i
                    break
            a[v] = pick
        for v in nodes:
            data[v].append(a[v])
    return data


def gen_rows_count(rng, tier):
    r = rng.random()
    if r < 0.05:
        return rng.choice([1, 1, 2, 3])          # single-row / tiny data
    if r < 0.25:
        return rng.randint(5, 15)
    if r < 0.8:
        return rng.randint(16, 90)
    return rng.randint(91, 300)


def gen_declared(rng, w, obs, full=False, p=0.45):
    if not full and rng.random() >= p:
        return {} if rng.random() < 0.08 else None      # empty dict: every state list is collected from the data
    dec = {}
    for v in obs:
        if full or rng.random() < 0.8:
            dec[v] = _shuf(rng, w["T"][v] + w["extra"][v])
    return dec


def gen_weights(rng, n, p=0.25):
    """`_weight` column: small integers, non-integers, zeros, magnitudes 1e-9..1e6 mixed in one column,
    all tiny, all huge."""
    if rng.random() >= p:
        return None
    mode = rng.random()
    ws = []
    for _ in range(n):
        if mode < 0.2:
            ws.append(float(rng.randint(1, 4)))
        elif mode < 0.7:
            ws.append(round(rng.uniform(0.05, 3.0), 3))
            if mode > 0.55 and rng.random() < 0.15:
                ws[-1] = 0.0
        elif mode < 0.86:
            ws.append(rng.choice(EXTREME))
            if rng.random() < 0.05:
                ws[-1] = 0.0
        elif mode < 0.93:
            ws.append(1e-9 * rng.randint(1, 9))
        else:
            ws.append(round(1e6 * rng.uniform(0.5, 2.0), 2))
    if sum(ws) == 0:
        ws[0] = 1.0
    return ws


def all_configs_seen(spec, S, rows, weighted):
    """True iff every parent configuration of every node has a positive (weighted) count in `rows`."""
    spa = sorted_parents(spec)
    for v in spec["nodes"]:
        N = counts(spec, v, spa[v], rows, weighted)
        for cfg in itertools.product(*[S[p] for p in spa[v]]):
            if sum(N.get((c, cfg), 0.0) for c in S[v]) <= 0:
                return False
    return True


def eff_states(spec):
    """Effective state names per observed column: declared list, else sorted distinct data values."""
    dec = spec.get("declared") or {}
    S = {}
    for v in spec["obs"]:
        S[v] = list(dec[v]) if v in dec else sorted(set(spec["data"][v]))
    return S


def sorted_parents(spec):
    par = gen.parents_of(spec["nodes"], [tuple(e) for e in spec["edges"]])
    return {v: sorted(par[v]) for v in spec["nodes"]}


ESS = [0.5, 1, 5, 10, 3, 2.5, 7.25, 1e-6, 1e6]
PC = [0.5, 1, 2, 3.5, 0.01, 1e-6, 1e6, 2.0]
PC_TAB = [0.1, 0.5, 1.0, 2.0, 4.0, 7.5]


def gen_prior(rng, spec, S, bayes_only=False, allow_zero=False):
    """allow_zero: every parent configuration is observed, so a zero prior (ess / pseudo count 0, 0.0) still
    gives a defined posterior (= MLE)."""
    r = rng.uniform(0.3, 1.0) if bayes_only else rng.random()
    zero = [0, 0.0] if allow_zero else []
    if r < 0.3:
        return {"type": "mle"}
    if r < 0.42:
        return {"type": "K2"}
    if r < 0.66:
        if rng.random() < 0.3:
            return {"type": "BDeu", "ess": {v: rng.choice(ESS + zero) for v in spec["nodes"]}}
        return {"type": "BDeu", "ess": rng.choice(ESS + zero + zero)}
    if r < 0.78:
        return {"type": "dirichlet", "pc": rng.choice(PC + zero + zero)}
    spa = sorted_parents(spec)
    tables = {}
    pool = PC_TAB if rng.random() < 0.6 else EXTREME         # magnitudes mixed within one table
    ints = rng.random() < 0.15                                # integer-typed entries
    for v in spec["nodes"]:
        q = 1
        for p in spa[v]:
            q *= len(S[p])
        tables[v] = [[(rng.randint(1, 9) if ints else rng.choice(pool)) for _ in range(q)] for _ in range(len(S[v]))]
    return {"type": "dirichlet", "tables": tables}


def gen_fit(rng, tier):
    thorough = tier == "thorough"
    n = rng.choice([1, 2, 2, 3, 3, 4, 4, 5] + ([5, 6] if thorough else []))
    cards = [1, 2, 2, 2, 3, 3, 4] + ([5] if thorough else [])
    w = gen_world(rng, n, cards)
    n_rows = gen_rows_count(rng, tier)
    idx = sample_rows(rng, w, n_rows)
    data = {v: [w["T"][v][i] for i in idx[v]] for v in w["nodes"]}
    spec = dict(w, mode="fit", obs=list(w["nodes"]), latents=[], data=data, n_rows=n_rows,
                declared=gen_declared(rng, w, w["nodes"]), weights=gen_weights(rng, n_rows))
    S = eff_states(spec)
    # a `_weight` column may be present and still not be asked for
    spec["weighted"] = spec["weights"] is not None and rng.random() < 0.85
    spec["prior"] = gen_prior(rng, spec, S,
                              allow_zero=all_configs_seen(spec, S, range(n_rows), spec["weighted"]))
    spec["perm_rows"] = _shuf(rng, range(n_rows))
    spec["perm_cols"] = _shuf(rng, w["nodes"])
    spec["perm_nodes"] = _shuf(rng, w["nodes"])
    spec["perm_edges"] = _shuf(rng, w["edges"])
    extra = rng.sample(["rows", "cols", "edges", "dag"], rng.choice([2, 3, 4]))
    spec["routes"] = ["bn", "est", "cpd"] + extra
    spec["n_jobs"] = 2 if (thorough and rng.random() < 0.03) else 1
    return spec


def gen_update(rng, tier):
    thorough = tier == "thorough"
    n = rng.choice([1, 2, 3, 3, 4, 4, 5] + ([6] if thorough else []))
    cards = [1, 2, 2, 2, 3, 3, 4]
    w = gen_world(rng, n, cards)
    n_rows = max(6, gen_rows_count(rng, tier))
    idx = sample_rows(rng, w, n_rows)
    data = {v: [w["T"][v][i] for i in idx[v]] for v in w["nodes"]}
    spec = dict(w, mode="update", obs=list(w["nodes"]), latents=[], data=data, n_rows=n_rows,
                declared=gen_declared(rng, w, w["nodes"], full=True), weights=None)
    S = eff_states(spec)
    if rng.random() < 0.65:
        old = {"how": "hand", "cpds": {}}
        par = gen.parents_of(w["nodes"], [tuple(e) for e in w["edges"]])
        for v in w["nodes"]:
            pa = _shuf(rng, par[v])
            q = 1
            for p in pa:
                q *= len(S[p])
            old["cpds"][v] = {"parents": pa, "table": gen.rand_cpt(rng, len(S[v]), q, zeros=rng.random() < 0.5)}
        first = 0
    else:
        first = rng.randint(2, max(2, n_rows // 2))
        old = {"how": "fit", "first": first}
    spec["old"] = old
    rest = n_rows - first
    if rest >= 4 and rng.random() < 0.5:
        cut = first + rng.randint(1, rest - 1)
        chunks = [[first, cut], [cut, n_rows]]
    else:
        chunks = [[first, n_rows]]
    spec["chunks"] = chunks
    spec["n_prev"] = []
    for lo, hi in chunks:
        np_ = rng.choice([None, None, None, 1, 7, 50, 1000, 2.5, 1e-6, 1e6, 0, 0.0])
        if np_ is not None and np_ == 0 and not all_configs_seen(spec, S, range(lo, hi), False):
            np_ = 1                    # a zero prior leaves unseen configurations undefined (0/0)
        spec["n_prev"].append(np_)
    spec["perm_cols"] = _shuf(rng, w["nodes"])
    spec["perm_seed"] = rng.randrange(10 ** 6)
    spec["perm_nodes"] = _shuf(rng, w["nodes"])
    spec["perm_edges"] = _shuf(rng, w["edges"])
    return spec


def gen_em(rng, tier):
    thorough = tier == "thorough"
    r = rng.random()
    n_obs = 1 if r < 0.06 else rng.choice([2, 2, 3, 3, 4])
    n_lat = rng.choice([0, 1, 1, 1, 1, 1, 2, 2] if n_obs >= 2 else [0, 1])
    obs = rng.sample(NAME_POOL, n_obs)
    lats = rng.sample(LAT_POOL, n_lat)
    names = _shuf(rng, obs + lats)
    w = gen_world(rng, len(names), [2, 2, 2, 3], max_parents=2, zeros=False, names=names,
                  kinds=["int0", "int1", "gap", "cat", "obj", "catint"])
    # every latent touches at least one observed node
    for L in lats:
        if not any(L in e for e in w["edges"]) and obs:
            tgt = rng.choice(obs)
            par = gen.parents_of(w["nodes"], [tuple(e) for e in w["edges"]])
            if len(par[tgt]) < 2:
                w["edges"].append([L, tgt])
                c = w["truth"][tgt]
                c["parents"] = c["parents"] + [L]
                q = len(c["table"][0]) * w["card"][L]
                c["table"] = gen.rand_cpt(rng, w["card"][tgt], q, zeros=False)
    lat_card = {}
    for L in lats:
        w["card"][L] = w["card"][L] if rng.random() > 0.08 else 1
        w["T"][L] = list(range(w["card"][L]))
        w["kind"][L] = "latent"
        lat_card[L] = w["card"][L]
    if any(w["card"][L] == 1 for L in lats):
        # regenerate ground truth tables consistently with the changed cardinalities
        par = gen.parents_of(w["nodes"], [tuple(e) for e in w["edges"]])
        for v in w["nodes"]:
            q = 1
            for p in w["truth"][v]["parents"]:
                q *= w["card"][p]
            w["truth"][v]["table"] = gen.rand_cpt(rng, w["card"][v], q, zeros=False)
    n_rows = rng.randint(8, 60)
    idx = sample_rows(rng, w, n_rows)
    data = {v: [w["T"][v][i] for i in idx[v]] for v in obs}
    init_mode = rng.choice(["none", "none", "truth", "truth", "random", "subset"]) if lats else "none"
    if init_mode == "truth":
        declared = {v: list(w["T"][v]) for v in obs}          # S == T so that truth tables apply as they are
    else:
        declared = gen_declared(rng, w, obs, p=0.4)
    spec = dict(w, mode="em", obs=obs, latents=lats, data=data, n_rows=n_rows, declared=declared, weights=None)
    S = eff_states(spec)
    for L in lats:
        S[L] = list(range(lat_card[L]))
    par = gen.parents_of(w["nodes"], [tuple(e) for e in w["edges"]])
    involved = [v for v in w["nodes"] if v in lats or any(p in lats for p in par[v])]
    init = {}
    if init_mode == "truth":
        for v in involved:
            init[v] = {"parents": list(w["truth"][v]["parents"]), "table": w["truth"][v]["table"]}
    elif init_mode in ("random", "subset"):
        who = involved if init_mode == "random" else rng.sample(involved, max(1, len(involved) // 2))
        if init_mode == "subset" and rng.random() < 0.3:
            cand = [v for v in obs if v not in involved]
            if cand:
                who = who + [rng.choice(cand)]
        for v in who:
            pa = _shuf(rng, par[v])
            q = 1
            for p in pa:
                q *= len(S[p])
            init[v] = {"parents": pa, "table": gen.rand_cpt(rng, len(S[v]), q, zeros=False)}
    spec["init"] = init
    spec["init_mode"] = init_mode
    spec["latent_card"] = None if (lats and all(lat_card[L] == 2 for L in lats) and rng.random() < 0.4) else lat_card
    spec["max_iter"] = rng.randint(1, 8 if thorough else 6)
    spec["seed"] = 0 if rng.random() < 0.1 else rng.randrange(1000)
    spec["atol"] = rng.choice([1e-8, 1e-8, 1e-12])
    spec["route"] = rng.choice(["direct", "direct", "direct", "fit", "fit", "fit", "fit", "dagfit"])
    spec["perm_nodes"] = _shuf(rng, w["nodes"])
    spec["perm_edges"] = _shuf(rng, w["edges"])
    spec["perm_cols"] = _shuf(rng, obs)
    return spec


def gen_seq(rng, tier):
    """Object reuse: ONE estimator object serving several different calls, ONE model fitted / fit_update'd
    repeatedly, ONE ExpectationMaximization object asked for parameters several times."""
    kind = rng.choice(["est", "est", "model", "model", "em"])
    if kind == "em":
        return gen_seq_em(rng, tier)
    n = rng.choice([2, 3, 3, 4, 5])
    w = gen_world(rng, n, [1, 2, 2, 2, 3, 3, 4])
    n_rows = min(150, max(4, gen_rows_count(rng, tier)))
    idx = sample_rows(rng, w, n_rows)
    data = {v: [w["T"][v][i] for i in idx[v]] for v in w["nodes"]}
    spec = dict(w, mode="seq", seq=kind, obs=list(w["nodes"]), latents=[], data=data, n_rows=n_rows,
                declared=gen_declared(rng, w, w["nodes"], full=(kind == "model")),
                weights=gen_weights(rng, n_rows, p=0.8))
    S = eff_states(spec)
    spec["perm_nodes"] = _shuf(rng, w["nodes"])
    spec["perm_edges"] = _shuf(rng, w["edges"])
    has_w = spec["weights"] is not None
    if kind == "est":
        spec["est"] = rng.choice(["mle", "bayes", "bayes"])
        ops = []
        for _ in range(rng.randint(4, 7)):
            wt = has_w and rng.random() < 0.5
            prior = {"type": "mle"} if spec["est"] == "mle" else \
                gen_prior(rng, spec, S, bayes_only=True, allow_zero=all_configs_seen(spec, S, range(n_rows), wt))
            op = {"op": "cpd" if rng.random() < 0.6 else "params", "node": rng.choice(w["nodes"]), "prior": prior,
                  "weighted": wt, "scribble": rng.random() < 0.5}
            ops.append(op)
            if rng.random() < 0.25:
                ops.append(dict(op, scribble=False))          # the same question again, right after
        spec["ops"] = ops
    else:
        steps = []
        for k in range(rng.randint(3, 5)):
            lo = rng.randrange(0, n_rows - 1)
            hi = rng.randint(lo + 1, n_rows)
            if k == 0 or rng.random() < 0.55:
                wt = has_w and rng.random() < 0.5
                sub = dict(spec)
                prior = gen_prior(rng, sub, S, allow_zero=all_configs_seen(spec, S, range(lo, hi), wt))
                steps.append({"op": "fit", "rows": [lo, hi], "prior": prior, "weighted": wt,
                              "cols": _shuf(rng, w["nodes"])})
            else:
                steps.append({"op": "update", "rows": [lo, hi], "n_prev": rng.choice([None, 1, 7, 2.5, 1e6, 1e-6]),
                              "cols": _shuf(rng, w["nodes"])})
        spec["steps"] = steps
    return spec


def gen_seq_em(rng, tier):
    while True:
        spec = gen_em(rng, tier)
        if spec["latents"] and len(spec["obs"]) >= 2:
            break
    spec["mode"], spec["seq"], spec["route"] = "seq", "em", "direct"
    S = eff_states(spec)
    par = gen.parents_of(spec["nodes"], [tuple(e) for e in spec["edges"]])
    lats = spec["latents"]
    involved = [v for v in spec["nodes"] if v in lats or any(p in lats for p in par[v])]
    calls = [{"latent_card": spec["latent_card"], "max_iter": spec["max_iter"], "seed": spec["seed"],
              "atol": spec["atol"], "init": spec["init"], "init_mode": spec["init_mode"]}]
    for _ in range(rng.randint(1, 2)):
        lc = {L: rng.choice([1, 2, 2, 3]) for L in lats}
        Sx = dict(S)
        Sx.update({L: list(range(lc[L])) for L in lats})
        init = {}
        if rng.random() < 0.4:
            for v in rng.sample(involved, rng.randint(1, len(involved))):
                pa = _shuf(rng, par[v])
                q = 1
                for p in pa:
                    q *= len(Sx[p])
                init[v] = {"parents": pa, "table": gen.rand_cpt(rng, len(Sx[v]), q, zeros=False)}
        same = rng.random() < 0.2           # the identical question again must give the identical kind of answer
        calls.append(dict(calls[0]) if same else
                     {"latent_card": None if all(c == 2 for c in lc.values()) and rng.random() < 0.5 else lc,
                      "max_iter": rng.randint(1, 6), "seed": rng.choice([0, rng.randrange(1000)]),
                      "atol": rng.choice([1e-8, 1e-12]), "init": init, "init_mode": "random" if init else "none"})
    spec["calls"] = calls
    return spec


def gen_case(seed, idx, tier):
    rng = gen.rng_for("C06", seed, idx)
    m = idx % 8
    if m == 0:
        return gen_em(rng, tier)
    if m in (1, 2):
        return gen_update(rng, tier)
    if m == 7:
        return gen_seq(rng, tier)
    return gen_fit(rng, tier)


# ---------------------------------------------------------------------------------- oracle
def counts(spec, v, pa, rows, weighted):
    """{(state of v, (states of pa...)): weight sum} by a plain loop over the rows."""
    data, ws = spec["data"], spec.get("weights")
    N = {}
    for i in rows:
        key = (data[v][i], tuple(data[p][i] for p in pa))
        N[key] = N.get(key, 0.0) + (ws[i] if (weighted and ws is not None) else 1.0)
    return N


def closed_form(v, pa, S, N, alpha):
    """Named CPD {frozenset((var, state)..): value}.  alpha is None for MLE, else alpha(i, j, c, cfg)."""
    out, unseen = {}, 0
    sv = S[v]
    r = len(sv)
    for j, cfg in enumerate(itertools.product(*[S[p] for p in pa])):
        n = [N.get((c, cfg), 0.0) for c in sv]
        tot = sum(n)
        if tot == 0:
            unseen += 1
        if alpha is None:
            vals = [x / tot for x in n] if tot > 0 else [1.0 / r] * r
        else:
            a = [alpha(i, j, c, cfg) for i, c in enumerate(sv)]
            den = tot + sum(a)
            vals = [(x + y) / den for x, y in zip(n, a)] if den > 0 else [float("nan")] * r
        for c, val in zip(sv, vals):
            out[frozenset([(v, c)] + list(zip(pa, cfg)))] = val
    return out, unseen


def prior_alpha(prior, v, r, q):
    t = prior["type"]
    if t == "mle":
        return None
    if t == "K2":
        return lambda i, j, c, cfg: 1.0
    if t == "BDeu":
        ess = prior["ess"][v] if isinstance(prior["ess"], dict) else prior["ess"]
        return lambda i, j, c, cfg: float(ess) / (r * q)
    if "pc" in prior:
        return lambda i, j, c, cfg: float(prior["pc"])
    tab = prior["tables"][v]
    return lambda i, j, c, cfg: float(tab[i][j])


def expected_fit(spec, S, rows, weighted):
    spa = sorted_parents(spec)
    exp, unseen = {}, 0
    for v in spec["nodes"]:
        pa = spa[v]
        q = 1
        for p in pa:
            q *= len(S[p])
        N = counts(spec, v, pa, rows, weighted)
        exp[v], u = closed_form(v, pa, S, N, prior_alpha(spec["prior"], v, len(S[v]), q))
        unseen += u
    return exp, unseen


def isolated_nodes(spec):
    touched = set()
    for u, v in spec["edges"]:
        touched.add(u)
        touched.add(v)
    return [v for v in spec["nodes"] if v not in touched]


# --------------------------------------------------------------------------- building objects
def make_frame(spec, cols, rows, with_weight):
    """The caller's frame; `with_weight`: include the `_weight` column when the spec has weights."""
    import numpy as np
    import pandas as pd
    d = {}
    for v in cols:
        vals = [spec["data"][v][i] for i in rows]
        k = spec["kind"][v]
        if k in ("int0", "int1", "gap"):
            d[v] = pd.Series(np.array(vals, dtype=spec["npdtype"][v]))
        elif k in ("cat", "catint"):
            d[v] = pd.Series(pd.Categorical(vals, categories=list(spec["cats"][v]), ordered=bool(spec["ordered"][v])))
        else:
            d[v] = pd.Series(vals, dtype=object)
    df = pd.DataFrame(d, columns=list(cols))
    if with_weight and spec.get("weights") is not None:
        df["_weight"] = [float(spec["weights"][i]) for i in rows]
    return df


def make_model(spec, nodes=None, edges=None, cls=None):
    from pgmpy.models import BayesianNetwork
    cls = cls or BayesianNetwork
    m = cls(latents=set(spec["latents"])) if spec["latents"] else cls()
    m.add_nodes_from(list(nodes if nodes is not None else spec["nodes"]))
    m.add_edges_from([tuple(e) for e in (edges if edges is not None else spec["edges"])])
    return m


def make_cpd(v, pa, table, S):
    from pgmpy.factors.discrete import TabularCPD
    return TabularCPD(v, len(S[v]), [list(map(float, r)) for r in table], evidence=list(pa) or None,
                      evidence_card=[len(S[p]) for p in pa] or None,
                      state_names={x: list(S[x]) for x in [v] + list(pa)})


def named_of(cpd):
    from rv.build import to_np
    return oracle.factor_named(cpd, to_np)


def table_from_named(named, v, pa, S):
    rows = []
    for c in S[v]:
        rows.append([named[frozenset([(v, c)] + list(zip(pa, cfg)))]
                     for cfg in itertools.product(*[S[p] for p in pa])])
    return rows


def fit_kwargs(spec, weighted):
    p = spec["prior"]
    kw = {}
    if p["type"] == "K2":
        kw = {"prior_type": "K2"}
    elif p["type"] == "BDeu":
        kw = {"prior_type": "BDeu", "equivalent_sample_size": dict(p["ess"]) if isinstance(p["ess"], dict) else p["ess"]}
    elif p["type"] == "dirichlet":
        kw = {"prior_type": "dirichlet",
              "pseudo_counts": p["pc"] if "pc" in p else {v: [list(r) for r in t] for v, t in p["tables"].items()}}
    if weighted:
        kw["weighted"] = True
    return kw


def cpd_kwargs(spec, v, weighted):
    p = spec["prior"]
    kw = {}
    if p["type"] == "K2":
        kw = {"prior_type": "K2"}
    elif p["type"] == "BDeu":
        kw = {"prior_type": "BDeu", "equivalent_sample_size": p["ess"][v] if isinstance(p["ess"], dict) else p["ess"]}
    elif p["type"] == "dirichlet":
        kw = {"prior_type": "dirichlet", "pseudo_counts": p["pc"] if "pc" in p else [list(r) for r in p["tables"][v]]}
    if weighted:
        kw["weighted"] = True
    return kw


# ------------------------------------------------------------------------------ comparisons
def collect_cpds(ctx, cpds, label):
    """{variable: cpd} from a list; duplicates are reported."""
    by = {}
    try:
        for c in cpds:
            if c.variable in by:
                ctx.violation("c06:duplicate-cpd", f"{label}: two CPDs for {c.variable!r}")
            by[c.variable] = c
    except Exception as e:
        ctx.violation("c06:malformed-result", f"{label}: cannot read CPD list: {type(e).__name__}: {e}")
    return by


def compare_node(ctx, cpd, v, parents, expect, label):
    """None if the CPD equals the closed form per named assignment, else a description."""
    try:
        if cpd.variable != v or set(cpd.variables[1:]) != set(parents) or len(cpd.variables) != len(parents) + 1:
            return f"{label}: CPD of {v!r} has scope {list(cpd.variables)!r}, parents are {sorted(parents)!r}"
        got = named_of(cpd)
    except Exception as e:
        return f"{label}: cannot read CPD of {v!r}: {type(e).__name__}: {e}"
    diff = oracle.named_close(got, expect, **REL_TOL)
    if diff:
        return f"{label}: P({v!r} | {sorted(parents)!r}) {diff}"
    return None


def judge_cpds(ctx, spec, by, expect, label, drop_key=None, generic="c06:wrong-estimate", detail=None, lost=()):
    """Compare every node; missing CPDs of isolated nodes are attributed to `drop_key` when given.
    `lost`: nodes already reported as absent from the fitted network."""
    spa = sorted_parents(spec)
    iso = set(isolated_nodes(spec))
    missing = [v for v in spec["nodes"] if v not in by and v not in lost]
    attributed = set()
    if missing:
        if drop_key and set(missing) <= iso:
            ctx.violation(drop_key, f"{label}: no CPD returned for isolated node(s) {missing!r}", **(detail or {}))
            attributed = set(missing)
        else:
            ctx.violation("c06:missing-cpd", f"{label}: no CPD for node(s) {missing!r}", **(detail or {}))
    extra = [v for v in by if v not in spec["nodes"]]
    if extra:
        ctx.violation("c06:extra-cpd", f"{label}: CPDs for unknown variables {extra!r}")
    bad = {}
    for v in spec["nodes"]:
        if v not in by:
            continue
        d = compare_node(ctx, by[v], v, spa[v], expect[v], label)
        if d:
            bad[v] = d
        else:
            ctx.ok()
    for v, d in bad.items():
        ctx.violation(generic, d, **(detail or {}))
    return attributed, bad


def judge_check_model(ctx, model, label, attributed, key_for_attributed):
    r = ctx.call(model.check_model)
    if ctx.failed(r):
        if attributed and r.type == "ValueError" and any(r.msg == f"No CPD associated with {v}" for v in attributed):
            ctx.violation(key_for_attributed, f"{label}: fitted network does not validate: {r.msg}")
        else:
            ctx.violation("c06:fitted-model-invalid", f"{label}: check_model raised {r!r}")
    else:
        ctx.expect(r is True, "c06:fitted-model-invalid", f"{label}: check_model returned {r!r}")


def exc_key(r):
    return f"c06:exception:{r.type}@{r.where}"


# ------------------------------------------------------------------------------------- fit
def run_fit(spec, ctx):
    from pgmpy.base import DAG
    from pgmpy.estimators import BayesianEstimator, MaximumLikelihoodEstimator
    S = eff_states(spec)
    weighted = bool(spec.get("weighted", spec["weights"] is not None))
    rows = list(range(spec["n_rows"]))
    expect, unseen = expected_fit(spec, S, rows, weighted)
    bayes = spec["prior"]["type"] != "mle"
    Est = BayesianEstimator if bayes else MaximumLikelihoodEstimator
    iso = isolated_nodes(spec)
    declared = spec["declared"]
    sn_kw = {"state_names": {v: list(s) for v, s in declared.items()}} if declared is not None else {}
    kw = fit_kwargs(spec, weighted)
    detail = dict(prior=spec["prior"]["type"], declared=declared, edges=spec["edges"], weighted=weighted)

    ctx.nontrivial = len(spec["nodes"]) >= 2 and len(spec["edges"]) >= 1
    ctx.feature("prior:" + spec["prior"]["type"] + (":tables" if "tables" in spec["prior"] else ""))
    for v in spec["nodes"]:
        ctx.feature("col:" + spec["kind"][v])
    if declared is not None:
        ctx.feature("declared")
        if any(set(declared[v]) - set(spec["data"][v]) for v in declared):
            ctx.feature("declared-unobserved-state")
        if len(declared) < len(spec["nodes"]):
            ctx.feature("declared-partial")
    if unseen:
        ctx.feature("unseen-parent-config")
    if weighted:
        ctx.feature("weighted")
        if max(spec["weights"]) >= 1e3 or 0 < min(x for x in spec["weights"] if x > 0) <= 1e-6:
            ctx.feature("weights-extreme")
    elif spec["weights"] is not None:
        ctx.feature("weight-column-unused")
    if spec["n_rows"] <= 2:
        ctx.feature("rows<=2")
    if declared == {}:
        ctx.feature("declared-empty-dict")
    pr = spec["prior"]
    hyper = ([pr["pc"]] if "pc" in pr else []) + (list(pr["ess"].values()) if isinstance(pr.get("ess"), dict)
                                                 else [pr["ess"]] if "ess" in pr else [])
    if any(h == 0 for h in hyper):
        ctx.feature("prior-zero")
    if any(h != 0 and (h <= 1e-6 or h >= 1e6) for h in hyper) or \
            ("tables" in pr and any(x >= 1e3 or x <= 1e-6 for t in pr["tables"].values() for row in t for x in row)):
        ctx.feature("prior-extreme")
    if iso:
        ctx.feature("isolated-node")
    if any(len(S[v]) == 1 for v in S):
        ctx.feature("card1")
    if spec["n_jobs"] != 1:
        ctx.feature("n_jobs2")

    for route in spec["routes"]:
        cols = spec["perm_cols"] if route == "cols" else spec["nodes"]
        rws = spec["perm_rows"] if route == "rows" else rows
        nodes, edges = (spec["perm_nodes"], spec["perm_edges"]) if route in ("edges", "dag") else (None, None)
        df = make_frame(spec, cols, rws, True)
        label = f"route={route} estimator={Est.__name__} prior={spec['prior']['type']}"
        if route in ("bn", "rows", "cols", "edges", "dag"):
            model = make_model(spec, nodes, edges, cls=DAG if route == "dag" else None)
            args = dict(kw, **sn_kw)
            if bayes:
                args["estimator"] = Est
            elif route in ("rows", "edges"):
                args["estimator"] = Est          # explicit MLE class as well as the default
            r = ctx.call(model.fit, df, n_jobs=spec["n_jobs"], **args)
            if ctx.failed(r):
                ctx.violation(exc_key(r), f"{label}: fit raised {r!r}", **detail)
                continue
            fitted = r if route == "dag" else model
            try:
                cp = list(fitted.get_cpds())
                have_nodes = set(fitted.nodes())
            except Exception as e:
                ctx.violation("c06:malformed-result", f"{label}: {type(e).__name__}: {e}")
                continue
            lost = set(spec["nodes"]) - have_nodes
            if lost:
                if route == "dag" and lost <= set(iso):
                    # DAG.fit rebuilds the network from the edge list
                    ctx.violation(K_ISO_DAG, f"{label}: fitted network lacks isolated node(s) {sorted(lost)!r}", **detail)
                else:
                    ctx.violation("c06:wrong-node-set", f"{label}: fitted network lacks node(s) {sorted(lost)!r}", **detail)
            by = collect_cpds(ctx, cp, label)
            drop_key = K_ISO_BE if bayes else None
            attributed, _ = judge_cpds(ctx, spec, by, expect, label, drop_key, detail=detail, lost=lost)
            judge_check_model(ctx, fitted, label, attributed, drop_key)
        elif route == "est":
            model = make_model(spec)
            est = ctx.call(Est, model, df, **sn_kw)
            if ctx.failed(est):
                ctx.violation(exc_key(est), f"{label}: constructor raised {est!r}", **detail)
                continue
            r = ctx.call(est.get_parameters, n_jobs=spec["n_jobs"], **kw)
            if ctx.failed(r):
                ctx.violation(exc_key(r), f"{label}: get_parameters raised {r!r}", **detail)
                continue
            by = collect_cpds(ctx, r, label)
            judge_cpds(ctx, spec, by, expect, label, K_ISO_BE if bayes else None, detail=detail)
        elif route == "cpd":
            model = make_model(spec, spec["perm_nodes"], spec["perm_edges"])
            est = ctx.call(Est, model, df, **sn_kw)
            if ctx.failed(est):
                ctx.violation(exc_key(est), f"{label}: constructor raised {est!r}", **detail)
                continue
            spa = sorted_parents(spec)
            for v in spec["nodes"]:
                r = ctx.call(est.estimate_cpd, v, **cpd_kwargs(spec, v, weighted))
                if ctx.failed(r):
                    if bayes and v in iso and r.type == "NetworkXError" and r.where.endswith("get_parents"):
                        ctx.violation(K_ISO_BE, f"{label}: estimate_cpd({v!r}) on an isolated node raised {r!r}", **detail)
                    else:
                        ctx.violation(exc_key(r), f"{label}: estimate_cpd({v!r}) raised {r!r}", **detail)
                    continue
                d = compare_node(ctx, r, v, spa[v], expect[v], label + f" estimate_cpd({v!r})")
                if d:
                    ctx.violation("c06:wrong-estimate", d, **detail)
                else:
                    ctx.ok()


# ------------------------------------------------------------------------------ fit_update
def build_old_model(spec, S, ctx, nodes=None, edges=None):
    """Model carrying the 'previous' CPDs (hand-made with the spec's evidence order, or fitted on the first
    chunk).  Returns None when the preparatory fit itself raised (reported as a violation)."""
    model = make_model(spec, nodes, edges)
    old = spec["old"]
    if old["how"] == "hand":
        cp = []
        for v in spec["nodes"]:
            c = old["cpds"][v]
            cp.append(make_cpd(v, c["parents"], c["table"], S))
        model.add_cpds(*cp)
    else:
        df = make_frame(spec, spec["nodes"], list(range(old["first"])), False)
        r = ctx.call(model.fit, df, state_names={v: list(s) for v, s in S.items()})
        if ctx.failed(r):
            ctx.violation(exc_key(r), f"fit of the first chunk raised {r!r}")
            return None
    return model


def expected_update(spec, S, rows, old_named, n_prev):
    spa = sorted_parents(spec)
    exp = {}
    for v in spec["nodes"]:
        pa = spa[v]
        N = counts(spec, v, pa, rows, False)
        on = old_named[v]

        def alpha(i, j, c, cfg, on=on, v=v, pa=pa):
            return n_prev * on[frozenset([(v, c)] + list(zip(pa, cfg)))]
        exp[v], _ = closed_form(v, pa, S, N, alpha)
    return exp


def run_update(spec, ctx):
    import random
    S = eff_states(spec)
    iso = set(isolated_nodes(spec))
    spa = sorted_parents(spec)
    ctx.nontrivial = len(spec["nodes"]) >= 2 and len(spec["edges"]) >= 1
    ctx.feature("update:old-" + spec["old"]["how"])
    if iso:
        ctx.feature("isolated-node")
    model = build_old_model(spec, S, ctx, nodes=spec["perm_nodes"], edges=spec["perm_edges"])
    if model is None:
        return
    if ctx.call(model.check_model) is not True:
        raise RuntimeError("checker built an invalid previous model")
    detail = dict(edges=spec["edges"], old=spec["old"]["how"])

    for step, ((lo, hi), n_prev_arg) in enumerate(zip(spec["chunks"], spec["n_prev"])):
        rows = list(range(lo, hi))
        n_prev = (hi - lo) if n_prev_arg is None else n_prev_arg
        old_named = {v: named_of(model.get_cpds(v)) for v in spec["nodes"]}
        old_evid = {v: list(model.get_cpds(v).variables[1:]) for v in spec["nodes"]}
        unsorted = [v for v in spec["nodes"] if old_evid[v] != sorted(old_evid[v])]
        if unsorted:
            ctx.feature("update:unsorted-old-evidence")
        expect = expected_update(spec, S, rows, old_named, n_prev)
        kw = {} if n_prev_arg is None else {"n_prev_samples": n_prev_arg}
        variants = [("base", spec["nodes"], rows)]
        if step == 0:
            prng = random.Random(spec["perm_seed"])
            variants.append(("cols", spec["perm_cols"], rows))
            variants.append(("rows", spec["nodes"], _shuf(prng, rows)))
        neutral = None
        targets = {name: (model if name == "base" else model.copy()) for name, _, _ in variants}
        for name, cols, rws in variants:
            label = f"fit_update step={step} variant={name} n_prev={n_prev_arg}"
            m = targets[name]
            df = make_frame(spec, cols, rws, False)
            r = ctx.call(m.fit_update, df, n_jobs=1, **kw)
            if ctx.failed(r):
                ctx.violation(exc_key(r), f"{label} raised {r!r}", **detail)
                continue
            by = collect_cpds(ctx, list(m.get_cpds()), label)
            for v in spec["nodes"]:
                if v not in by:
                    ctx.violation("c06:missing-cpd", f"{label}: no CPD for {v!r}")
                    continue
                d = compare_node(ctx, by[v], v, spa[v], expect[v], label)
                if d is None:
                    ctx.ok()
                    continue
                # ---- structural classification of the failure
                try:
                    unchanged = oracle.named_close(named_of(by[v]), old_named[v], **ctx.tol()) is None
                except Exception:
                    unchanged = False
                if v in iso and unchanged:
                    ctx.violation(K_ISO_BE, f"{label}: CPD of isolated node {v!r} was not updated "
                                            f"(BayesianEstimator rebuilt the model from its edge list)", **detail)
                    continue
                if v in unsorted:
                    if neutral is None:
                        # same previous distributions, evidence lists sorted: does the failure disappear?
                        pre = relayout_from(spec, S, old_named)
                        rr = ctx.call(pre.fit_update, make_frame(spec, spec["nodes"], rows, False), n_jobs=1, **kw)
                        neutral = {} if ctx.failed(rr) else collect_cpds(ctx, list(pre.get_cpds()), label + " (neutralised)")
                    if v in neutral and compare_node(ctx, neutral[v], v, spa[v], expect[v], label) is None:
                        ctx.violation(K_UPD_ORDER, f"{label}: previous CPD of {v!r} has evidence order {old_evid[v]!r} "
                                      f"(not sorted); its columns were used as pseudo-counts in sorted-parent order. {d}",
                                      **detail)
                        continue
                ctx.violation("c06:wrong-update", d, old_evidence=old_evid[v], **detail)
            judge_check_model(ctx, m, label, set(), None)


def relayout_from(spec, S, old_named):
    m2 = make_model(spec)
    spa = sorted_parents(spec)
    m2.add_cpds(*[make_cpd(v, spa[v], table_from_named(old_named[v], v, spa[v], S), S) for v in spec["nodes"]])
    return m2


# -------------------------------------------------------------------------------------- EM
class EMSpy:
    """Records, per call of ExpectationMaximization._is_converged, the CPDs currently in model_copy and the
    new CPDs (as named views, taken at call time)."""

    def __init__(self):
        self.trace = []
        self.errors = []

    def __enter__(self):
        from pgmpy.estimators import ExpectationMaximization as EM
        self.cls = EM
        self.orig = EM.__dict__["_is_converged"]
        spy, orig = self, self.orig

        def _is_converged(em, new_cpds, *a, **k):
            try:
                cur = [(list(c.variables), named_of(c)) for c in em.model_copy.cpds]
                new = [(list(c.variables), named_of(c)) for c in new_cpds]
                spy.trace.append((cur, new))
            except Exception as e:        # never disturb the run
                spy.errors.append(f"{type(e).__name__}: {e}")
            return orig(em, new_cpds, *a, **k)
        EM._is_converged = _is_converged
        return self

    def __exit__(self, *exc):
        self.cls._is_converged = self.orig
        return False


def loglik(theta, spec, lat_states):
    """Observed-data log-likelihood sum_rows log sum_latent prod_cpds, and the smallest CPD entry used."""
    obs, lats = spec["obs"], spec["latents"]
    rows = {}
    for i in range(spec["n_rows"]):
        key = tuple(spec["data"][v][i] for v in obs)
        rows[key] = rows.get(key, 0) + 1
    ll, used_min = 0.0, 1.0
    for key, cnt in rows.items():
        a = dict(zip(obs, key))
        tot = 0.0
        for combo in itertools.product(*[lat_states[L] for L in lats]):
            a.update(zip(lats, combo))
            p = 1.0
            for scope, named in theta:
                x = named[frozenset((var, a[var]) for var in scope)]
                used_min = min(used_min, x)
                p *= x
            tot += p
        ll += cnt * (math.log(tot) if tot > 0 else -math.inf)
    return ll, used_min


def em_call(spec, ctx, S, lat_states, extra_col=False):
    """Run EM by the route of the spec; returns (result cpd list or PgmpyError, spy)."""
    from pgmpy.base import DAG
    from pgmpy.estimators import ExpectationMaximization as EM
    obs = list(spec["perm_cols"])
    sp = spec
    nodes, edges = list(spec["perm_nodes"]), spec["perm_edges"]
    if extra_col:                      # neutralisation for the single-column finding: constant, unconnected column
        sp = dict(spec, data=dict(spec["data"], zz_const=[0] * spec["n_rows"]),
                  kind=dict(spec["kind"], zz_const="int0"), npdtype=dict(spec["npdtype"], zz_const="int64"))
        obs = obs + ["zz_const"]
        nodes = nodes + ["zz_const"]
    df = make_frame(sp, obs, list(range(spec["n_rows"])), False)
    route = spec["route"]
    model = make_model(spec, nodes, edges, cls=DAG if route == "dagfit" else None)
    Sx = dict(S)
    Sx.update(lat_states)
    init = {v: make_cpd(v, c["parents"], c["table"], Sx) for v, c in spec["init"].items()}
    kw = dict(max_iter=spec["max_iter"], seed=spec["seed"], atol=spec["atol"])
    if spec["latent_card"] is not None:
        kw["latent_card"] = dict(spec["latent_card"])
    if init:
        kw["init_cpds"] = init
    sn_kw = {"state_names": {v: list(s) for v, s in spec["declared"].items()}} if spec["declared"] is not None else {}
    with EMSpy() as spy:
        if route == "direct":
            est = ctx.call(EM, model, df, **sn_kw)
            if ctx.failed(est):
                return est, spy, model
            r = ctx.call(est.get_parameters, n_jobs=1, show_progress=False, **kw)
        else:
            r = ctx.call(model.fit, df, estimator=EM, n_jobs=1, show_progress=False, **dict(kw, **sn_kw))
            if not ctx.failed(r):
                model = r
                try:
                    r = list(r.get_cpds())
                except Exception as e:
                    ctx.violation("c06:malformed-result", f"EM via fit: {type(e).__name__}: {e}")
                    r = []
    return r, spy, model


def run_em(spec, ctx):
    from pgmpy.estimators import MaximumLikelihoodEstimator
    S = eff_states(spec)
    lats = spec["latents"]
    lc = spec["latent_card"] or {L: 2 for L in lats}
    lat_states = {L: list(range(lc[L])) for L in lats}
    label = f"EM route={spec['route']} latents={lats} max_iter={spec['max_iter']} init={spec['init_mode']}"
    detail = dict(edges=spec["edges"], latents=lats, latent_card=spec["latent_card"], seed=spec["seed"],
                  n_obs=len(spec["obs"]), declared=spec["declared"])
    ctx.feature("em:init-" + spec["init_mode"])
    ctx.feature("em:route-" + spec["route"])
    ctx.feature(f"em:latents-{len(lats)}")
    for v in spec["obs"]:
        ctx.feature("col:" + spec["kind"][v])

    # documented refusal: MLE does not accept latent variables
    if lats and spec["route"] == "direct":
        r0 = ctx.call(MaximumLikelihoodEstimator, make_model(spec),
                      make_frame(spec, spec["obs"], list(range(spec["n_rows"])), False))
        ctx.expect(ctx.failed(r0) and r0.type == "ValueError", "c06:latent-not-refused",
                   f"MaximumLikelihoodEstimator accepted a model with latent variables: {r0!r}")

    r, spy, model = em_call(spec, ctx, S, lat_states)
    if ctx.failed(r):
        # Structural classification by neutralising one triggering feature at a time:
        #   A: the same model as a BayesianNetwork instead of a plain DAG (DAG.fit loses `latents`)
        #   B: the same run with an extra constant, unconnected observed column (one-column data)
        single = len(spec["obs"]) == 1
        via_dag = spec["route"] == "dagfit" and bool(lats)
        msg_lat = f"{label}: DAG.fit with latent nodes raised {r!r}; the same model as a BayesianNetwork fits"
        msg_one = f"{label}: one observed column: {r!r}; the same run with an extra constant column succeeds"
        if single:
            ctx.feature("em:single-column")
        if via_dag and not ctx.failed(em_call(dict(spec, route="fit"), ctx, S, lat_states)[0]):
            return ctx.violation(K_LAT_DAG, msg_lat, **detail)
        if single and r.type == "KeyError" and not ctx.failed(em_call(spec, ctx, S, lat_states, extra_col=True)[0]):
            return ctx.violation(K_EM_1COL, msg_one, **detail)
        if via_dag and single and not ctx.failed(em_call(dict(spec, route="fit"), ctx, S, lat_states, extra_col=True)[0]):
            # both features are needed to make it pass: attribute to the mechanism that raised first
            if r.type == "KeyError" and r.where.endswith("_parallel_compute_weights"):
                return ctx.violation(K_EM_1COL, msg_one, **detail)
            return ctx.violation(K_LAT_DAG, msg_lat, **detail)
        return ctx.violation(exc_key(r), f"{label} raised {r!r}", **detail)
    if len(spec["obs"]) == 1:
        ctx.feature("em:single-column")
    judge_em(spec, ctx, r, spy, model, S, lat_states, label, detail)


def judge_em(spec, ctx, r, spy, model, S, lat_states, label, detail, xkey=""):
    """Judge one finished EM run: `r` = returned CPD list, `spy` = recorded per-iteration CPD sets."""
    lats = spec["latents"]
    if spy.errors:
        return ctx.violation("c06:malformed-result", f"{label}: cannot read per-iteration CPDs: {spy.errors[0]}", **detail)
    trace = spy.trace
    ctx.nontrivial = ctx.nontrivial or (bool(lats) and len(trace) >= 1)
    ctx.expect(1 <= len(trace) <= spec["max_iter"], "c06:em-iteration-count",
               f"{label}: {len(trace)} iterations recorded for max_iter={spec['max_iter']}", **detail)

    # ---- final result: one CPD per node, equal to the last new CPD set, network validates
    by = collect_cpds(ctx, r, label)
    spa = sorted_parents(spec)
    iso_lost = set()
    if spec["route"] == "dagfit":
        iso_lost = {v for v in isolated_nodes(spec) if v not in by}
        if iso_lost:
            ctx.violation(K_ISO_DAG, f"{label}: no CPD returned for isolated node(s) {sorted(iso_lost)!r}", **detail)
    missing = [v for v in spec["nodes"] if v not in by and v not in iso_lost]
    if missing:
        ctx.violation("c06:missing-cpd", f"{label}: no CPD for node(s) {missing!r}", **detail)
    try:
        final = [(list(c.variables), named_of(c)) for c in r]
        for v, c in by.items():
            ctx.expect(set(c.variables[1:]) == set(spa.get(v, [])), "c06:wrong-estimate",
                       f"{label}: CPD of {v!r} has scope {list(c.variables)!r}", **detail)
    except Exception as e:
        return ctx.violation("c06:malformed-result", f"{label}: cannot read result: {type(e).__name__}: {e}", **detail)
    if trace:
        last = {sc[0]: nm for sc, nm in trace[-1][1]}
        for sc, nm in final:
            if sc[0] in last:
                dd = oracle.named_close(nm, last[sc[0]], **ctx.tol())
                ctx.expect(dd is None, "c06:em-return-differs-from-last-iteration",
                           f"{label}: returned CPD of {sc[0]!r} is not the one of the last iteration: {dd}", **detail)
    if spec["route"] == "direct":
        target = make_model(spec)
        rr = ctx.call(target.add_cpds, *list(r))
        if ctx.failed(rr):
            ctx.violation("c06:fitted-model-invalid", f"{label}: add_cpds of the result raised {rr!r}", **detail)
        else:
            judge_check_model(ctx, target, label, set(), None)
    elif not iso_lost:
        judge_check_model(ctx, model, label, set(), None)

    # ---- no latent variable: EM == MLE
    if not lats:
        spec_m = dict(spec, prior={"type": "mle"})
        expect, _ = expected_fit(spec_m, S, list(range(spec["n_rows"])), False)
        for v in spec["nodes"]:
            if v in by:
                d = compare_node(ctx, by[v], v, spa[v], expect[v], label + " (no latent: must equal MLE)")
                if d:
                    ctx.violation("c06:em-not-mle-without-latents", d, **detail)
                else:
                    ctx.ok()
        return

    # ---- recorded-trace monotonicity of the observed-data log-likelihood
    thetas = [trace[0][0]] + [new for _, new in trace] if trace else []
    need = set(spec["nodes"]) - iso_lost
    lls, clamp = [], False
    for k, th in enumerate(thetas):
        have = {sc[0] for sc, _ in th}
        if have != need or len(th) != len(need):
            return ctx.violation("c06:malformed-result", f"{label}: iteration {k} has CPDs for {sorted(have)!r}", **detail)
        try:
            ll, used_min = loglik(th, spec, lat_states)
        except KeyError as e:
            return ctx.violation("c06:malformed-result", f"{label}: iteration {k}: CPD lacks assignment {e}", **detail)
        lls.append(ll)
        if used_min < 1e-9:
            clamp = True
    if clamp:
        ctx.note("em:clamp-touched-runs")
        return
    ctx.note("em:runs-judged")
    for k in range(len(lls) - 1):
        a, b = lls[k], lls[k + 1]
        if b >= a - 1e-9 * abs(a):
            ctx.ok()
        else:
            ctx.violation("c06:em-likelihood-decreased",
                          f"{label}: observed-data log-likelihood fell from {a!r} (iteration {k}) to {b!r} "
                          f"(iteration {k + 1}); whole trace {[round(x, 6) for x in lls]}", **detail)
            break
    if lls:
        ctx.xcell["em_final_loglik" + xkey] = float(lls[-1])
        ctx.xcell["em_iterations" + xkey] = len(trace)


# ------------------------------------------------------------------ object reuse / call sequences
def scribble(cpds):
    """Overwrite the values of returned CPDs: a later answer must not alias an earlier one."""
    import numpy as np
    for c in cpds:
        try:
            if isinstance(c.values, np.ndarray):
                c.values[...] = 0.123
        except Exception:
            pass


def run_seq_est(spec, ctx):
    from pgmpy.estimators import BayesianEstimator, MaximumLikelihoodEstimator
    S = eff_states(spec)
    rows = list(range(spec["n_rows"]))
    bayes = spec["est"] == "bayes"
    Est = BayesianEstimator if bayes else MaximumLikelihoodEstimator
    declared = spec["declared"]
    sn_kw = {"state_names": {v: list(s) for v, s in declared.items()}} if declared is not None else {}
    spa = sorted_parents(spec)
    iso = isolated_nodes(spec)
    ctx.nontrivial = len(spec["edges"]) >= 1 and len(spec["ops"]) >= 2
    ctx.feature("seq:estimator-" + spec["est"])
    df = make_frame(spec, spec["nodes"], rows, True)
    est = ctx.call(Est, make_model(spec, spec["perm_nodes"], spec["perm_edges"]), df, **sn_kw)
    if ctx.failed(est):
        return ctx.violation(exc_key(est), f"seq: {Est.__name__} constructor raised {est!r}")
    for k, op in enumerate(spec["ops"]):
        sp = dict(spec, prior=op["prior"])
        wt = op["weighted"]
        expect, _ = expected_fit(sp, S, rows, wt)
        label = f"seq call {k} on one {Est.__name__}: {op['op']} prior={op['prior']['type']} weighted={wt}"
        detail = dict(ops=[(o["op"], o["prior"]["type"], o["weighted"]) for o in spec["ops"][:k + 1]], edges=spec["edges"])
        if op["op"] == "cpd":
            v = op["node"]
            r = ctx.call(est.estimate_cpd, v, **cpd_kwargs(sp, v, wt))
            if ctx.failed(r):
                key = K_ISO_BE if (bayes and v in iso and r.type == "NetworkXError") else exc_key(r)
                ctx.violation(key, f"{label}: estimate_cpd({v!r}) raised {r!r}", **detail)
                continue
            d = compare_node(ctx, r, v, spa[v], expect[v], label + f" estimate_cpd({v!r})")
            if d:
                ctx.violation("c06:wrong-estimate", d, **detail)
            else:
                ctx.ok()
            got = [r]
        else:
            r = ctx.call(est.get_parameters, n_jobs=1, **fit_kwargs(sp, wt))
            if ctx.failed(r):
                ctx.violation(exc_key(r), f"{label}: get_parameters raised {r!r}", **detail)
                continue
            by = collect_cpds(ctx, r, label)
            judge_cpds(ctx, spec, by, expect, label, K_ISO_BE if bayes else None, detail=detail)
            got = list(by.values())
        if op["scribble"]:
            scribble(got)
            ctx.feature("seq:result-overwritten")


def run_seq_model(spec, ctx):
    from pgmpy.estimators import BayesianEstimator, MaximumLikelihoodEstimator
    S = eff_states(spec)
    spa = sorted_parents(spec)
    sn = {v: list(s) for v, s in spec["declared"].items()}
    ctx.nontrivial = len(spec["edges"]) >= 1
    model = make_model(spec, spec["perm_nodes"], spec["perm_edges"])
    hist = []
    for k, st in enumerate(spec["steps"]):
        rows = list(range(st["rows"][0], st["rows"][1]))
        hist.append(st["op"] if st["op"] == "update" else "fit:" + st["prior"]["type"])
        detail = dict(history=list(hist), rows=st["rows"], edges=spec["edges"])
        if st["op"] == "fit":
            sp = dict(spec, prior=st["prior"])
            wt = st["weighted"]
            expect, _ = expected_fit(sp, S, rows, wt)
            bayes = st["prior"]["type"] != "mle"
            label = f"seq step {k} on one model: fit prior={st['prior']['type']} weighted={wt}"
            args = dict(fit_kwargs(sp, wt), state_names={v: list(s) for v, s in sn.items()})
            if bayes:
                args["estimator"] = BayesianEstimator
            elif k % 2:
                args["estimator"] = MaximumLikelihoodEstimator
            r = ctx.call(model.fit, make_frame(spec, st["cols"], rows, True), n_jobs=1, **args)
            if ctx.failed(r):
                ctx.violation(exc_key(r), f"{label} raised {r!r}", **detail)
                if not model.get_cpds():
                    return
                continue
            ctx.feature("seq:model-fit")
            by = collect_cpds(ctx, list(model.get_cpds()), label)
            attributed, _ = judge_cpds(ctx, spec, by, expect, label, K_ISO_BE if bayes else None, detail=detail)
            judge_check_model(ctx, model, label, attributed, K_ISO_BE)
            if attributed:
                return
        else:
            try:
                old_named = {v: named_of(model.get_cpds(v)) for v in spec["nodes"]}
            except Exception:
                return              # an earlier step already failed and was reported
            n_prev = len(rows) if st["n_prev"] is None else st["n_prev"]
            expect = expected_update(spec, S, rows, old_named, n_prev)
            label = f"seq step {k} on one model: fit_update n_prev={st['n_prev']}"
            kw = {} if st["n_prev"] is None else {"n_prev_samples": st["n_prev"]}
            r = ctx.call(model.fit_update, make_frame(spec, st["cols"], rows, False), n_jobs=1, **kw)
            if ctx.failed(r):
                ctx.violation(exc_key(r), f"{label} raised {r!r}", **detail)
                continue
            ctx.feature("seq:model-update")
            by = collect_cpds(ctx, list(model.get_cpds()), label)
            judge_cpds(ctx, spec, by, expect, label, None, generic="c06:wrong-update", detail=detail)
            judge_check_model(ctx, model, label, set(), None)


def run_seq_em(spec, ctx):
    from pgmpy.estimators import ExpectationMaximization as EM
    S = eff_states(spec)
    lats = spec["latents"]
    df = make_frame(spec, spec["perm_cols"], list(range(spec["n_rows"])), False)
    model = make_model(spec, spec["perm_nodes"], spec["perm_edges"])
    sn_kw = {"state_names": {v: list(s) for v, s in spec["declared"].items()}} if spec["declared"] is not None else {}
    est = ctx.call(EM, model, df, **sn_kw)
    if ctx.failed(est):
        return ctx.violation(exc_key(est), f"seq: ExpectationMaximization constructor raised {est!r}")
    ctx.feature("seq:em-object-reused")
    for k, c in enumerate(spec["calls"]):
        sp = dict(spec, **c)
        lc = c["latent_card"] or {L: 2 for L in lats}
        lat_states = {L: list(range(lc[L])) for L in lats}
        Sx = dict(S)
        Sx.update(lat_states)
        kw = dict(max_iter=c["max_iter"], seed=c["seed"], atol=c["atol"])
        if c["latent_card"] is not None:
            kw["latent_card"] = dict(c["latent_card"])
        if c["init"]:
            kw["init_cpds"] = {v: make_cpd(v, t["parents"], t["table"], Sx) for v, t in c["init"].items()}
        label = f"seq call {k} on one EM object: latent_card={c['latent_card']} max_iter={c['max_iter']} seed={c['seed']}"
        detail = dict(edges=spec["edges"], latents=lats, calls=[(x["latent_card"], x["max_iter"], x["seed"],
                                                                 sorted(x["init"])) for x in spec["calls"][:k + 1]])
        with EMSpy() as spy:
            r = ctx.call(est.get_parameters, n_jobs=1, show_progress=False, **kw)
        if ctx.failed(r):
            ctx.violation(exc_key(r), f"{label} raised {r!r}", **detail)
            continue
        judge_em(sp, ctx, r, spy, model, S, lat_states, label, detail, xkey=f"#{k}")


def run_seq(spec, ctx):
    if spec["seq"] == "est":
        run_seq_est(spec, ctx)
    elif spec["seq"] == "model":
        run_seq_model(spec, ctx)
    else:
        run_seq_em(spec, ctx)


def run_case(spec, ctx):
    if spec["mode"] == "fit":
        run_fit(spec, ctx)
    elif spec["mode"] == "update":
        run_update(spec, ctx)
    elif spec["mode"] == "seq":
        run_seq(spec, ctx)
    else:
        run_em(spec, ctx)
