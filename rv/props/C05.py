"""C05 - CPD tables keep their column meaning; validated models are normalised.

Two kinds of cases (drawn per index):

  cpd    one TabularCPD built from a 2-D table (column j <-> j-th row-major configuration of the
         declared evidence list).  Observed: constructor, get_values, reorder_parents (EVERY parent
         permutation x both inplace modes, return value and object), marginalize / reduce (EVERY
         subset of parents x both inplace modes), normalize, copy, to_factor (+ aliasing), a random
         chain of 2-5 successive transformations on one object, and is_valid_cpd at column sums
         1 +- {0, 0.004, 0.02, 0.2}.
  model  one BayesianNetwork that is correct or wrong in exactly one respect (missing CPD, wrong
         parent set, wrong cardinality, mismatched / missing parent state names, one column off);
         check_model is observed and every ACCEPTED network is read back and must have CPD
         parents == graph parents, consistent cardinalities / state names, valid columns and a
         joint that sums to one; get_state_probability is compared with the brute-force joint.

Oracle: the spec's 2-D table is P(child | parents); expectations are computed from the spec by
explicit index arithmetic (never by pgmpy code); every object is read back per NAMED assignment
(variables / state_names / values) and through get_values() with its documented column order.
"""
import itertools
import math
import random

import numpy as np

from rv import gen, oracle

PLAN = {
    "quick": {"cases": 10000, "hashseeds": 3, "shards": 5, "timeout": 900, "min_nontrivial": 3000},
    "thorough": {"cases": 100000, "hashseeds": 8, "shards": 2, "timeout": 3400, "min_nontrivial": 30000,
                 "backends": ["numpy", "torch"], "torch_cases": 4000, "torch_shards": 2, "torch_hashseeds": 1},
}
RULE = ("70% cpd cases: child card 1-4, 0-4 parents of card 1-4 (<= 1024 cells), variable names str/int/tuple/"
        "mixed, state names id/1-based/permuted ints/strings/tuples/mixed/shared-strings/bools, table normalised "
        "(zeros, deterministic columns) or un-normalised weights (ordinary magnitude, or columns of very different "
        "magnitude: per-column scale log-uniform 1e-14..1e6, tiny/huge/ordinary columns mixed, zeros inside positive "
        "columns, every column total > 0), given as list/tuple/ndarray/F-ordered ndarray; "
        "ALL parent permutations x inplace in {True,False}; ALL parent subsets x {marginalize, reduce} x inplace; "
        "normalize, copy, to_factor, aliasing, a random chain of 2-5 transformations, is_valid_cpd at column sums "
        "1 +- {0,0.004,0.02,0.2} (one column, several columns, balanced +/-). 30% model cases: random BN "
        "(1-6 nodes) in one of the variants ok / ok-within-tolerance / missing-cpd / parents-missing / "
        "parents-extra / parents-swapped / card (names extended or unchanged) / names-perm / names-renamed / "
        "names-identity / names-partial / col-off / col-off-balanced, shuffled insertion order. non-trivial: cpd "
        "case with child card >= 2 and >= 1 parent of card >= 2; model case with >= 2 nodes and >= 1 edge; "
        "distinct by digest of the whole spec")
ASSUMPTIONS = ["the spec's 2-D table with the declared evidence order is the reference conditional",
               "float64 comparisons at RELATIVE 1e-9 per entry (1e-6 in torch cells: torch.Tensor() passes through float32)",
               "columns whose total is exactly 0 are never generated (0/0 is not decided by the statement)",
               "state-name lists are compared with ==",
               "column sums are never generated closer than 0.003 to the documented boundary 0.01 (+1e-5)",
               "a network that is not accepted (any exception) counts as rejected"]
REACH = [
    "pgmpy.factors.discrete.CPD:TabularCPD.__init__",
    "pgmpy.factors.discrete.CPD:TabularCPD.get_values",
    "pgmpy.factors.discrete.CPD:TabularCPD.normalize",
    "pgmpy.factors.discrete.CPD:TabularCPD.marginalize",
    "pgmpy.factors.discrete.CPD:TabularCPD.reduce",
    "pgmpy.factors.discrete.CPD:TabularCPD.reorder_parents",
    "pgmpy.factors.discrete.CPD:TabularCPD.copy",
    "pgmpy.factors.discrete.CPD:TabularCPD.to_factor",
    "pgmpy.factors.discrete.DiscreteFactor:DiscreteFactor.is_valid_cpd",
    "pgmpy.factors.discrete.DiscreteFactor:DiscreteFactor.marginalize",
    "pgmpy.factors.discrete.DiscreteFactor:DiscreteFactor.reduce",
    "pgmpy.models.BayesianNetwork:BayesianNetwork.check_model",
    "pgmpy.models.BayesianNetwork:BayesianNetwork.get_state_probability",
]
REACH_REQUIRED = REACH
MANIFEST = {
    "technique": "runtime monitoring: reference-model monitor on every TabularCPD transformation (named-assignment "
                 "read-back + documented 2-D export), accept/reject monitor on is_valid_cpd and check_model with "
                 "read-back invariants on every accepted network",
    "text": "on the generated CPDs every transformation returned / left an object that encodes the expected "
            "P(child | parents) per named assignment with unchanged state-name lists; is_valid_cpd agreed with the "
            "column-sum rule away from the boundary; every network accepted by check_model satisfied the stated "
            "invariants and every single-defect variant was rejected",
    "note": "trusted: numpy arithmetic of the oracle, the spec generator; not covered: column sums within 0.003 of "
            "the tolerance boundary, partial state_names dictionaries, tables > 1024 cells",
}

KNOWN_REORDER = "c05:reorder-inplace-drops-state-names"
STATE_KINDS = gen.STATE_KINDS + ("shared", "bool")
DELTAS_IN = [0.0, 0.004, -0.004]
DELTAS_OUT = [0.02, -0.02, 0.2, -0.2]
TOL_VALID = 0.01 + 1e-5


# =============================================================================== generators
def _states(rng, var, k, kind):
    if kind == "shared":
        base = ["no", "yes", "maybe", "never"][:k]
        if rng.random() < 0.3:
            rng.shuffle(base)
        return base
    if kind == "bool":
        if k == 2:
            return rng.choice([[False, True], [True, False]])
        return gen.state_names_for(rng, var, k, "perm")
    return gen.state_names_for(rng, var, k, kind)


def _var_names(rng, n, kind):
    if kind == "str":
        return ["c"] + [f"p{i}" for i in range(n - 1)]
    if kind == "int":
        pool = list(range(0, n + 2))
        rng.shuffle(pool)
        return pool[:n]
    if kind == "tuple":
        pool = [("n", i) for i in range(n + 1)]
        rng.shuffle(pool)
        return pool[:n]
    pool = ["c", 0, 1, ("n", 2), "p1", 3, ("n", 0), "x"]
    rng.shuffle(pool)
    return pool[:n]


def _unnorm_table(rng, r, q):
    cols = []
    for _ in range(q):
        col = [rng.choice(gen.GRID) * (0.5 + rng.random()) for _ in range(r)]
        if r > 1 and rng.random() < 0.25:
            for i in rng.sample(range(r), rng.randint(1, r - 1)):
                col[i] = 0.0
        if sum(col) <= 0:
            col[0] = 0.7
        cols.append(col)
    return [[cols[j][i] for j in range(q)] for i in range(r)]


def _magnitude_table(rng, r, q):
    """Un-normalised weights whose COLUMNS differ by many orders of magnitude (weighted counts, likelihood
    products): per-column scale log-uniform over 1e-14..1e6, tiny / huge / ordinary columns mixed in one table,
    zeros inside otherwise positive columns; every column total is > 0."""
    shared = rng.random() < 0.25            # whole table at one (possibly tiny) scale: sums of tiny columns stay tiny
    base = 10 ** rng.uniform(-14, 6)
    cols = []
    for _ in range(q):
        u = rng.random()
        if shared:
            scale = base * 10 ** rng.uniform(-1, 1)
        elif u < 0.15:
            scale = 1.0
        elif u < 0.45:
            scale = 10 ** rng.uniform(-14, -8)
        elif u < 0.60:
            scale = 10 ** rng.uniform(2, 6)
        else:
            scale = 10 ** rng.uniform(-14, 6)
        col = [rng.choice(gen.GRID) * (0.5 + rng.random()) * scale for _ in range(r)]
        if r > 1 and rng.random() < 0.3:
            for i in rng.sample(range(r), rng.randint(1, r - 1)):
                col[i] = 0.0
        if sum(col) <= 0:
            col[0] = 0.7 * scale
        cols.append(col)
    return [[cols[j][i] for j in range(q)] for i in range(r)]


def _offset_column(table, j, delta, mode):
    """Return a copy of `table` whose column j sums to (old sum + delta)."""
    r = len(table)
    t = [list(row) for row in table]
    col = [t[i][j] for i in range(r)]
    if mode == "add":
        i = max(range(r), key=lambda a: col[a])
        if col[i] + delta >= 0:
            t[i][j] = col[i] + delta
            return t
    if mode == "spread" and all(c + delta / r >= 0 for c in col):
        for i in range(r):
            t[i][j] = col[i] + delta / r
        return t
    s = sum(col)
    for i in range(r):
        t[i][j] = col[i] * (s + delta) / s
    return t


def _gen_valid_tests(rng, r, q):
    """is_valid_cpd probes: list of lists of (column, delta, mode)."""
    tests = []
    modes = ["scale", "add", "spread"]
    for d in DELTAS_IN + DELTAS_OUT:
        tests.append([[rng.randrange(q), d, rng.choice(modes)]])
    if q >= 2:
        # several columns inside the tolerance -> still valid (tolerance is per column, not on the total)
        k = rng.randint(2, min(q, 4))
        tests.append([[j, rng.choice([0.004, -0.004]), rng.choice(modes)] for j in rng.sample(range(q), k)])
        # two columns off in opposite directions -> invalid although the grand total is unchanged
        a, b = rng.sample(range(q), 2)
        d = rng.choice([0.02, 0.2])
        tests.append([[a, d, rng.choice(modes)], [b, -d, rng.choice(modes)]])
        # one bad column hidden among small offsets
        cols = rng.sample(range(q), min(q, 3))
        t = [[cols[0], rng.choice(DELTAS_OUT), rng.choice(modes)]]
        t += [[j, rng.choice([0.004, -0.004]), "scale"] for j in cols[1:]]
        rng.shuffle(t)
        tests.append(t)
    return tests


def gen_cpd_case(rng, tier):
    npar = rng.choices([0, 1, 2, 3, 4], weights=[7, 18, 30, 28, 17])[0]
    while True:
        r = rng.choice([1, 2, 2, 3, 3, 4])
        pc = [rng.choice([1, 2, 2, 3, 3, 4]) for _ in range(npar)]
        q = 1
        for c in pc:
            q *= c
        if r * q <= 1024:
            break
    nk = rng.choice(["str", "str", "str", "int", "tuple", "mixed"])
    names = _var_names(rng, npar + 2, nk)
    vars_, extra_var = names[:npar + 1], names[npar + 1]
    sk = rng.choice(STATE_KINDS)
    cards = [r] + pc
    states = [_states(rng, v, k, sk) for v, k in zip(vars_, cards)]
    unnorm = rng.random() < (0.75 if r == 1 else 0.4)
    unnorm_kind = None
    if unnorm:
        unnorm_kind = "magnitudes" if rng.random() < 0.6 else "ordinary"
        table = _magnitude_table(rng, r, q) if unnorm_kind == "magnitudes" else _unnorm_table(rng, r, q)
    else:
        table = gen.rand_cpt(rng, r, q, zeros=True)
    base = gen.rand_cpt(rng, r, q, zeros=rng.random() < 0.5)
    return {
        "kind": "cpd", "vars": vars_, "cards": cards, "states": states, "table": table, "unnorm": unnorm,
        "unnorm_kind": unnorm_kind,
        "names_kind": nk, "state_kind": sk,
        "form": rng.choice(["list", "list", "tuple", "ndarray", "ndarray-F"]),
        "ev_form": rng.choice(["list", "list", "tuple", "ndarray-card"]),
        "empty_ev_list": npar == 0 and rng.random() < 0.5,
        "extra": [extra_var, _states(rng, extra_var, 2, sk)] if rng.random() < 0.15 else None,
        "no_state_names": sk == "id" and rng.random() < 0.5,
        "valid_base": base, "valid_tests": _gen_valid_tests(rng, r, q),
        "op_seed": rng.randrange(10 ** 9),
    }


def _fresh_name(names):
    if all(isinstance(x, int) and not isinstance(x, bool) for x in names):
        return max(names) + 1 if names else 0
    return "zz_extra"


def _rename_int(bn, rng):
    ids = list(range(len(bn["nodes"]) + 2))
    rng.shuffle(ids)
    mp = {v: ids[i] for i, v in enumerate(bn["nodes"])}
    return {"nodes": [mp[v] for v in bn["nodes"]],
            "edges": [[mp[u], mp[v]] for u, v in bn["edges"]],
            "card": {mp[v]: k for v, k in bn["card"].items()},
            "states": {mp[v]: s for v, s in bn["states"].items()},
            "cpds": {mp[v]: {"parents": [mp[p] for p in c["parents"]], "table": c["table"]}
                     for v, c in bn["cpds"].items()},
            "latents": [], "kind": bn["kind"]}


def _entry(bn, v):
    c = bn["cpds"][v]
    return {"var": v, "card": bn["card"][v], "states": list(bn["states"][v]), "parents": list(c["parents"]),
            "pcards": [bn["card"][p] for p in c["parents"]], "pstates": [list(bn["states"][p]) for p in c["parents"]],
            "table": [list(r) for r in c["table"]]}


def _retable(rng, e):
    q = 1
    for c in e["pcards"]:
        q *= c
    e["table"] = gen.rand_cpt(rng, e["card"], q, zeros=rng.random() < 0.5)


VARIANTS = ["ok", "ok", "ok", "ok-tol", "ok-tol", "missing-cpd", "parents-missing", "parents-extra", "parents-swapped",
            "card", "card", "names-perm", "names-renamed", "names-identity", "names-partial", "col-off", "col-off",
            "col-off-balanced"]


def gen_model_case(rng, tier):
    bn = gen.rand_bn_spec(rng, n_range=(1, 6), max_joint=1024, max_parents=3,
                          shape=rng.choice([None, None, "family", "chain"]))
    bn["latents"] = []
    int_names = rng.random() < 0.2
    if int_names:
        bn = _rename_int(bn, rng)
    nodes = bn["nodes"]
    par = {v: bn["cpds"][v]["parents"] for v in nodes}
    with_par = [v for v in nodes if par[v]]
    plan = {v: _entry(bn, v) for v in nodes}
    info = {}
    for _attempt in range(40):
        var = rng.choice(VARIANTS)
        info = {}
        if var == "ok":
            break
        if var == "ok-tol":
            k = rng.randint(1, 3)
            for _ in range(k):
                v = rng.choice(nodes)
                t = bn["cpds"][v]["table"]
                j = rng.randrange(len(t[0]))
                t2 = _offset_column(t, j, rng.choice([0.004, -0.004]), rng.choice(["scale", "add", "spread"]))
                if abs(sum(row[j] for row in t2) - 1) > 0.0045:      # same column hit twice: keep the first offset
                    continue
                bn["cpds"][v]["table"] = t2
                plan[v]["table"] = [list(r) for r in t2]
            break
        if var == "missing-cpd":
            v = rng.choice(nodes)
            plan[v] = None
            info = {"node": v}
            break
        if var == "col-off" or var == "col-off-balanced":
            v = rng.choice(nodes)
            t = plan[v]["table"]
            q = len(t[0])
            if var == "col-off":
                d = rng.choice(DELTAS_OUT)
                j = rng.randrange(q)
                plan[v]["table"] = _offset_column(t, j, d, rng.choice(["scale", "add", "spread"]))
                info = {"node": v, "col": j, "delta": d}
            else:
                if q < 2:
                    continue
                a, b = rng.sample(range(q), 2)
                d = rng.choice([0.02, 0.2])
                t = _offset_column(t, a, d, "scale")
                plan[v]["table"] = _offset_column(t, b, -d, "scale")
                info = {"node": v, "cols": [a, b], "delta": d}
            break
        if var == "parents-extra":
            v = rng.choice(nodes)
            others = [x for x in nodes if x != v and x not in par[v]]
            if not others:
                continue
            x = rng.choice(others)
            e = plan[v]
            pos = rng.randint(0, len(e["parents"]))
            e["parents"].insert(pos, x)
            e["pcards"].insert(pos, bn["card"][x])
            e["pstates"].insert(pos, list(bn["states"][x]))
            _retable(rng, e)
            info = {"node": v, "extra": x}
            break
        if not with_par:
            continue
        v = rng.choice(with_par)
        e = plan[v]
        i = rng.randrange(len(e["parents"]))
        p = e["parents"][i]
        k = bn["card"][p]
        info = {"node": v, "parent": p}
        if var == "parents-missing":
            for key in ("parents", "pcards", "pstates"):
                del e[key][i]
            _retable(rng, e)
            break
        if var == "parents-swapped":
            others = [x for x in nodes if x != v and x not in par[v]]
            if not others:
                continue
            x = rng.choice(others)
            e["parents"][i], e["pcards"][i], e["pstates"][i] = x, bn["card"][x], list(bn["states"][x])
            _retable(rng, e)
            info["by"] = x
            break
        if var == "card":
            k2 = k + 1 if (k == 1 or rng.random() < 0.5) else k - 1
            mode = rng.choice(["ext", "same"])
            e["pcards"][i] = k2
            if mode == "ext":
                e["pstates"][i] = (e["pstates"][i] + [_fresh_name(e["pstates"][i])])[:k2] if k2 > k \
                    else e["pstates"][i][:k2]
            _retable(rng, e)
            info.update(card=k2, mode=mode)
            break
        if var == "names-perm":
            if k < 2:
                continue
            e["pstates"][i] = e["pstates"][i][1:] + e["pstates"][i][:1]
            break
        if var == "names-renamed":
            s = e["pstates"][i]
            s[rng.randrange(k)] = _fresh_name(s)
            break
        if var == "names-identity":
            if e["pstates"][i] == list(range(k)):
                continue
            e["pstates"][i] = list(range(k))
            break
        if var == "names-partial":
            e["pstates"][i] = None
            break
    else:
        var, info = "ok", {}
        plan = {v: _entry(bn, v) for v in nodes}
    # partial assignments for get_state_probability (state indices)
    gsp = []
    for _ in range(3):
        vs = rng.sample(nodes, rng.randint(0, len(nodes)))
        gsp.append([[v, rng.randrange(bn["card"][v])] for v in vs])
    return {"kind": "model", "bn": bn, "variant": var, "info": info, "plan": [plan[v] for v in nodes],
            "int_names": int_names, "build_seed": rng.randrange(10 ** 9), "gsp": gsp}


def gen_case(seed, idx, tier):
    rng = gen.rng_for("C05", seed, idx)
    if rng.random() < 0.3:
        return gen_model_case(rng, tier)
    return gen_cpd_case(rng, tier)


# ================================================================================== oracle
class Exp:
    """Expected conditional: arr[child state, parent states...] with axes [child] + parents."""

    def __init__(self, child, parents, states, arr):
        self.child, self.parents, self.states, self.arr = child, list(parents), states, np.asarray(arr, dtype=float)

    @staticmethod
    def from_table(child, parents, card, states, table):
        shape = [card[child]] + [card[p] for p in parents]
        arr = np.zeros(shape)
        for idx in itertools.product(*[range(s) for s in shape]):
            col = 0
            for a, p in zip(idx[1:], parents):
                col = col * card[p] + a            # row-major position of the parent configuration
            arr[idx] = table[idx[0]][col]
        return Exp(child, parents, states, arr)

    def table2d(self, order=None):
        """2-D table whose column is the row-major index of the configuration of `order`."""
        order = self.parents if order is None else list(order)
        shape = self.arr.shape
        idx = np.indices(shape)
        col = np.zeros(shape, dtype=int)
        q = 1
        for p in order:
            ax = 1 + self.parents.index(p)
            col = col * shape[ax] + idx[ax]
            q *= shape[ax]
        out = np.full((shape[0], q), np.nan)
        out[idx[0], col] = self.arr
        return out

    def reorder(self, order):
        perm = [0] + [1 + self.parents.index(p) for p in order]
        return Exp(self.child, list(order), self.states, np.transpose(self.arr, perm))

    def _renorm(self, arr):
        with np.errstate(all="ignore"):
            return arr / arr.sum(axis=0, keepdims=True)

    def norm(self):
        return Exp(self.child, self.parents, self.states, self._renorm(self.arr))

    def marg(self, S):
        axes = tuple(1 + self.parents.index(p) for p in S)
        arr = self.arr.sum(axis=axes) if axes else self.arr
        return Exp(self.child, [p for p in self.parents if p not in S], self.states, self._renorm(arr))

    def red(self, assign):
        sl = [slice(None)] * self.arr.ndim
        for p, s in assign.items():
            sl[1 + self.parents.index(p)] = s
        return Exp(self.child, [p for p in self.parents if p not in assign], self.states,
                   self._renorm(self.arr[tuple(sl)]))

    def with_identity_states(self):
        st = dict(self.states)
        for i, v in enumerate([self.child] + self.parents):
            st[v] = list(range(self.arr.shape[i]))
        return Exp(self.child, self.parents, st, self.arr)


def _tol(ctx):
    return 1e-6 if str(ctx.backend).startswith("torch") else 1e-9


def _isclose(a, b, tol):
    """Element-wise RELATIVE closeness (tables hold weights from 1e-16 to 1e6; every quantity compared is a
    sum / quotient of non-negative terms, so its relative rounding error is a few ulp).  NaN is never close."""
    with np.errstate(all="ignore"):
        return (a == b) | (np.abs(a - b) <= tol * np.maximum(np.abs(a), np.abs(b)) + 1e-290)


def _close(a, b, tol):
    a, b = np.asarray(a, dtype=float), np.asarray(b, dtype=float)
    return a.shape == b.shape and bool(np.all(_isclose(a, b, tol)))


def _colnorm(a):
    with np.errstate(all="ignore"):
        return a / a.sum(axis=0, keepdims=True)


def inspect(obj, exp, tol, cond_only=False, want_order=None, is_cpd=True):
    """Read `obj` back and compare with `exp`; returns a list of (key, message)."""
    from rv.build import to_np
    probs = []
    scope = [exp.child] + exp.parents
    try:
        variables = list(obj.variables)
        sn = obj.state_names
        vals = np.asarray(to_np(obj.values), dtype=float)
        card = [int(c) for c in obj.cardinality]
    except Exception as e:
        return [("c05:malformed-result", f"cannot read object: {type(e).__name__}: {e}")]
    if len(set(variables)) != len(variables) or set(variables) != set(scope) or len(variables) != len(scope):
        return [("c05:wrong-scope", f"variables {variables!r}, expected scope {scope!r}")]
    if is_cpd:
        try:
            if variables[0] != exp.child or obj.variable != exp.child:
                return [("c05:wrong-scope", f"child is {obj.variable!r}/{variables[0]!r}, expected {exp.child!r}")]
            if int(obj.variable_card) != len(exp.states[exp.child]):
                probs.append(("c05:malformed-result", f"variable_card {obj.variable_card} != {len(exp.states[exp.child])}"))
        except Exception as e:
            return [("c05:malformed-result", f"cannot read variable/variable_card: {type(e).__name__}: {e}")]
    names_ok = True
    for v in variables:
        try:
            got = list(sn[v])
        except Exception as e:
            probs.append(("c05:state-names-changed", f"state names of {v!r} unreadable ({type(e).__name__}: {e})"))
            names_ok = False
            continue
        if got != list(exp.states[v]):
            probs.append(("c05:state-names-changed", f"state names of {v!r} are {got!r}, expected {exp.states[v]!r}"))
            names_ok = False
    shape = tuple(len(exp.states[v]) for v in variables)
    if tuple(vals.shape) != shape or tuple(card) != shape:
        probs.append(("c05:malformed-result", f"values shape {vals.shape} / cardinality {card}, expected {shape}"))
        return probs
    # named comparison: align axes by variable name (state order is equal once names_ok holds)
    got = np.transpose(vals, [variables.index(v) for v in scope])
    want = exp.arr
    if cond_only:
        got, want = _colnorm(got), _colnorm(want)
    if not _close(got, want, tol):
        bad = np.argwhere(~_isclose(got, want, tol))
        where = tuple(int(x) for x in bad[0]) if len(bad) else ()
        asg = {repr(v): exp.states[v][where[i]] for i, v in enumerate(scope)} if where else {}
        probs.append(("c05:wrong-conditional", f"P at {asg}: got {got[where] if where else got!r}, "
                      f"expected {want[where] if where else want!r}"))
    if want_order is not None and variables[1:] != list(want_order):
        probs.append(("c05:wrong-parent-order", f"parents {variables[1:]!r}, expected order {list(want_order)!r}"))
    if is_cpd:
        try:
            gv = np.asarray(to_np(obj.get_values()), dtype=float)
        except Exception as e:
            probs.append(("c05:get-values-wrong", f"get_values raised {type(e).__name__}: {e}"))
            gv = None
        if gv is not None:
            want2 = exp.table2d(order=variables[1:])
            g2 = gv
            if cond_only and gv.shape == want2.shape:
                g2, want2 = _colnorm(gv), _colnorm(want2)
            if not _close(g2, want2, tol):
                probs.append(("c05:get-values-wrong", f"get_values() (parents {variables[1:]!r}) = {gv.tolist()!r}, "
                              f"expected {want2.tolist()!r}"))
    if names_ok:
        try:
            for v in variables:
                for i, name in enumerate(exp.states[v]):
                    if obj.get_state_no(v, name) != i or obj.get_state_names(v, i) != name:
                        probs.append(("c05:state-maps-inconsistent", f"{v!r}: name {name!r} <-> number {i} not "
                                      f"honoured by get_state_no/get_state_names"))
                        raise StopIteration
        except StopIteration:
            pass
        except Exception as e:
            probs.append(("c05:state-maps-inconsistent", f"get_state_no/get_state_names raised {type(e).__name__}: {e}"))
    return probs


def record(ctx, probs, label, rekey=None, **detail):
    """Turn inspection problems into violations (or count the comparisons that held)."""
    if not probs:
        ctx.ok(4)
        return True
    seen = set()
    for key, msg in probs:
        key = rekey or key
        if (key, msg) in seen:
            continue
        seen.add((key, msg))
        ctx.violation(key, f"{label}: {msg}", **detail)
    return False


# ============================================================================ cpd workload
class CpdCase:
    def __init__(self, spec):
        self.spec = spec
        self.vars = [_hashable(v) for v in spec["vars"]]
        self.child, self.parents = self.vars[0], self.vars[1:]
        self.card = dict(zip(self.vars, spec["cards"]))
        self.states = {v: [_hashable(s) for s in st] for v, st in zip(self.vars, spec["states"])}
        self.exp0 = Exp.from_table(self.child, self.parents, self.card, self.states, spec["table"])

    def build(self, table=None, parents=None, states=None, plain=False):
        """A fresh TabularCPD through the public constructor (raises on refusal)."""
        from pgmpy.factors.discrete import TabularCPD
        spec = self.spec
        parents = self.parents if parents is None else list(parents)
        states = self.states if states is None else states
        table = spec["table"] if table is None else table
        form = "list" if plain else spec["form"]
        if form == "list":
            vals = [list(r) for r in table]
        elif form == "tuple":
            vals = tuple(tuple(r) for r in table)
        elif form == "ndarray":
            vals = np.array(table, dtype=float)
        else:
            vals = np.asfortranarray(np.array(table, dtype=float))
        ev_form = "list" if plain else spec["ev_form"]
        ev = ec = None
        if parents:
            ev, ec = list(parents), [self.card[p] for p in parents]
            if ev_form == "tuple":
                ev, ec = tuple(ev), tuple(ec)
            elif ev_form == "ndarray-card":
                ec = np.array(ec)
        elif spec["empty_ev_list"] and not plain:
            ev, ec = [], []
        kw = {}
        if not (spec["no_state_names"] and states is self.states):
            sn = {v: list(states[v]) for v in [self.child] + list(parents)}
            if spec["extra"] and not plain:
                sn[_hashable(spec["extra"][0])] = [_hashable(s) for s in spec["extra"][1]]
            kw["state_names"] = sn
        return TabularCPD(self.child, self.card[self.child], vals, evidence=ev, evidence_card=ec, **kw)

    def build_from(self, exp):
        """Fresh CPD that encodes `exp` (used to resynchronise a chain)."""
        from pgmpy.factors.discrete import TabularCPD
        ps = exp.parents
        sn = {v: list(exp.states[v]) for v in [exp.child] + ps}
        return TabularCPD(exp.child, exp.arr.shape[0], exp.table2d().tolist(), evidence=ps or None,
                          evidence_card=[exp.arr.shape[1 + i] for i in range(len(ps))] or None, state_names=sn)


def _hashable(x):
    return tuple(_hashable(y) for y in x) if isinstance(x, list) else x


def _exc(ctx, r, label, **detail):
    ctx.violation(f"c05:exception:{r.type}@{r.where}", f"{label} raised {r!r}", **detail)


def _non_identity(exp):
    return [v for i, v in enumerate([exp.child] + exp.parents) if list(exp.states[v]) != list(range(exp.arr.shape[i]))]


def _classify_reorder(ctx, case, cpd, exp_before, order, probs, tol, cond_only):
    """Structural classifier for the state-name loss of reorder_parents(inplace=True).

    predicate : a real permutation was applied in place AND some variable in scope has state names
                other than 0..k-1
    symptom   : the ONLY thing wrong is that every state-name list reads 0..k-1
    confirmed : the same reorder on the same table with identity state names is judged correct
    """
    if not probs or any(k != "c05:state-names-changed" for k, _ in probs):
        return False
    if list(order) == list(exp_before.parents) or not _non_identity(exp_before):
        return False
    exp_after = exp_before.reorder(order)
    if inspect(cpd, exp_after.with_identity_states(), tol, cond_only, want_order=order):
        return False
    try:
        idexp = exp_before.with_identity_states()
        neutral = case.build_from(idexp)
        neutral.reorder_parents(list(order), inplace=True)
        if inspect(neutral, idexp.reorder(order), tol, cond_only, want_order=order):
            return False
    except Exception:
        return False
    return True


def run_cpd(spec, ctx):
    case = CpdCase(spec)
    tol = _tol(ctx)
    R = random.Random(spec["op_seed"])
    child, parents, states, card = case.child, case.parents, case.states, case.card
    exp0 = case.exp0
    cond = bool(spec["unnorm"])
    npar = len(parents)
    ctx.nontrivial = card[child] >= 2 and any(card[p] >= 2 for p in parents)
    for f in (f"parents:{npar}", f"names:{spec['names_kind']}", f"states:{spec['state_kind']}", f"form:{spec['form']}",
              f"evform:{spec['ev_form']}", "unnormalised" if cond else "normalised",
              f"unnormalised:{spec['unnorm_kind']}" if cond else None,
              "tiny-column(total<=1e-8)" if cond and any(
                  0 < math.fsum(row[j] for row in spec["table"]) <= 1e-8 for j in range(len(spec["table"][0]))) else None,
              "card1-child" if card[child] == 1 else None, "card1-parent" if any(card[p] == 1 for p in parents) else None,
              "extra-state-names" if spec["extra"] else None, "no-state-names-arg" if spec["no_state_names"] else None,
              "empty-evidence-list" if spec["empty_ev_list"] else None):
        if f:
            ctx.feature(f)
    detail = dict(vars=case.vars, cards=spec["cards"], states=spec["states"])

    def fresh(label):
        c = ctx.call(case.build)
        if ctx.failed(c):
            _exc(ctx, c, f"TabularCPD(...) [{label}]", **detail)
            return None
        return c

    # ---- 1. constructor: column j <-> j-th row-major configuration of the declared evidence list
    cpd0 = fresh("constructor")
    if cpd0 is None:
        return
    if not record(ctx, inspect(cpd0, exp0, tol, want_order=parents), "constructor", **detail):
        return
    try:
        from rv.build import to_np
        gv = np.asarray(to_np(cpd0.get_values()), dtype=float)
        want = np.array(spec["table"], dtype=float)
        ctx.expect(_close(gv, want, tol), "c05:get-values-wrong",
                   f"get_values() of a fresh CPD differs from the 2-D table it was built from: {gv.tolist()!r}", **detail)
    except Exception as e:
        ctx.violation("c05:get-values-wrong", f"get_values unreadable: {type(e).__name__}: {e}", **detail)

    # ---- 2. every parent permutation x both inplace modes
    if npar >= 1:
        for perm in itertools.permutations(parents):
            order = list(perm)
            want2d = exp0.table2d(order=order)
            for inplace in (False, True):
                c = fresh("reorder")
                if c is None:
                    return
                label = f"reorder_parents({order!r}, inplace={inplace})"
                ret = ctx.call(c.reorder_parents, list(order), inplace=inplace)
                if ctx.failed(ret):
                    _exc(ctx, ret, label, **detail)
                    continue
                try:
                    from rv.build import to_np
                    got2d = np.asarray(to_np(ret), dtype=float)
                    g, w = (_colnorm(got2d), _colnorm(want2d)) if cond and got2d.shape == want2d.shape else (got2d, want2d)
                    ctx.expect(_close(g, w, tol), "c05:reorder-return-wrong",
                               f"{label} returned {got2d.tolist()!r}, expected columns in the new order "
                               f"{want2d.tolist()!r}", **detail)
                except Exception as e:
                    ctx.violation("c05:reorder-return-wrong", f"{label}: return value unreadable "
                                  f"({type(e).__name__}: {e})", **detail)
                if not inplace:
                    record(ctx, inspect(c, exp0, tol, cond, want_order=parents), label + " left the CPD changed",
                           rekey="c05:operand-changed", **detail)
                else:
                    probs = inspect(c, exp0.reorder(order), tol, cond, want_order=order)
                    if _classify_reorder(ctx, case, c, exp0, order, probs, tol, cond):
                        ctx.violation(KNOWN_REORDER, f"{label}: state names reset to 0..k-1 "
                                      f"(had {[states[v] for v in _non_identity(exp0)]!r})", **detail)
                    else:
                        record(ctx, probs, label, **detail)

    # ---- 3. every subset of parents: marginalize / reduce, both inplace modes
    for k in range(npar + 1):
        for S in itertools.combinations(parents, k):
            S = list(S)
            R.shuffle(S)
            assign = {p: R.randrange(card[p]) for p in S}
            named = [(p, states[p][assign[p]]) for p in S]
            jobs = [("marginalize", (list(S),), exp0.marg(S)), ("reduce", (list(named),), exp0.red(assign))]
            for opname, args, want in jobs:
                for inplace in (False, True):
                    c = fresh(opname)
                    if c is None:
                        return
                    label = f"{opname}({args[0]!r}, inplace={inplace})"
                    ret = ctx.call(getattr(c, opname), *args, inplace=inplace)
                    if ctx.failed(ret):
                        _exc(ctx, ret, label, **detail)
                        continue
                    if inplace:
                        record(ctx, inspect(c, want, tol), label, **detail)
                    else:
                        if ret is None:
                            ctx.violation("c05:malformed-result", f"{label} returned None", **detail)
                        else:
                            record(ctx, inspect(ret, want, tol), label, **detail)
                        record(ctx, inspect(c, exp0, tol, cond, want_order=parents), label + " left the CPD changed",
                               rekey="c05:operand-changed", **detail)

    # ---- 4. normalize
    for inplace in (False, True):
        c = fresh("normalize")
        if c is None:
            return
        label = f"normalize(inplace={inplace})"
        ret = ctx.call(c.normalize, inplace=inplace)
        if ctx.failed(ret):
            _exc(ctx, ret, label, **detail)
            continue
        if inplace:
            record(ctx, inspect(c, exp0.norm(), tol), label, **detail)
        else:
            if ret is None:
                ctx.violation("c05:malformed-result", f"{label} returned None", **detail)
            else:
                record(ctx, inspect(ret, exp0.norm(), tol), label, **detail)
            record(ctx, inspect(c, exp0, tol, cond, want_order=parents), label + " left the CPD changed",
                   rekey="c05:operand-changed", **detail)

    # ---- 5. copy / to_factor (+ aliasing: writing into the result must not reach the original)
    for opname in ("copy", "to_factor"):
        c = fresh(opname)
        if c is None:
            return
        ret = ctx.call(getattr(c, opname))
        if ctx.failed(ret):
            _exc(ctx, ret, f"{opname}()", **detail)
            continue
        record(ctx, inspect(ret, exp0, tol, cond, want_order=parents if opname == "copy" else None,
                            is_cpd=opname == "copy"), f"{opname}()", **detail)
        try:
            ret.values[(0,) * len(case.vars)] = 7.25
        except Exception:
            ctx.note("alias-write-failed")
        record(ctx, inspect(c, exp0, tol, cond, want_order=parents), f"original after writing into {opname}() result",
               rekey="c05:copy-aliased", **detail)

    # ---- 6. chain of transformations on one object
    cur = fresh("chain")
    if cur is None:
        return
    E = exp0
    steps = []
    for _ in range(R.randint(2, 5)):
        ops = ["copy", "normalize"]
        if E.parents:
            ops += ["reorder", "reorder", "marginalize", "reduce"]
        op = R.choice(ops)
        inplace = R.random() < 0.5
        known = False
        if op == "copy":
            ret, Enew, label = ctx.call(cur.copy), E, "copy()"
            inplace = False
        elif op == "normalize":
            ret, Enew, label = ctx.call(cur.normalize, inplace=inplace), E.norm(), f"normalize(inplace={inplace})"
        elif op == "reorder":
            order = E.parents[:]
            R.shuffle(order)
            label = f"reorder_parents({order!r}, inplace={inplace})"
            before = E
            ret = ctx.call(cur.reorder_parents, list(order), inplace=inplace)
            Enew = E.reorder(order) if inplace else E
            if not ctx.failed(ret) and inplace:
                probs = inspect(cur, Enew, tol, cond, want_order=order)
                known = _classify_reorder(ctx, case, cur, before, order, probs, tol, cond)
            ret = ret if ctx.failed(ret) else None      # the 2-D return value was judged in step 2
            inplace = True                               # out-of-place reorder returns an array: object stays
        else:
            S = R.sample(E.parents, R.randint(1, len(E.parents)))
            if op == "marginalize":
                arg, Enew = list(S), E.marg(S)
            else:
                assign = {p: R.randrange(len(E.states[p])) for p in S}
                arg, Enew = [(p, E.states[p][assign[p]]) for p in S], E.red(assign)
            label = f"{op}({arg!r}, inplace={inplace})"
            ret = ctx.call(getattr(cur, op), arg, inplace=inplace)
        steps.append(label)
        if ctx.failed(ret):
            _exc(ctx, ret, "chain " + " -> ".join(steps), **detail)
            break
        if known:
            ctx.violation(KNOWN_REORDER, f"chain {' -> '.join(steps)}: state names reset to 0..k-1", **detail)
            E = Enew
            cur = case.build_from(E)      # resynchronise so that the rest of the chain is still judged
            ctx.note("chain-resync")
            continue
        if not inplace:
            if ret is None:
                ctx.violation("c05:malformed-result", f"chain {' -> '.join(steps)} returned None", **detail)
                break
            cur = ret
        E = Enew
        c_only = cond and all(not s.startswith(("normalize", "marginalize", "reduce")) for s in steps)
        if not record(ctx, inspect(cur, E, tol, c_only), "chain " + " -> ".join(steps), **detail):
            break

    # ---- 7. is_valid_cpd <=> every column sum within 0.01 (+1e-5) of 1
    verdicts = []
    for t in spec["valid_tests"]:
        table = spec["valid_base"]
        for (j, d, mode) in t:
            table = _offset_column(table, j, d, mode)
        sums = [math.fsum(row[j] for row in table) for j in range(len(table[0]))]
        if any(abs(abs(s - 1) - TOL_VALID) < 0.003 for s in sums) or any(x < 0 for row in table for x in row):
            ctx.note("valid-test-skipped-near-boundary")
            continue
        want = all(abs(s - 1) <= TOL_VALID for s in sums)
        c = ctx.call(case.build, table=table)
        if ctx.failed(c):
            _exc(ctx, c, "TabularCPD(...) [is_valid_cpd probe]", **detail)
            continue
        got = ctx.call(c.is_valid_cpd)
        if ctx.failed(got):
            _exc(ctx, got, "is_valid_cpd()", offsets=t, **detail)
            continue
        verdicts.append(bool(got))
        worst = max(sums, key=lambda s: abs(s - 1))
        ctx.expect(bool(got) == want, "c05:is-valid-accepts-invalid" if not want else "c05:is-valid-rejects-valid",
                   f"is_valid_cpd()={bool(got)} but column sums are {[round(s, 6) for s in sums]!r} "
                   f"(worst {worst!r}, tolerance 0.01)", offsets=t, **detail)
        ctx.note("valid:" + ("in" if want else "out"))
    ctx.xcell["is_valid"] = "".join("1" if v else "0" for v in verdicts)


# ========================================================================== model workload
DEFECT_KEYS = {
    "missing-cpd": "c05:accepted-missing-cpd",
    "parents": "c05:accepted-wrong-parents",
    "card": "c05:accepted-card-mismatch",
    "names": "c05:accepted-state-name-mismatch",
    "column": "c05:accepted-invalid-column",
    "joint": "c05:accepted-joint-not-normalised",
}


def _readback(ctx, model, bn):
    """Invariants the statement promises for an ACCEPTED network; returns list of (kind, message)."""
    from rv.build import to_np
    nodes = bn["nodes"]
    gpar = gen.parents_of(nodes, [tuple(e) for e in bn["edges"]])
    out, cp = [], {}
    for v in nodes:
        c = model.get_cpds(v)
        if c is None:
            out.append(("missing-cpd", f"node {v!r} has no CPD"))
            continue
        cp[v] = c
    for v, c in cp.items():
        variables = list(c.variables)
        if variables[0] != v or set(variables[1:]) != set(gpar[v]) or len(variables) != 1 + len(gpar[v]):
            out.append(("parents", f"CPD of {v!r} has evidence {variables[1:]!r}, graph parents {gpar[v]!r}"))
        vals = np.asarray(to_np(c.values), dtype=float)
        cards = [int(x) for x in c.cardinality]
        if tuple(vals.shape) != tuple(cards):
            out.append(("card", f"CPD of {v!r}: values shape {vals.shape} vs cardinality {cards}"))
            continue
        for i, x in enumerate(variables):
            sn = c.state_names.get(x) if isinstance(c.state_names, dict) else None
            if sn is None or len(sn) != cards[i]:
                out.append(("names" if sn is None or x not in cp or int(cp[x].cardinality[0]) == cards[i] else "card",
                            f"CPD of {v!r}: state names of {x!r} are {sn!r} for cardinality {cards[i]}"))
            if i and x in cp:
                own = cp[x]
                if int(own.cardinality[0]) != cards[i]:
                    out.append(("card", f"CPD of {v!r} gives {x!r} cardinality {cards[i]}, its own CPD {int(own.cardinality[0])}"))
                elif sn is not None and list(own.state_names.get(x, [])) != list(sn):
                    out.append(("names", f"CPD of {v!r} names {x!r} {list(sn)!r}, its own CPD {own.state_names.get(x)!r}"))
        sums = vals.reshape(cards[0], -1).sum(axis=0)
        if np.any(np.abs(sums - 1) > TOL_VALID):
            out.append(("column", f"CPD of {v!r} has column sums {np.round(sums, 6).tolist()!r}"))
    if not out:
        # joint by named look-up in every CPD, straight from the definition
        names = {v: list(cp[v].state_names[v]) for v in nodes}
        pos = {v: [{n: i for i, n in enumerate(cp[v].state_names[x])} for x in cp[v].variables] for v in nodes}
        arrs = {v: np.asarray(to_np(cp[v].values), dtype=float) for v in nodes}
        tot = 0.0
        for combo in itertools.product(*[names[v] for v in nodes]):
            a = dict(zip(nodes, combo))
            p = 1.0
            for v in nodes:
                p *= arrs[v][tuple(pos[v][i][a[x]] for i, x in enumerate(cp[v].variables))]
            tot += p
        if abs(tot - 1) > len(nodes) * 0.011:
            out.append(("joint", f"joint sums to {tot!r} (n={len(nodes)})"))
    return out


def run_model(spec, ctx):
    from pgmpy.factors.discrete import TabularCPD
    from pgmpy.models import BayesianNetwork
    bn, variant = spec["bn"], spec["variant"]
    bn = dict(bn, states={v: [_hashable(s) for s in st] for v, st in bn["states"].items()})
    nodes = bn["nodes"]
    expect_accept = variant in ("ok", "ok-tol")
    ctx.nontrivial = len(nodes) >= 2 and len(bn["edges"]) >= 1
    ctx.feature(f"variant:{variant}")
    ctx.feature(f"bn-states:{bn['kind']}")
    if spec["int_names"]:
        ctx.feature("bn-int-names")
    detail = dict(variant=variant, info=spec["info"], edges=bn["edges"])
    R = random.Random(spec["build_seed"])
    ns, es, plan = list(nodes), [tuple(e) for e in bn["edges"]], [e for e in spec["plan"]]
    R.shuffle(ns)
    R.shuffle(es)
    R.shuffle(plan)

    def build_all():
        m = BayesianNetwork()
        m.add_nodes_from(ns)
        m.add_edges_from(es)
        cpds = []
        for e in plan:
            if e is None:
                continue
            sn = {e["var"]: [_hashable(s) for s in e["states"]]}
            for p, st in zip(e["parents"], e["pstates"]):
                if st is not None:
                    sn[p] = [_hashable(s) for s in st]
            cpds.append(TabularCPD(e["var"], e["card"], [list(r) for r in e["table"]],
                                   evidence=list(e["parents"]) or None, evidence_card=list(e["pcards"]) or None,
                                   state_names=sn))
        m.add_cpds(*cpds)
        return m

    model = ctx.call(build_all)
    if ctx.failed(model):
        ctx.xcell["check_model"] = f"construction:{model.type}"
        if expect_accept:
            _exc(ctx, model, "building a correct network", **detail)
        else:
            ctx.ok()
            ctx.note(f"refused-at-construction:{variant}")
        return
    res = ctx.call(model.check_model)
    accepted = (not ctx.failed(res)) and res is True
    ctx.xcell["check_model"] = "accept" if accepted else (f"reject:{res.type}" if ctx.failed(res) else f"falsy:{res!r}")
    if not accepted:
        if expect_accept:
            ctx.violation("c05:check-model-rejects-valid", f"check_model refused a correct network ({variant}): {res!r}",
                          **detail)
        else:
            ctx.ok()
            ctx.note(f"rejected:{variant}")
            if ctx.failed(res) and res.type != "ValueError":
                ctx.note(f"rejected-by-{res.type}:{variant}")
        return
    # accepted: the statement's invariants must hold for what the model now contains
    try:
        bad = _readback(ctx, model, bn)
    except Exception as e:
        ctx.violation("c05:malformed-result", f"accepted network cannot be read back: {type(e).__name__}: {e}", **detail)
        return
    if bad:
        for kind, msg in bad[:4]:
            ctx.violation(DEFECT_KEYS[kind], f"check_model accepted a network ({variant}) in which {msg}", **detail)
        return
    if not expect_accept:
        raise AssertionError(f"checker: variant {variant} {spec['info']} produced no detectable defect")
    ctx.ok(5)
    ctx.note(f"accepted:{variant}")
    # get_state_probability against the brute-force joint of the spec
    jnodes, J = oracle.joint_table(bn)
    tol = _tol(ctx)
    for part in spec["gsp"]:
        part = {v: s for v, s in part}
        _, m = oracle.posterior(jnodes, J, list(part), normalize=False)
        want = float(m[tuple(part[v] for v in part)]) if part else float(J.sum())
        named = {v: bn["states"][v][s] for v, s in part.items()}
        r = ctx.call(model.get_state_probability, dict(named))
        if ctx.failed(r):
            _exc(ctx, r, f"get_state_probability({named!r})", **detail)
            continue
        try:
            got = float(r)
        except Exception as e:
            ctx.violation("c05:malformed-result", f"get_state_probability returned {r!r}", **detail)
            continue
        ctx.expect(abs(got - want) <= tol + tol * abs(want), "c05:state-probability",
                   f"get_state_probability({named!r})={got!r}, joint of the tables says {want!r}", **detail)


def run_case(spec, ctx):
    if spec["kind"] == "model":
        run_model(spec, ctx)
    else:
        run_cpd(spec, ctx)
