"""C10 - structure scores equal their published definitions.

Observe: K2Score/BDeuScore/BDsScore/BicScore/AICScore(data[, state_names]).local_score(var, parents),
         .score(model), ScoreCache(base, data, max_size).local_score / .score, metrics.structure_score.
Oracle : closed forms evaluated over counts obtained by a plain row loop, always over the full
         declared table (all r child states x all q parent configurations, zeros included):
           K2    sum_j [lnG(r) - lnG(N_j + r) + sum_k lnG(N_jk + 1)]
           BDeu  sum_j [lnG(a) - lnG(N_j + a) + sum_k (lnG(N_jk + b) - lnG(b))],  a = ess/q, b = ess/(r q)
           BDs   (Scutari 2016) same sum restricted to observed configurations, a~ = ess/q~, b~ = ess/(r q~)
           BIC   sum_jk N_jk ln(N_jk / N_j) - 0.5 ln(N) q (r - 1);   AIC: ... - q (r - 1)
         network score = sum of local scores + structure prior (BDs: -(|E| + n(n-1)/2) ln 2, else 0);
         cached == uncached over random access sequences (reference LRU model for the recomputations);
         metamorphic: row permutation, parent-list permutation; BDeu/BIC/AIC equal for all DAGs of a
         Markov-equivalence class (class enumeration by skeleton + v-structures, exhaustive for <= 4 columns).
"""
import itertools
import math
import os
from math import lgamma, log

from rv import gen, oracle

PLAN = {
    "quick": {"cases": 840, "hashseeds": 3, "shards": 5, "timeout": 420, "min_nontrivial": 400},
    "thorough": {"cases": 4400, "hashseeds": 4, "shards": 4, "timeout": 3000, "min_nontrivial": 2000},
}
if os.environ.get("RV_C10_CASES"):      # development knob: run only the first N cases of the same case stream
    for _t in PLAN.values():
        _t["cases"] = int(os.environ["RV_C10_CASES"])
        _t["min_nontrivial"] = min(_t["min_nontrivial"], _t["cases"] // 2)
RULE = ("random discrete data frame: 2-5 columns (thorough 2-6), declared cardinalities 1-4 (thorough 1-5), 1-200 rows "
        "(incl. 1/2/3 rows; thorough up to 1000; 3% replicated x10/x25 for large counts) forward-sampled from a random BN "
        "whose CPTs contain exact zeros / deterministic columns (so parent configurations and child states go unobserved), "
        "plus extra declared-but-never-observed states; column dtypes int / offset int / multi-digit+negative+huge int / "
        "float / extreme float (0.0 vs 1e-12, 1e8, -2.5e-7) / bool / object / odd strings ('' '10' '02' ' ' 'nan') / "
        "category / ordered category; string column labels (incl. the empty string) or integer labels; state_names passed "
        "for all, some or no columns or as {} (declared or shuffled order); ess in {1, 5, 10, 0.3, 2.5, 7.75, 5.0, 100, "
        "1e-6, 1e-3, 1e4, 1e6} as python number or numpy scalar. Per data set: 4-9 (variable, parents) probes (0-4 "
        "parents handed over as list / tuple / set, empty ones too; every family of a random DAG plus random extras) x 5 "
        "scores against the closed form; parent-list permutations; a row-permuted copy of the frame; ONE scorer object "
        "per score serves all of this plus .score() of 3 different DAGs / BayesianNetworks (first one asked again) and "
        "metrics.structure_score, each against sum-of-locals + prior; first probes re-asked at the end; ONE ScoreCache "
        "(max_size in {0,1,2,3,10000}) serves a random access sequence of 12-40 local scores interleaved with .score() "
        "of the 3 models, each equal to the uncached answer for that call; for <= 4 columns (thorough <= 5) BDeu/BIC/AIC "
        "of every DAG compared inside every Markov-equivalence class. non-trivial: >= 2 columns and >= 1 probe with a "
        "non-empty parent list whose 5 scores were all returned; distinct by digest of the whole spec")
ASSUMPTIONS = ["math.lgamma / math.log are the reference special functions",
               "float64 comparisons at 1e-9 abs + 1e-9 rel + 1e-14 x (sum of |addends| of the closed form), the last term "
               "only matters for ess >= 1e4 where single addends are ~1e7",
               "declared states of a column = its entry in state_names if passed, else the states observed in the data "
               "(the documented rule of BaseEstimator)",
               "Markov equivalence = same skeleton and same v-structures (Verma & Pearl)",
               "the reference LRU model (OrderedDict) defines which accesses may recompute (ScoreCache docstring: "
               "'the least recently used entries will be discarded')"]
REACH = [
    "pgmpy.estimators.StructureScore:StructureScore.score",
    "pgmpy.estimators.StructureScore:K2Score.local_score",
    "pgmpy.estimators.StructureScore:BDeuScore.local_score",
    "pgmpy.estimators.StructureScore:BDsScore.local_score",
    "pgmpy.estimators.StructureScore:BDsScore.structure_prior",
    "pgmpy.estimators.StructureScore:BicScore.local_score",
    "pgmpy.estimators.StructureScore:AICScore.local_score",
    "pgmpy.estimators.ScoreCache:ScoreCache.local_score",
    "pgmpy.estimators.ScoreCache:LRUCache.__call__",
    "pgmpy.estimators.base:BaseEstimator.state_counts",
    "pgmpy.metrics.metrics:structure_score",
]
REACH_REQUIRED = list(REACH)
MANIFEST = {
    "text": "On every generated data set the five local scores returned by pgmpy equal closed forms evaluated by an "
            "independent row-loop counter over the full declared table; network scores decompose into local scores plus "
            "the structure prior; cached scoring equals uncached scoring and recomputes exactly where a reference LRU "
            "model misses; BDeu/BIC/AIC are constant on every Markov-equivalence class of DAGs over <= 4 (5) columns; "
            "scores are invariant under row and parent-list permutation and identical across hash seeds.",
    "note": "trusts math.lgamma/log, the row-loop counter, and the skeleton+v-structure characterisation of equivalence",
    "technique": "runtime monitoring: reference-model (closed-form) oracle on the API boundary, metamorphic monitors, "
                 "reference LRU model on the recomputation trace, exhaustive equivalence-class enumeration",
}

SCORES = ["k2", "bdeu", "bds", "bic", "aic"]
EQUIV_SCORES = ["bdeu", "bic", "aic"]
KINDS = ["int", "int", "intoff", "float", "obj", "obj", "cat", "cat", "catord", "bool", "bigint", "extfloat", "objodd"]
ESS_CHOICES = [1, 5, 10, 10, 0.3, 2.5, 100, 7.75, 5.0, 1e-6, 1e-3, 1e4, 1e6]

K_K2_EMPTY = "c10:k2:empty-columns"
K_BDEU_UNOBS = "c10:bdeu:unobserved-child-state"
K_BDS_UNOBS = "c10:bds:unobserved-child-state"
K_BDS_BETA = "c10:bds:beta-denominator"
K_CACHE_PRIOR = "c10:cache:structure-prior-dropped"
K_INT_LABELS = "c10:int-column-labels:unstack"
K_CACHE_ZERO = "c10:cache:max-size-zero"


# --------------------------------------------------------------------------- generator
def _labels(rng, col, k, kind):
    if kind == "int":
        return list(range(k))
    if kind == "intoff":
        return sorted(rng.sample(range(-3, 15), k)) if rng.random() < 0.5 else rng.sample(range(-3, 15), k)
    if kind == "float":
        base = rng.choice([0.25, 0.5, -1.5])
        return [base + 0.5 * i for i in range(k)]
    if kind == "bool":
        return [False, True][:k]
    if kind == "bigint":          # multi-digit / negative / huge integers, unsorted
        return rng.sample([-1, 0, 7, 10, 11, 100, 12345, 10 ** 9, -10 ** 6, 2 ** 40], k)
    if kind == "extfloat":        # magnitudes far from O(1); 0.0 and 1e-12 are different states
        return rng.sample([0.0, 1e-12, -2.5e-7, 1e8, 3.0, 1e-8, 123456.789, -1e8, 0.1, 2.5e-12], k)
    if kind == "objodd":          # empty string, numeric-looking strings (lexicographic != numeric order), blanks
        return rng.sample(["", "10", "2", "02", " ", "a b", "None", "nan", "0", "False"], k)
    pool = [f"{col}_{ch}" for ch in "abcdefghij"[:k]]
    rng.shuffle(pool)
    return pool


def _rand_probe(rng, cols, max_par):
    v = rng.choice(cols)
    rest = [c for c in cols if c != v]
    k = rng.randint(0, min(max_par, len(rest)))
    return [v, rng.sample(rest, k)]


def gen_case(seed, idx, tier):
    rng = gen.rng_for("C10", seed, idx)
    thorough = tier == "thorough"
    n = rng.choice([2, 3, 3, 4, 4, 4, 5, 5] + ([6] if thorough else []))
    cards = (1, 2, 2, 2, 3, 3, 3, 4) + ((5,) if thorough else ())
    cols = [f"c{i}" for i in range(n)]
    u = rng.random()
    if u < 0.3:
        cols = rng.sample(["A", "B", "X y", "z", "Q1", "w", "", "0", "10"], n)   # incl. the empty (falsy) name
    elif u < 0.40:
        # integer column labels: 0..n-1 (pd.DataFrame(ndarray) style) or what is left after dropping / selecting columns
        cols = list(range(n)) if rng.random() < 0.5 else sorted(rng.sample(range(0, 8), n))
    bn = gen.rand_bn_spec(rng, n=n, cards=cards, kind="id", names=cols, max_parents=3, max_joint=10 ** 6)
    nrows = rng.choice([1, 2, 3, 5, 6, 8, 12, 20, 30, 50, 80, 120, 200] + ([400, 1000] if thorough else []))
    # forward sampling (plain loop); zeros in the CPTs leave configurations / states unobserved
    order = gen.topo_order(bn["nodes"], [tuple(e) for e in bn["edges"]])
    card = bn["card"]
    rows = []
    for _ in range(nrows):
        a = {}
        for v in order:
            c = bn["cpds"][v]
            j = 0
            for p in c["parents"]:
                j = j * card[p] + a[p]
            u, acc, s = rng.random(), 0.0, card[v] - 1
            for k in range(card[v]):
                acc += c["table"][k][j]
                if u < acc:
                    s = k
                    break
            a[v] = s
        rows.append([a[c] for c in cols])
    if rng.random() < 0.15 and nrows >= 8:          # duplicated block of rows
        rows = rows[: nrows // 2] + rows[: nrows - nrows // 2]
    if rng.random() < 0.03:                          # large counts: the whole sample replicated
        rows = [list(r) for r in rows] * rng.choice([10, 25])
    kinds, labels, declared = {}, {}, {}
    for ci, c in enumerate(cols):
        k = card[c]
        extra = rng.choice([0, 0, 0, 1, 1, 2])
        kind = rng.choice(KINDS)
        if kind == "bool" and k + extra > 2:
            kind = "int"
        if kind in ("bigint", "extfloat", "objodd") and k + extra > 10:
            kind = "int"
        kinds[c] = kind
        declared[c] = k + extra
        labels[c] = _labels(rng, c, k + extra, kind)
    mode = rng.choice(["all", "all", "all", "some", "some", "none", "none", "empty"])   # "empty": state_names={}
    if mode == "all":
        sn_cols = list(cols)
    elif mode == "some":
        sn_cols = [c for c in cols if rng.random() < 0.5]
    else:
        sn_cols = []
    sn_order = {}
    for c in sn_cols:
        o = list(range(declared[c]))
        if rng.random() < 0.4:
            rng.shuffle(o)
        sn_order[c] = o
    ess = rng.choice(ESS_CHOICES)
    ess_type = rng.choice(["plain", "plain", "np"])       # python number or numpy scalar
    # probes: families of a random DAG on the columns + random extras
    dag = [list(e) for e in gen.rand_dag_edges(rng, list(cols), max_parents=3)]
    par = gen.parents_of(cols, [tuple(e) for e in dag])
    probes = []
    for v in cols:
        pa = list(par[v])
        rng.shuffle(pa)
        probes.append([v, pa])
    for _ in range(rng.randint(1, 4)):
        probes.append(_rand_probe(rng, cols, 4))
    # container type in which the parents are handed over (first call of each family)
    pkinds = [rng.choice(["list", "list", "tuple", "set"]) for _ in probes]
    # cache access sequence over a small pool of keys (with parent-order variants)
    pool = [_rand_probe(rng, cols, 3) for _ in range(rng.randint(2, 6))]
    for p in list(pool):
        if len(p[1]) >= 2 and rng.random() < 0.5:
            q = list(p[1])
            rng.shuffle(q)
            pool.append([p[0], q])
    seq = [rng.randrange(len(pool)) for _ in range(rng.randint(12, 40))]
    cache = {"max_size": rng.choice([1, 1, 2, 2, 3, 3, 3, 10000, 10000, 10000] + [0] * (rng.random() < 0.3)),
             "pool": pool, "seq": seq, "pool_kinds": [rng.choice(["list", "list", "tuple", "set"]) for _ in pool],
             "score": rng.choice(SCORES), "use_dag_score": rng.random() < 0.5,
             "interleave": sorted(rng.sample(range(len(seq)), rng.randint(0, 3)))}
    # further models scored by the SAME scorer / cache objects (object reuse)
    dags2 = [[list(e) for e in gen.rand_dag_edges(rng, list(cols), max_parents=3)] for _ in range(2)]
    perm = list(range(len(rows)))
    rng.shuffle(perm)
    col_order = list(cols)
    if rng.random() < 0.5:
        rng.shuffle(col_order)
    return {"cols": cols, "col_order": col_order, "kinds": kinds, "labels": labels, "declared": declared,
            "sn_cols": sn_cols, "sn_order": sn_order, "sn_empty": mode == "empty", "rows": rows, "ess": ess,
            "ess_type": ess_type, "dag": dag, "dags2": dags2, "probes": probes, "pkinds": pkinds,
            "cache": cache, "perm": perm, "model_cls": rng.choice(["DAG", "BayesianNetwork"]),
            "mec": n <= (5 if thorough else 4), "mec_pairs_seed": rng.randrange(10 ** 6)}


# ------------------------------------------------------------------------------ oracle
def effective_states(spec):
    """Declared states per column (as indices): the state_names entry if passed, else the observed states."""
    ci = {c: i for i, c in enumerate(spec["cols"])}
    eff = {}
    for c in spec["cols"]:
        if c in spec["sn_cols"]:
            eff[c] = list(range(spec["declared"][c]))
        else:
            seen = []
            for row in spec["rows"]:
                if row[ci[c]] not in seen:
                    seen.append(row[ci[c]])
            eff[c] = sorted(seen)
    return eff


def family_counts(spec, var, parents):
    ci = {c: i for i, c in enumerate(spec["cols"])}
    N = {}
    for row in spec["rows"]:                       # plain row loop
        j = tuple(row[ci[p]] for p in parents)
        k = row[ci[var]]
        d = N.setdefault(j, {})
        d[k] = d.get(k, 0) + 1
    return N


def closed_forms(spec, eff, var, parents, ess):
    """Closed forms over the FULL declared table.  Returns (scores dict, info dict for the classifier)."""
    N = family_counts(spec, var, parents)
    states = eff[var]
    r = len(states)
    configs = list(itertools.product(*[eff[p] for p in parents]))
    q = len(configs)
    ntot = len(spec["rows"])
    colsum = {j: sum(N.get(j, {}).get(k, 0) for k in states) for j in configs}
    if sum(colsum.values()) != ntot:
        raise AssertionError("oracle: rows outside the declared table")
    q_obs = sum(1 for j in configs if colsum[j] > 0)
    a, b = ess / q, ess / (r * q)
    a_s, b_s = ess / q_obs, ess / (r * q_obs)
    k2 = bdeu = bds = ll = 0.0
    mag = {"k2": 0.0, "bd": 0.0, "ll": 0.0}     # sum of |addends|: the scale on which float64 rounding acts
    for j in configs:
        nj = colsum[j]
        k2 += lgamma(r) - lgamma(nj + r)
        bdeu += lgamma(a) - lgamma(nj + a)
        mag["k2"] += abs(lgamma(r)) + abs(lgamma(nj + r))
        mag["bd"] += abs(lgamma(a)) + abs(lgamma(nj + a)) + abs(lgamma(a_s)) + abs(lgamma(nj + a_s))
        if nj > 0:
            bds += lgamma(a_s) - lgamma(nj + a_s)
        for k in states:
            njk = N.get(j, {}).get(k, 0)
            k2 += lgamma(njk + 1)
            bdeu += lgamma(njk + b) - lgamma(b)
            mag["k2"] += abs(lgamma(njk + 1))
            mag["bd"] += abs(lgamma(njk + b)) + abs(lgamma(b)) + abs(lgamma(njk + b_s)) + abs(lgamma(b_s))
            if nj > 0:
                bds += lgamma(njk + b_s) - lgamma(b_s)
            if njk > 0:
                ll += njk * log(njk / nj)
                mag["ll"] += njk * (abs(log(njk)) + abs(log(nj)))
    dim = q * (r - 1)
    want = {"k2": k2, "bdeu": bdeu, "bds": bds, "bic": ll - 0.5 * log(ntot) * dim, "aic": ll - dim}
    mag["ll"] += (0.5 * log(ntot) + 1) * dim
    scale = {"k2": mag["k2"], "bdeu": mag["bd"], "bds": mag["bd"], "bic": mag["ll"], "aic": mag["ll"]}
    # comparison tolerance: 1e-9 absolute + 1e-9 relative to the result + 1e-14 relative to the sum of |addends|
    tol = {s: 1e-9 + 1e-9 * abs(want[s]) + 1e-14 * scale[s] for s in want}
    r_miss = sum(1 for k in states if all(N.get(j, {}).get(k, 0) == 0 for j in configs))
    info = {"r": r, "q": q, "q_obs": q_obs, "r_miss": r_miss, "has_parents": bool(parents),
            "N": N, "configs": configs, "states": states, "colsum": colsum, "tol": tol}
    return want, info


def structure_prior(score, nodes, edges):
    if score == "bds":
        n = len(nodes)
        return -(len(edges) + n * (n - 1) / 2.0) * log(2.0)
    return 0.0


def close(x, y, atol=1e-9, rtol=1e-9, tol=None):
    """tol (if given) is an absolute bound that already contains the magnitude-aware terms."""
    try:
        x, y = float(x), float(y)
    except Exception:
        return False
    if math.isnan(x) or math.isnan(y):
        return False
    if tol is not None:
        return x == y or abs(x - y) <= tol
    return x == y or abs(x - y) <= atol + rtol * abs(y)


# ---------------------------------------------------------- structural defect classifier
def defect_hypotheses(score, info, want, ess):
    """[(keys, predicted value)] - what pgmpy would return if exactly the named known mechanisms were at
    work on THIS family; each hypothesis carries its structural predicate (only listed when it holds)."""
    r, q, q_obs, r_miss = info["r"], info["q"], info["q_obs"], info["r_miss"]
    out = []
    if score == "k2":
        # the (q - q_obs) dropped empty columns each keep a stray +lnG(r)
        if q_obs < q and r >= 3:
            out.append(([K_K2_EMPTY], want + (q - q_obs) * lgamma(r)))
    elif score == "bdeu":
        # rows of declared-but-unobserved child states are dropped by the count table although -lnG(b) is charged
        if r_miss > 0 and info["has_parents"]:
            b = ess / (r * q)
            out.append(([K_BDEU_UNOBS], want - q_obs * r_miss * lgamma(b)))
    elif score == "bds":
        A = q_obs < q                                # beta uses the full q; stray -(q - q_obs) lnG(alpha~)
        B = r_miss > 0 and info["has_parents"]       # dropped rows of unobserved child states
        a_s = ess / q_obs
        for useA, useB in ((True, False), (False, True), (True, True)):
            if (useA and not A) or (useB and not B):
                continue
            b1 = ess / (r * q) if useA else ess / (r * q_obs)
            v = 0.0
            for j in info["configs"]:
                nj = info["colsum"][j]
                if nj == 0:
                    continue
                v += lgamma(a_s) - lgamma(nj + a_s)
                for k in info["states"]:
                    v += lgamma(info["N"].get(j, {}).get(k, 0) + b1) - lgamma(b1)
            if useB:
                v -= q_obs * r_miss * lgamma(b1)
            if useA:
                v -= (q - q_obs) * lgamma(a_s)
            out.append(([K_BDS_BETA] * useA + [K_BDS_UNOBS] * useB, v))
    return out


def _emit(ctx, emitted, key, what, cap=2, **detail):
    """At most `cap` violations per mechanism key and case (the per-case list is bounded; a flood of one
    mechanism must not crowd out a different one); the rest are counted as notes."""
    emitted[key] = emitted.get(key, 0) + 1
    if emitted[key] <= cap:
        ctx.violation(key, what, **detail)
    else:
        ctx.checks += 1
        ctx.note("more-of:" + key)


def judge_local(ctx, emitted, score, got, want, info, ess, label, **detail):
    """True iff got == closed form."""
    tol = info["tol"][score]
    if close(got, want, tol=tol):
        ctx.ok()
        return True
    for keys, pred in defect_hypotheses(score, info, want, ess):
        if close(got, pred, tol=10 * tol):
            for k in keys:
                _emit(ctx, emitted, k, f"{label} = {got!r}, closed form {want!r} (r={info['r']}, q={info['q']}, observed "
                              f"configurations={info['q_obs']}, declared-but-unobserved child states={info['r_miss']}); "
                              f"difference {float(got) - want:.9g} is exactly what mechanism {k} predicts", **detail)
            return False
    _emit(ctx, emitted, f"c10:wrong-local-score:{score}",
          f"{label} = {got!r}, closed form {want!r} (r={info['r']}, q={info['q']}, observed configurations="
          f"{info['q_obs']}, unobserved child states={info['r_miss']})", cap=3, **detail)
    return False


# ------------------------------------------------------------------------- run helpers
def build_frame(spec, rows=None, index=None):
    import numpy as np
    import pandas as pd
    rows = spec["rows"] if rows is None else rows
    ci = {c: i for i, c in enumerate(spec["cols"])}
    data = {}
    for c in spec["col_order"]:
        lab = spec["labels"][c]
        vals = [lab[row[ci[c]]] for row in rows]
        kind = spec["kinds"][c]
        if kind in ("int", "intoff", "bigint"):
            s = pd.Series(vals, dtype="int64", index=index)
        elif kind in ("float", "extfloat"):
            s = pd.Series(vals, dtype="float64", index=index)
        elif kind == "bool":
            s = pd.Series(vals, dtype="bool", index=index)
        elif kind in ("obj", "objodd"):
            s = pd.Series(np.array(vals, dtype=object), dtype=object, index=index)
        else:
            if c in spec["sn_cols"]:
                cats = list(lab)                           # categories == declared states
            else:
                cats = [x for x in lab if x in set(vals)]  # categories == observed states (no ambiguity)
            s = pd.Series(pd.Categorical(vals, categories=cats, ordered=(kind == "catord")), index=index)
        data[c] = s
    return pd.DataFrame(data)


def state_names_arg(spec):
    if not spec["sn_cols"]:
        return {} if spec.get("sn_empty") else None      # {} must behave like "nothing declared"
    return {c: [spec["labels"][c][i] for i in spec["sn_order"][c]] for c in spec["sn_cols"]}


def ess_arg(spec):
    if spec.get("ess_type") == "np":
        import numpy as np
        return np.float64(spec["ess"]) if isinstance(spec["ess"], float) else np.int64(spec["ess"])
    return spec["ess"]


def as_container(parents, kind):
    return tuple(parents) if kind == "tuple" else set(parents) if kind == "set" else list(parents)


def make_scorers(spec, df, sn):
    from pgmpy.estimators import AICScore, BDeuScore, BDsScore, BicScore, K2Score
    kw = {} if sn is None else {"state_names": {k: list(v) for k, v in sn.items()}}
    return {"k2": K2Score(df, **kw), "bdeu": BDeuScore(df, equivalent_sample_size=ess_arg(spec), **kw),
            "bds": BDsScore(df, equivalent_sample_size=ess_arg(spec), **kw), "bic": BicScore(df, **kw),
            "aic": AICScore(df, **kw)}


def make_model(cls_name, cols, edges, rng=None):
    from pgmpy.base import DAG
    from pgmpy.models import BayesianNetwork
    m = (DAG if cls_name == "DAG" else BayesianNetwork)()
    nodes, edges = list(cols), [tuple(e) for e in edges]
    if rng is not None:
        rng.shuffle(nodes)
        rng.shuffle(edges)
    m.add_nodes_from(nodes)
    m.add_edges_from(edges)
    return m


def _num(x):
    try:
        return float(x)
    except Exception:
        return None


def run_case(spec, ctx):
    import random

    from pgmpy.estimators import ScoreCache
    from pgmpy.metrics import structure_score

    cols, ess = spec["cols"], spec["ess"]
    eff = effective_states(spec)
    sn = state_names_arg(spec)
    df = build_frame(spec)
    prng = random.Random(spec["mec_pairs_seed"])

    built = ctx.call(make_scorers, spec, df, sn)
    if ctx.failed(built):
        ctx.violation(f"c10:exception:{built.type}@{built.where}", f"constructing the scorers raised {built!r}",
                      kinds=spec["kinds"], sn_cols=spec["sn_cols"])
        return
    scorers = built
    for c in cols:
        ctx.feature("dtype:" + spec["kinds"][c])
        if len(eff[c]) == 1:
            ctx.feature("card1")
        if len(eff[c]) >= 3:
            ctx.feature("card>=3")
    ctx.feature("state_names:" + ("none" if sn is None else "empty-dict" if not sn else
                                  "all" if len(sn) == len(cols) else "some"))
    ctx.feature("ess:" + ("tiny" if ess < 0.01 else "huge" if ess >= 1e4 else "non-integer" if ess != int(ess) else "integer"))
    if len(spec["rows"]) <= 3:
        ctx.feature(f"rows:{len(spec['rows'])}")
    if len(spec["rows"]) > 1000:
        ctx.feature("rows:>1000")
    ctx.feature("column-labels:" + ("int" if isinstance(cols[0], int) else "str"))

    # ---- local scores against the closed forms
    got_local = {}            # (score, var, tuple(parents)) -> float or None
    local_ok = {}             # same key -> bool (matches closed form)
    want_local = {}
    tol_local = {}
    answers = []
    full_probe = False
    emitted = {}
    cf_cache = {}
    int_labels = isinstance(cols[0], int)
    neutral = {}

    def exc(label, r, score, families, **detail):
        """An exception where the statement promises a number.  Structural classifier for the one known
        mechanism: integer column labels and a family with >= 2 parents (the list of integer labels is handed to
        Series.unstack); confirmed by re-running that family on the same frame with string labels."""
        key = f"c10:exception:{r.type}@{r.where}"
        fam2 = [f for f in families if len(f[1]) >= 2]
        if int_labels and fam2 and r.type == "ValueError" and r.where.endswith(":state_counts"):
            if "sc" not in neutral:
                ren = {c: f"s{c}" for c in cols}
                sn2 = None if sn is None else {ren[c]: v for c, v in sn.items()}
                neutral["ren"] = ren
                neutral["sc"] = ctx.call(make_scorers, spec, df.rename(columns=ren), sn2)
            sc2, ren = neutral["sc"], neutral["ren"]
            if not ctx.failed(sc2):
                v, pa = fam2[0]
                r2 = ctx.call(sc2[score].local_score, ren[v], [ren[x] for x in pa])
                if not ctx.failed(r2):
                    key = K_INT_LABELS
        _emit(ctx, emitted, key, f"{label} raised {r!r}", cap=2, column_labels=list(df.columns), **detail)

    def cf(var, parents):
        k = (var, tuple(parents))
        if k not in cf_cache:
            cf_cache[k] = closed_forms(spec, eff, var, list(parents), ess)
        return cf_cache[k]

    def local(score, var, parents, kind="list"):
        key = (score, var, tuple(parents))
        if key in got_local:
            return got_local[key]
        r = ctx.call(scorers[score].local_score, var, as_container(parents, kind))
        if ctx.failed(r):
            exc(f"{score}.local_score({var!r}, {list(parents)!r})", r, score, [(var, list(parents))],
                kinds=spec["kinds"], sn_cols=spec["sn_cols"])
            got_local[key] = None
            local_ok[key] = False
            return None
        v = _num(r)
        if v is None or math.isnan(v):
            ctx.violation("c10:malformed-result", f"{score}.local_score({var!r}, {list(parents)!r}) returned {r!r}")
            got_local[key] = None
            local_ok[key] = False
            return None
        want, info = cf(var, parents)
        want_local[key] = want[score]
        tol_local[key] = info["tol"][score]
        if info["q_obs"] < info["q"]:
            ctx.feature("unobserved-parent-configuration")
        if info["r_miss"] > 0:
            ctx.feature("declared-unobserved-child-state")
        local_ok[key] = judge_local(ctx, emitted, score, v, want[score], info, ess,
                                    f"{score}.local_score({var!r}, {list(parents)!r})", equivalent_sample_size=ess,
                                    n_rows=len(spec["rows"]))
        got_local[key] = v
        return v

    for (var, parents), pkind in zip(spec["probes"], spec["pkinds"]):
        vals = [local(s, var, parents, pkind) for s in SCORES]
        ctx.feature("parents-as:" + ("empty-" if not parents else "") + pkind)
        answers.extend(vals)
        if parents and all(v is not None for v in vals):
            full_probe = True
        ctx.feature(f"parents:{len(parents)}")
        # parent-list permutation invariance (pgmpy vs pgmpy)
        if len(parents) >= 2:
            alt = list(parents)
            prng.shuffle(alt)
            if alt == list(parents):
                alt.reverse()
            for s, v0 in zip(SCORES, vals):
                if v0 is None:
                    continue
                r = ctx.call(scorers[s].local_score, var, list(alt))
                if ctx.failed(r):
                    ctx.violation(f"c10:exception:{r.type}@{r.where}", f"{s}.local_score({var!r}, {alt!r}) raised {r!r}")
                    continue
                ctx.expect(close(r, v0, tol=tol_local.get((s, var, tuple(parents)), 1e-9)), "c10:parent-order-dependence",
                           f"{s}.local_score({var!r}, {alt!r}) = {r!r} but with parents listed as {list(parents)!r} "
                           f"it is {v0!r}")
    ctx.nontrivial = len(cols) >= 2 and full_probe

    # ---- row permutation invariance on a re-indexed, permuted copy of the frame
    perm = spec["perm"]
    rows_p = [spec["rows"][i] for i in perm]
    df_p = build_frame(spec, rows=rows_p, index=[int(i) for i in perm])
    sc_p = ctx.call(make_scorers, spec, df_p, sn)
    if ctx.failed(sc_p):
        ctx.violation(f"c10:exception:{sc_p.type}@{sc_p.where}", f"constructing scorers on permuted rows raised {sc_p!r}")
    else:
        for var, parents in spec["probes"][: max(3, len(cols))]:
            for s in SCORES:
                v0 = got_local.get((s, var, tuple(parents)))
                if v0 is None:
                    continue
                r = ctx.call(sc_p[s].local_score, var, list(parents))
                if ctx.failed(r):
                    ctx.violation(f"c10:exception:{r.type}@{r.where}", f"{s}.local_score on permuted rows raised {r!r}")
                    continue
                ctx.expect(close(r, v0, tol=tol_local.get((s, var, tuple(parents)), 1e-9)), "c10:row-order-dependence",
                           f"{s}.local_score({var!r}, {list(parents)!r}) = {r!r} on row-permuted data, {v0!r} on the original")

    # ---- network score: sum of locals + prior; metrics.structure_score
    edges = [tuple(e) for e in spec["dag"]]
    par = gen.parents_of(cols, edges)

    def judge_network(label, got, score, node_list, edge_list, detail_key="c10:network-not-sum-of-locals"):
        g = _num(got)
        if g is None or math.isnan(g):
            ctx.violation("c10:malformed-result", f"{label} returned {got!r}")
            return
        p = gen.parents_of(node_list, edge_list)
        keys = [(score, v, tuple(p[v])) for v in node_list]
        # family locals in whichever parent order was probed; fall back to sorted order
        parts, all_ok, tsum = [], True, 1e-9
        for (s, v, pa) in keys:
            cand = [k for k in got_local if k[0] == s and k[1] == v and sorted(k[2]) == sorted(pa)
                    and got_local[k] is not None]
            if not cand:
                local(s, v, sorted(pa))
                cand = [k for k in got_local if k[0] == s and k[1] == v and sorted(k[2]) == sorted(pa)
                        and got_local[k] is not None]
            if not cand:
                return          # local score raised: already reported
            parts.append(got_local[cand[0]])
            all_ok = all_ok and local_ok[cand[0]]
            tsum += cf(v, sorted(pa))[1]["tol"][s]
        prior = structure_prior(score, node_list, edge_list)
        tsum += 1e-9 * abs(g)
        ctx.expect(close(g, sum(parts) + prior, tol=tsum), detail_key,
                   f"{label} = {g!r} but sum of its own local scores {sum(parts)!r} + structure prior {prior!r} = "
                   f"{sum(parts) + prior!r}", edges=edge_list)
        if all_ok:
            wsum = sum(cf(v, sorted(p[v]))[0][score] for v in node_list) + prior
            ctx.expect(close(g, wsum, tol=tsum), f"c10:wrong-network-score:{score}",
                       f"{label} = {g!r}, closed form {wsum!r}", edges=edge_list)
        else:
            ctx.note("network-closed-form-skipped(local defect already reported)")

    model = make_model(spec["model_cls"], cols, edges, rng=random.Random(spec["mec_pairs_seed"] + 1))
    net = {}
    for s in SCORES:
        r = ctx.call(scorers[s].score, model)
        if ctx.failed(r):
            exc(f"{s}.score(model)", r, s, [(v, par[v]) for v in cols], edges=edges)
            continue
        net[s] = _num(r)
        answers.append(net[s])
        judge_network(f"{s}.score({spec['model_cls']} {edges})", r, s, cols, edges)
    for s in ("k2", "bdeu", "bds", "bic"):
        kw = {}
        if sn is not None:
            kw["state_names"] = {k: list(v) for k, v in sn.items()}
        if s in ("bdeu", "bds"):
            kw["equivalent_sample_size"] = ess_arg(spec)
        r = ctx.call(structure_score, model, df, scoring_method=s, **kw)
        if ctx.failed(r):
            exc(f"structure_score(..., {s!r})", r, s, [(v, par[v]) for v in cols], edges=edges)
            continue
        answers.append(_num(r))
        judge_network(f"metrics.structure_score(scoring_method={s!r}, edges={edges})", r, s, cols, edges,
                      detail_key="c10:structure-score-wrapper")
        if s in net and net[s] is not None:
            ctx.expect(close(r, net[s], tol=1e-9 + 1e-9 * abs(net[s])), "c10:structure-score-wrapper",
                       f"structure_score(..., {s!r}) = {r!r} but {s} scorer .score(model) = {net[s]!r}")

    # ---- object reuse: the SAME scorer objects score further, different models; each answer judged for THAT model
    models2 = []
    for k, e2 in enumerate(spec["dags2"]):
        e2 = [tuple(e) for e in e2]
        m2 = make_model("DAG" if k else spec["model_cls"], cols, e2, rng=random.Random(spec["mec_pairs_seed"] + 2 + k))
        models2.append((m2, e2))
        for s in SCORES:
            r = ctx.call(scorers[s].score, m2)
            if ctx.failed(r):
                exc(f"{s}.score(model #{k + 2})", r, s, list(gen.parents_of(cols, e2).items()), edges=e2)
                continue
            answers.append(_num(r))
            judge_network(f"{s}.score(reused scorer, DAG {e2})", r, s, cols, e2)
    # ... and the first model again: a scorer must not remember the models in between
    for s in SCORES:
        if net.get(s) is None:
            continue
        r = ctx.call(scorers[s].score, model)
        if ctx.failed(r):
            exc(f"{s}.score(model) asked again", r, s, [(v, par[v]) for v in cols], edges=edges)
            continue
        ctx.expect(close(r, net[s], tol=1e-12 + 1e-12 * abs(net[s])), "c10:scorer-state-leak",
                   f"{s}.score(model) = {r!r} when asked again after scoring other models, first answer {net[s]!r}",
                   edges=edges)

    # ---- cached == uncached: one ScoreCache object serves local scores AND several network scores, interleaved
    cs = spec["cache"]
    base = make_scorers(spec, df, sn)[cs["score"]]
    plain = scorers[cs["score"]]
    trace = []
    orig = base.local_score

    def counting(variable, parents):
        trace.append((variable, tuple(parents)))
        return orig(variable, parents)

    base.local_score = counting                    # instance attribute: observed from outside, class untouched
    cache = ctx.call(ScoreCache, base, df, max_size=cs["max_size"])

    def cached_network(label, m, e):
        """cache.score(m) must equal the uncached scorer's .score(m) for THIS model."""
        r = ctx.call(cache.score, m)
        if ctx.failed(r):
            cache_exc(label, r, list(gen.parents_of(cols, e).items()))
            return
        u0 = ctx.call(plain.score, m)
        if ctx.failed(u0):
            return                                  # uncached failure is reported where the scorer is judged
        u = _num(u0)
        answers.append(_num(r))
        if close(r, u, tol=1e-9 + 1e-9 * abs(u)):
            ctx.ok()
            return
        prior = structure_prior(cs["score"], cols, e)
        if prior != 0.0 and close(_num(r) + prior, u, tol=1e-9 + 1e-9 * abs(u)):
            ctx.violation(K_CACHE_PRIOR, f"{label} = {r!r}, uncached {cs['score']}.score = {u!r}: the base scorer's "
                          f"structure prior {prior!r} is missing from the cached network score", edges=e)
        else:
            ctx.violation("c10:cache-network-score", f"{label} = {r!r}, uncached {cs['score']}.score = {u!r}",
                          edges=e, max_size=cs["max_size"])

    def cache_exc(label, r, families):
        # structural classifier: max_size == 0 (accepted by the constructor) - confirmed by the same call on a
        # cache of max_size 1 over the same base scorer
        if cs["max_size"] == 0 and r.type in ("TypeError", "KeyError") and "ScoreCache.py" in r.where:
            c1 = ctx.call(ScoreCache, base, df, max_size=1)
            v, pa = families[0]
            if not ctx.failed(c1) and not ctx.failed(ctx.call(c1.local_score, v, list(pa))):
                _emit(ctx, emitted, K_CACHE_ZERO, f"{label} raised {r!r} on a ScoreCache constructed with max_size=0", cap=1)
                return
        exc(label, r, cs["score"], families, max_size=cs["max_size"])

    if ctx.failed(cache):
        ctx.violation(f"c10:exception:{cache.type}@{cache.where}", f"ScoreCache(max_size={cs['max_size']}) raised {cache!r}")
    else:
        from collections import OrderedDict
        lru = OrderedDict()
        ctx.feature(f"cache-max_size:{cs['max_size']}")
        evictions = 0
        lru_ok = cs["max_size"] > 0
        all_models = [(model, edges)] + models2
        for step, pi in enumerate(cs["seq"]):
            if step in cs["interleave"]:
                k = cs["interleave"].index(step) % len(all_models)
                cached_network(f"ScoreCache({cs['score']}, max_size={cs['max_size']}).score(model #{k + 1}) "
                               f"before access {step}", *all_models[k])
                ctx.feature("cache-interleaved-network-score")
                lru_ok = False                      # reference LRU trace no longer comparable
            var, parents = cs["pool"][pi]
            key = (var, tuple(parents))
            n0 = len(trace)
            r = ctx.call(cache.local_score, var, as_container(parents, cs["pool_kinds"][pi]))
            if ctx.failed(r):
                cache_exc(f"ScoreCache.local_score({var!r}, {list(parents)!r}) at access {step}", r, [(var, list(parents))])
                if cs["max_size"] == 0 and step >= 2:
                    break
                continue
            u = got_local.get((cs["score"], var, tuple(parents)))
            if u is None:
                u0 = ctx.call(plain.local_score, var, list(parents))
                u = None if ctx.failed(u0) else _num(u0)
                if u is not None:
                    got_local[(cs["score"], var, tuple(parents))] = u
                    local_ok.setdefault((cs["score"], var, tuple(parents)), False)
            if u is not None:
                ctx.expect(close(r, u, tol=tol_local.get((cs["score"], var, tuple(parents)), 1e-9 + 1e-9 * abs(u))),
                           "c10:cache-value",
                           f"ScoreCache({cs['score']}, max_size={cs['max_size']}).local_score({var!r}, {list(parents)!r}) "
                           f"= {r!r} at access {step}, uncached scorer gives {u!r}", seq=cs["seq"][: step + 1])
            answers.append(_num(r))
            # reference LRU model.  The eviction policy itself is NOT part of the property (only "cached ==
            # uncached" is): a deviation from the LRU reference is reported as a note, never as a violation.
            if lru_ok:
                recomputed = trace[n0:]
                if key in lru:
                    lru.move_to_end(key)
                    expect_calls = []
                else:
                    if len(lru) >= cs["max_size"]:
                        lru.popitem(last=False)
                        evictions += 1
                    lru[key] = True
                    expect_calls = [key]
                if [(a, tuple(sorted(b, key=repr))) for a, b in recomputed] != \
                        [(a, tuple(sorted(b, key=repr))) for a, b in expect_calls] and cs["pool_kinds"][pi] != "set":
                    lru_ok = False
                    ctx.note("cache-recomputation-differs-from-lru-reference")
        if evictions or (0 < cs["max_size"] < len(cs["pool"])):
            ctx.feature("cache-evictions")
        # the same cache object then scores every model (and the first one again)
        if cs["use_dag_score"]:
            for k, (m, e) in enumerate(all_models + [all_models[0]]):
                cached_network(f"ScoreCache({cs['score']}, max_size={cs['max_size']}).score(model #{k % len(all_models) + 1})", m, e)

    # ---- the same scorer objects, asked the first questions again at the end of the case (state must not leak)
    for (var, parents) in spec["probes"][:3]:
        for s in SCORES:
            v0 = got_local.get((s, var, tuple(parents)))
            if v0 is None:
                continue
            r = ctx.call(scorers[s].local_score, var, list(parents))
            if ctx.failed(r):
                exc(f"{s}.local_score({var!r}, {list(parents)!r}) asked again", r, s, [(var, list(parents))])
                continue
            ctx.expect(close(r, v0, tol=tol_local.get((s, var, tuple(parents)), 1e-9)), "c10:scorer-state-leak",
                       f"{s}.local_score({var!r}, {list(parents)!r}) = {r!r} at the end of the case, {v0!r} at the start")

    # ---- score equivalence inside every Markov-equivalence class (exhaustive over the DAGs on the columns)
    if spec["mec"]:
        n = len(cols)
        idx_nodes = list(range(n))
        classes = oracle.mec_classes(idx_nodes)
        ctx.feature(f"mec-exhaustive-n{n}")
        for s in EQUIV_SCORES:
            fam = {}
            bad = False
            famtol = 0.0
            for vi in idx_nodes:
                others = [x for x in idx_nodes if x != vi]
                for k in range(len(others) + 1):
                    for pa in itertools.combinations(others, k):
                        v = local(s, cols[vi], [cols[x] for x in pa])     # also judged against the closed form
                        if v is None:
                            bad = True
                        fam[(vi, pa)] = v
                        famtol = max(famtol, tol_local.get((s, cols[vi], tuple(cols[x] for x in pa)), 0.0))
            if bad:
                ctx.note("mec-skipped(local score raised)")
                continue
            worst = None
            ncls = 0
            for key, members in classes.items():
                if len(members) < 2:
                    continue
                ncls += 1
                tot = []
                for m in members:
                    p = gen.parents_of(idx_nodes, m)
                    tot.append(sum(fam[(v, tuple(sorted(p[v])))] for v in idx_nodes))
                lo, hi = min(tot), max(tot)
                if not close(lo, hi, tol=1e-8 + 2 * n * famtol):
                    if worst is None or hi - lo > worst[0]:
                        worst = (hi - lo, members[tot.index(lo)], members[tot.index(hi)], lo, hi)
            if worst is None:
                ctx.ok(ncls)
                continue
            g1 = [(cols[a], cols[b]) for a, b in worst[1]]
            g2 = [(cols[a], cols[b]) for a, b in worst[2]]
            what = (f"{s} is not score equivalent: Markov-equivalent DAGs {g1} and {g2} score {worst[3]!r} and "
                    f"{worst[4]!r} (sum of local scores)")
            key = f"c10:not-score-equivalent:{s}"
            if s == "bdeu" and sn is not None:
                # structural classifier: some column has a declared-but-unobserved state; confirmed by re-running
                # with that feature neutralised (state_names restricted to the observed states)
                unobs = [c for c in spec["sn_cols"] if len(_observed(spec, c)) < spec["declared"][c]]
                if unobs and _equivalent_when_neutralised(ctx, spec, df, classes, idx_nodes):
                    key = K_BDEU_UNOBS
                    what += f"; columns with declared-but-unobserved states: {unobs}; equivalent once those states are not declared"
            ctx.violation(key, what)
        # the real .score(model) on one random pair of equivalent DAGs
        multi = [m for m in classes.values() if len(m) >= 2]
        if multi:
            members = multi[prng.randrange(len(multi))]
            m1, m2 = prng.sample(members, 2)
            for s in EQUIV_SCORES:
                vals = []
                for m in (m1, m2):
                    e = [(cols[a], cols[b]) for a, b in m]
                    r = ctx.call(scorers[s].score, make_model("DAG", cols, e))
                    if ctx.failed(r):
                        exc(f"{s}.score(DAG {e})", r, s, list(gen.parents_of(cols, e).items()), edges=e)
                        vals = None
                        break
                    judge_network(f"{s}.score(DAG {e})", r, s, cols, e)
                    vals.append(_num(r))
                if vals:
                    answers.extend(vals)

    # hash-seed independence of every returned number.  With set-typed parents the summation order inside pgmpy
    # follows the hash seed; at ess >= 1e4 the addends are ~1e7 and rounding alone exceeds the parent's 1e-9 band.
    any_set = "set" in spec["pkinds"] or "set" in spec["cache"]["pool_kinds"]
    if any_set and ess >= 1e3:
        ctx.note("xcell-skipped(set-typed parents with huge ess: rounding follows hash order)")
    else:
        ctx.xcell["scores"] = [None if a is None else float(a) for a in answers]


def _observed(spec, c):
    i = spec["cols"].index(c)
    return sorted({row[i] for row in spec["rows"]})


def _equivalent_when_neutralised(ctx, spec, df, classes, idx_nodes):
    """Re-run the BDeu equivalence check with no declared-but-unobserved state (state_names = observed states)."""
    from pgmpy.estimators import BDeuScore
    cols = spec["cols"]
    sn2 = {c: [spec["labels"][c][i] for i in spec["sn_order"][c] if i in set(_observed(spec, c))] for c in spec["sn_cols"]}
    sc = ctx.call(BDeuScore, df, equivalent_sample_size=spec["ess"], state_names=sn2)
    if ctx.failed(sc):
        return False
    fam = {}
    for vi in idx_nodes:
        others = [x for x in idx_nodes if x != vi]
        for k in range(len(others) + 1):
            for pa in itertools.combinations(others, k):
                r = ctx.call(sc.local_score, cols[vi], [cols[x] for x in pa])
                if ctx.failed(r):
                    return False
                fam[(vi, pa)] = float(r)
    for members in classes.values():
        if len(members) < 2:
            continue
        tot = []
        for m in members:
            p = gen.parents_of(idx_nodes, m)
            tot.append(sum(fam[(v, tuple(sorted(p[v])))] for v in idx_nodes))
        if not close(min(tot), max(tot), atol=1e-8):
            return False
    return True
