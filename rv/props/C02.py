"""C02 - junction-tree belief propagation is exact and calibrated.

Observe: BeliefPropagation(model) for Bayesian networks, Markov networks (plain and after
         MarkovNetwork.triangulate(H1..H6)), factor graphs and hand-built junction trees;
         calibrate() / max_calibrate() -> get_clique_beliefs() / get_sepset_beliefs();
         query(variables, evidence by state name, virtual_evidence, joint) on fresh, calibrated
         and re-used engines.
Oracle : brute-force joint of the spec (CPD product, or normalised product of the listed
         factors).  Clique / sepset beliefs must be proportional to the (max-)marginal of the
         joint over their scope, adjacent cliques must agree on the sepset and with the stored
         sepset belief; every query must equal the conditional read off the joint, per NAMED
         assignment, carry the model's state names and must not raise.
Monitors (applied from outside, read-only, used only to *attribute* an alarm to a mechanism):
         * MarkovNetwork.to_junction_tree return: which clique potentials carry default integer
           state names although the model's factors name the states otherwise;
         * BeliefPropagation._is_converged return: was "converged" answered while the beliefs
           (measured exactly by the monitor) still disagree on a sepset.
"""
import functools
import itertools
import os

import numpy as np

from rv import gen, oracle

_SCALE = float(os.environ.get("RV_CASE_SCALE", "1") or 1)          # smoke-testing the thorough tier only
PLAN = {
    "quick": {"cases": int(2400 * _SCALE), "hashseeds": 3, "shards": 5, "timeout": 600,
              "min_nontrivial": int(600 * _SCALE)},
    "thorough": {"cases": int(16000 * _SCALE), "hashseeds": 12, "shards": 4, "timeout": 3300,
                 "min_nontrivial": int(4000 * _SCALE)},
}
RULE = ("connected models of four kinds: BN (2-7 nodes quick / 2-8 thorough, connected moral graph; chain, collider, "
        "fork, family, ER, dense ER; cards 1-4), Markov network and factor graph (hyper-tree, chordless cycle, grid, ER "
        "templates; unary / pairwise / ternary factors, several different factors on one scope, factor-less edges, "
        "potentials scaled by 1e-3..1e-6 or 1e3, near-uniform factors), hand-built junction tree (running intersection "
        "by construction, non-maximal cliques, scope order != clique order); state names id / 1-based / permuted ints / "
        "strings / tuples / mixed; exact zeros. Markov networks additionally go through triangulate(H1..H6, inplace or "
        "copy). Per model: calibrate + max_calibrate beliefs, 3-5 queries (1-3 variables, 0-3 hard evidence by state "
        "name with P(e)>0 checked by the oracle, evidence forced onto a non-simplicial variable in ~45 % of the queries, "
        "0-2 virtual-evidence vectors for BNs, joint in {True, False}) on fresh / calibrated / re-used engines; plus a "
        "shared engine that first executes 1-3 other public calls (map_query with pruning evidence, calibrate, "
        "max_calibrate, query with virtual evidence, plain query, the getters; results ignored) and must then answer "
        "up to 3 judged posterior queries. "
        "Every 40th case is a disconnected sentinel that must be refused with ValueError. non-trivial: the junction "
        "tree observed in the worker has >= 2 cliques; distinct by digest of the whole spec. No two equal factors on one "
        "scope (that collapse belongs to C14)")
ASSUMPTIONS = ["brute-force joint (<= 4096 cells quick, <= 16384 thorough) is the reference",
               "float64; beliefs compared up to one positive constant at 1e-9 relative to the largest entry, "
               "posteriors at atol=rtol=1e-9",
               "all factors of a model list the states of a variable in the same order",
               "virtual evidence is defined for Bayesian networks only (the engine ignores it for other kinds)",
               "shared-engine histories consist of successful calls only; map_query values are not judged (C03)"]
REACH = [
    "pgmpy.inference.ExactInference:BeliefPropagation._update_beliefs",
    "pgmpy.inference.ExactInference:BeliefPropagation._calibrate_junction_tree",
    "pgmpy.inference.ExactInference:BeliefPropagation._is_converged",
    "pgmpy.inference.ExactInference:BeliefPropagation._query",
    "pgmpy.inference.ExactInference:BeliefPropagation.query",
    "pgmpy.inference.ExactInference:BeliefPropagation.calibrate",
    "pgmpy.inference.ExactInference:BeliefPropagation.max_calibrate",
    "pgmpy.models.MarkovNetwork:MarkovNetwork.triangulate",
    "pgmpy.models.MarkovNetwork:MarkovNetwork.to_junction_tree",
    "pgmpy.models.JunctionTree:JunctionTree.add_edge",
    "pgmpy.models.ClusterGraph:ClusterGraph.add_edge",
    "pgmpy.models.ClusterGraph:ClusterGraph.add_factors",
    "pgmpy.models.FactorGraph:FactorGraph.to_junction_tree",
    "pgmpy.models.BayesianNetwork:BayesianNetwork.to_junction_tree",
    "pgmpy.inference.base:Inference._virtual_evidence",
    "pgmpy.inference.base:Inference._prune_bayesian_model",
]
REACH_REQUIRED = list(REACH)
MONITORS_REQUIRED = ["jt_monitor_evals", "converged_monitor_evals"]
MANIFEST = {
    "text": "On every generated connected model (BN / MN / FG / hand-built JT, all six triangulation heuristics, "
            "string / int / tuple / mixed state names, several process hash seeds) the calibrated clique and sepset "
            "beliefs were proportional to the brute-force (max-)marginals and mutually consistent, and every BP query "
            "with evidence by state name returned the brute-force conditional with the model's state names.",
    "note": "trusted base: the brute-force joint over <= 16384 cells, numpy float64 arithmetic, the generators' "
            "certificate that P(evidence) > 0",
    "technique": "runtime monitoring: reference-model (brute-force joint) monitor on calibrate / max_calibrate / query, "
                 "return-value monitors on to_junction_tree and _is_converged for mechanism attribution, hash-seed fan-out",
}

KEY_NAMES = "c02:jt-unit-potential-no-state-names"
KEY_TOL = "c02:converged-test-loose-tolerance"
NAME_KEYS = ("c02:state-names", "c02:belief-state-names")
VALUE_KEYS = ("c02:wrong-clique-belief", "c02:wrong-sepset-belief", "c02:not-calibrated", "c02:wrong-posterior")
HEURISTICS = ["H1", "H2", "H3", "H4", "H5", "H6"]
BN_SHAPES = ["er", "er", "er", "er_dense", "chain", "collider", "fork", "family"]


# =============================================================================== small graph helpers
def _adj(nodes, pairs):
    nb = {v: set() for v in nodes}
    for a, b in pairs:
        if a != b:
            nb[a].add(b)
            nb[b].add(a)
    return nb


def _connected(nodes, pairs):
    if not nodes:
        return True
    nb = _adj(nodes, pairs)
    seen, stack = {nodes[0]}, [nodes[0]]
    while stack:
        x = stack.pop()
        for y in nb[x]:
            if y not in seen:
                seen.add(y)
                stack.append(y)
    return len(seen) == len(nodes)


def _moral_pairs(bn):
    pairs = [tuple(e) for e in bn["edges"]]
    for v in bn["nodes"]:
        pa = bn["cpds"][v]["parents"]
        pairs += list(itertools.combinations(pa, 2))
    return pairs


def _scope_pairs(factors):
    out = []
    for f in factors:
        out += list(itertools.combinations(f["vars"], 2))
    return out


def _hubs(nodes, pairs):
    """variables with two neighbours that are not adjacent (not simplicial): they sit in >= 2 maximal
    cliques of the interaction graph itself."""
    nb = _adj(nodes, pairs)
    out = []
    for v in nodes:
        ns = sorted(nb[v])
        if any(b not in nb[a] for a, b in itertools.combinations(ns, 2)):
            out.append(v)
    return out


def _is_chordal(nodes, pairs):
    nb = _adj(list(nodes), pairs)
    left = set(nodes)
    while left:
        simp = None
        for v in sorted(left, key=repr):
            ns = [x for x in nb[v] if x in left]
            if all(b in nb[a] for a, b in itertools.combinations(ns, 2)):
                simp = v
                break
        if simp is None:
            return False
        left.discard(simp)
    return True


# ===================================================================================== generators
def _cards_states(rng, nodes, kind, cards, max_joint):
    while True:
        card = {v: rng.choice(cards) for v in nodes}
        tot = 1
        for v in nodes:
            tot *= card[v]
        if tot <= max_joint:
            break
    states = {v: gen.state_names_for(rng, v, card[v], kind) for v in nodes}
    return card, states


def _rand_vals(rng, card, vs, zeros=True):
    size = 1
    for v in vs:
        size *= card[v]
    flat = [rng.choice(gen.GRID) * (1 + rng.randint(0, 3)) if (not zeros or rng.random() > 0.1) else 0.0
            for _ in range(size)]
    if all(x == 0 for x in flat):
        flat[0] = 1.0
    return flat


def _named_table(f, card):
    """{frozenset((var, idx))...: value} of a factor spec, for the no-equal-factors certificate."""
    out = {}
    for flat, idx in enumerate(itertools.product(*[range(card[v]) for v in f["vars"]])):
        out[frozenset(zip(f["vars"], idx))] = f["values"][flat]
    return out


def _make_distinct(rng, factors, card):
    """No two factors on the same scope set may be (nearly) equal: pgmpy collapses those (C14's finding)."""
    for i, f in enumerate(factors):
        for g in factors[:i]:
            if set(f["vars"]) == set(g["vars"]):
                for _ in range(20):
                    a, b = _named_table(f, card), _named_table(g, card)
                    if max(abs(a[k] - b[k]) for k in a) > 1e-3:
                        break
                    f["values"] = [x + rng.choice(gen.GRID) for x in f["values"]]


def gen_ug(rng, tier, kind, prefix="m", n=None):
    """Markov network / factor graph spec with a connected interaction graph."""
    nmax = 7 if tier == "quick" else 8
    n = n or rng.randint(2, nmax)
    nodes = [f"{prefix}{i}" for i in range(n)]
    skind = rng.choice(["id", "int1", "perm", "str", "str", "tuple", "mixed", "mixed"])
    card, states = _cards_states(rng, nodes, skind, (1, 2, 2, 2, 3, 3, 4),
                                 4096 if tier == "quick" else 16384)
    order = nodes[:]
    rng.shuffle(order)
    tmpl = rng.choice(["hyper", "hyper", "cycle", "cycle", "grid", "er"])
    if tmpl == "cycle" and n < 4:
        tmpl = "hyper"
    if tmpl == "grid" and n < 6:
        tmpl = "cycle" if n >= 4 else "er"
    scopes = []
    if tmpl == "hyper":
        for i in range(1, n):
            k = min(i, rng.choice([1, 1, 2]))
            scopes.append([order[i]] + rng.sample(order[:i], k))
    elif tmpl == "cycle":
        L = rng.randint(4, n)
        cyc = order[:L]
        scopes = [[cyc[i], cyc[(i + 1) % L]] for i in range(L)]
        for v in order[L:]:
            scopes.append([v, rng.choice(order[:order.index(v)])])
    elif tmpl == "grid":
        g = order[:6]
        for a, b in [(0, 1), (1, 2), (3, 4), (4, 5), (0, 3), (1, 4), (2, 5)]:
            scopes.append([g[a], g[b]])
        for v in order[6:]:
            scopes.append([v, rng.choice(order[:order.index(v)])])
    else:
        for i in range(1, n):
            scopes.append([order[i], order[rng.randrange(i)]])
        for a, b in itertools.combinations(order, 2):
            if rng.random() < 0.25 and not any(set(s) == {a, b} for s in scopes):
                scopes.append([a, b])
    for s in scopes:
        rng.shuffle(s)
    pairs = _scope_pairs([{"vars": s} for s in scopes])
    extra_edges = []
    if kind == "mn":
        # ternary factors only on triangles of the graph
        nb = _adj(nodes, pairs)
        tris = [t for t in itertools.combinations(nodes, 3)
                if t[1] in nb[t[0]] and t[2] in nb[t[0]] and t[2] in nb[t[1]]]
        for t in tris:
            if rng.random() < 0.4:
                t = list(t)
                rng.shuffle(t)
                scopes.append(t)
        # edges that carry no factor, and pairwise factors dropped from an edge (edge stays)
        for a, b in itertools.combinations(nodes, 2):
            if rng.random() < 0.08 and b not in nb[a]:
                extra_edges.append([a, b])
        kept = []
        for s in scopes:
            if len(s) == 2 and rng.random() < 0.15:
                extra_edges.append(list(s))
            else:
                kept.append(s)
        scopes = kept
    else:
        # factor graphs: scopes need not be cliques of anything; add a few free ternary scopes
        for _ in range(rng.choice([0, 0, 1, 2])):
            if n >= 3:
                scopes.append(rng.sample(nodes, 3))
    for v in nodes:
        if rng.random() < 0.3:
            scopes.append([v])
    for s in list(scopes):
        if rng.random() < 0.15:
            s2 = list(s)
            rng.shuffle(s2)
            scopes.append(s2)
    covered = {v for s in scopes for v in s}
    for v in nodes:
        if v not in covered:
            scopes.append([v])
    if kind == "fg":
        # the factor graph's interaction graph must stay connected after dropping nothing: it is, by construction
        pass
    rng.shuffle(scopes)
    zeros = True
    for attempt in range(6):
        factors = [{"vars": list(s), "values": _rand_vals(rng, card, s, zeros)} for s in scopes]
        _make_distinct(rng, factors, card)
        spec = {"nodes": nodes, "edges": [], "card": card, "states": states, "factors": factors, "kind": skind}
        if oracle.mn_joint(spec)[1].sum() > 0:
            break
        zeros = attempt < 3
    feats = [f"tmpl:{tmpl}"]
    r = rng.random()
    if r < 0.14:
        s = rng.choice([1e-3, 1e-4, 1e-6, 1e3])
        if rng.random() < 0.7:
            for f in factors:
                f["values"] = [x * s for x in f["values"]]
            feats.append("scaled-all")
            spec["scale_all"] = s
        else:
            f = rng.choice(factors)
            f["values"] = [x * s for x in f["values"]]
            feats.append("scaled-one")
    elif r < 0.22:
        big = [f for f in factors if len(f["vars"]) >= 2]
        if big:
            f = rng.choice(big)
            f["values"] = [(1.0 + 1e-7 * rng.randint(-9, 9)) / card[f["vars"][-1]] for _ in f["values"]]
            _make_distinct(rng, factors, card)
            feats.append("weak-factor")
            spec["weak"] = factors.index(f)
    if kind == "mn":
        edges = []
        for a, b in _scope_pairs(factors) + [tuple(e) for e in extra_edges]:
            if [a, b] not in edges and [b, a] not in edges:
                edges.append([a, b])
        spec["edges"] = edges
    if not _connected(nodes, _scope_pairs(factors) + [tuple(e) for e in spec["edges"]]):
        return gen_ug(rng, tier, kind, prefix, n)        # dropped factors disconnected it: draw again
    spec["feats"] = feats
    return spec


def gen_jt(rng, tier, prefix="j", n=None):
    """Hand-built junction tree: running intersection holds by construction (every new clique takes
    a subset of ONE existing clique as separator plus brand-new variables)."""
    nmax = 7 if tier == "quick" else 8
    n = n or rng.randint(2, nmax)
    nodes = [f"{prefix}{i}" for i in range(n)]
    skind = rng.choice(["id", "int1", "perm", "str", "str", "tuple", "mixed"])
    card, states = _cards_states(rng, nodes, skind, (1, 2, 2, 2, 3, 3, 4), 4096 if tier == "quick" else 16384)
    pool = nodes[:]
    rng.shuffle(pool)
    k0 = min(len(pool), rng.randint(1, 3))
    cliques = [pool[:k0]]
    pool = pool[k0:]
    tree = []
    while pool or (len(cliques) < 2 and rng.random() < 0.3):
        par = rng.choice(cliques)
        S = rng.sample(par, rng.randint(1, min(2, len(par))))
        knew = min(len(pool), rng.choice([1, 1, 2])) if pool else 0
        if pool and len(S) < len(par) and rng.random() < 0.1:
            knew = 0                                   # a non-maximal clique (separator only)
        new = S + pool[:knew]
        if any(set(new) == set(c) for c in cliques):
            if not pool:
                break
            continue
        pool = pool[knew:]
        rng.shuffle(new)
        cliques.append(new)
        tree.append([list(par), list(new)])
    factors = []
    zeros = True
    for attempt in range(6):
        factors = []
        for c in cliques:
            vs = list(c)
            rng.shuffle(vs)
            factors.append({"vars": vs, "values": _rand_vals(rng, card, vs, zeros)})
        spec = {"nodes": nodes, "card": card, "states": states, "factors": factors, "kind": skind,
                "cliques": [list(c) for c in cliques], "tree": tree, "edges": []}
        if oracle.mn_joint(spec)[1].sum() > 0:
            break
        zeros = attempt < 3
    feats = []
    if rng.random() < 0.12:
        s = rng.choice([1e-3, 1e-4, 1e-6, 1e3])
        for f in factors:
            f["values"] = [x * s for x in f["values"]]
        feats.append("scaled-all")
        spec["scale_all"] = s
    spec["feats"] = feats
    return spec


def gen_bn(rng, tier):
    nmax = 7 if tier == "quick" else 8
    for _ in range(60):
        bn = gen.rand_bn_spec(rng, n_range=(2, nmax), shape=rng.choice(BN_SHAPES),
                              max_joint=4096 if tier == "quick" else 16384)
        if _connected(bn["nodes"], _moral_pairs(bn)):
            break
    else:
        bn = gen.rand_bn_spec(rng, n_range=(2, nmax), shape="chain", max_joint=4096)
    feats = []
    if rng.random() < 0.08:
        cands = [v for v in bn["nodes"] if bn["cpds"][v]["parents"] and bn["card"][v] > 1]
        if cands:
            v = rng.choice(cands)
            r = bn["card"][v]
            q = len(bn["cpds"][v]["table"][0])
            cols = []
            for _ in range(q):
                d = [1e-7 * rng.randint(-9, 9) for _ in range(r)]
                col = [1.0 / r + x for x in d]
                i = rng.randrange(r)
                col[i] = 1.0 - sum(c for t, c in enumerate(col) if t != i)
                cols.append(col)
            bn["cpds"][v]["table"] = [[cols[j][i] for j in range(q)] for i in range(r)]
            feats.append("weak-factor")
            bn["weak"] = v
    bn["feats"] = feats
    return bn


def gen_queries(rng, nodes, card, J, hubs, nq, allow_virtual):
    """queries: query vars, hard evidence (state INDEX, P(e)>0 by the oracle), virtual-evidence vectors, joint flag."""
    out = []
    n = len(nodes)
    for qi in range(nq):
        k = rng.randint(1, min(3, n))
        query = rng.sample(nodes, k)
        virt = []
        if allow_virtual and rng.random() < 0.3:
            for v in rng.sample(nodes, rng.randint(1, min(2, n))):
                vec = [rng.choice([0.05, 0.2, 0.5, 0.7, 0.9, 1.0]) for _ in range(card[v])]
                if rng.random() < 0.2 and card[v] > 1:
                    vec[rng.randrange(card[v])] = 0.0
                if sum(vec) == 0:
                    vec[0] = 0.5
                virt.append({"var": v, "vec": vec, "form": rng.choice(["cpd", "cpd", "factor"])})
        W = np.array(J, dtype=float)
        for d in virt:
            shp = [1] * W.ndim
            shp[nodes.index(d["var"])] = len(d["vec"])
            W = W * np.array(d["vec"]).reshape(shp)
        if W.sum() <= 0:
            virt, W = [], np.array(J, dtype=float)
        vvars = [d["var"] for d in virt]
        cand = [v for v in nodes if v not in query and v not in vvars]
        evs = rng.sample(cand, rng.randint(0, min(3, len(cand))))
        forced = [h for h in hubs if h in cand]
        if forced and rng.random() < 0.45:
            h = rng.choice(forced)
            if h not in evs:
                evs = [h] + evs[:2]
        ev = {}
        for e in evs:
            sl = [slice(None)] * n
            for e2, s2 in ev.items():
                sl[nodes.index(e2)] = s2
            ok = []
            for s in range(card[e]):
                sl2 = list(sl)
                sl2[nodes.index(e)] = s
                if W[tuple(sl2)].sum() > 1e-12 * W.sum():
                    ok.append(s)
            if ok:
                ev[e] = rng.choice(ok)
        out.append({"q": query, "ev": ev, "virt": virt, "joint": rng.random() < 0.6})
    return out


PRE_OPS = ["map_query", "map_query", "map_query", "calibrate", "max_calibrate", "getters", "query_virtual",
           "query_virtual", "query"]


def gen_pre(rng, kind, tri, nodes, card, J, pairs, hubs):
    """1-3 earlier public calls for the shared engine (results ignored): map_query with evidence that prunes /
    d-separates, calibrate, max_calibrate, the getters, a query with virtual evidence (BN), a plain query.
    Evidence is a state INDEX with P(e) > 0 under the oracle, so every call is inside the API's domain."""
    out = []
    nb = _adj(nodes, pairs)
    for _ in range(rng.randint(1, 3)):
        op = rng.choice(PRE_OPS)
        if op in ("calibrate", "max_calibrate", "getters"):
            out.append({"op": op})
            continue
        if op == "query_virtual":
            q = None
            if kind == "bn" and tri is None:
                for _t in range(12):
                    c = gen_queries(rng, nodes, card, J, hubs, 1, allow_virtual=True)[0]
                    if c["virt"]:
                        q = c
                        break
            if q is None:
                op, q = "query", gen_queries(rng, nodes, card, J, hubs, 1, allow_virtual=False)[0]
            out.append({"op": op, "q": q["q"], "ev": q["ev"], "virt": q["virt"]})
            continue
        q = gen_queries(rng, nodes, card, J, hubs, 1, allow_virtual=False)[0]
        if op == "map_query" and rng.random() < 0.5:
            # targeted: one variable, evidence on a neighbour (a parent / child blocks everything behind it)
            cands = [v for v in nodes if nb[v]]
            if cands:
                v = rng.choice(cands)
                u = rng.choice(sorted(nb[v]))
                marg = oracle.marginal(nodes, J, [u])
                ok = [k for k in range(card[u]) if marg[k] > 1e-12]
                if ok:
                    q = {"q": [v], "ev": {u: rng.choice(ok)}, "virt": []}
        out.append({"op": op, "q": q["q"], "ev": q["ev"], "virt": []})
    return out


def _joint(spec):
    """(nodes, normalised joint) of a non-sentinel case."""
    M = spec["model"]
    if spec["kind"] == "bn":
        nodes, J = oracle.joint_table(M)
    else:
        nodes, J = oracle.mn_joint(M)
    J = np.asarray(J, dtype=float)
    return nodes, J / J.sum()


def gen_case(seed, idx, tier):
    rng = gen.rng_for("C02", seed, idx)
    if idx % 40 == 0:
        sub = ["bn", "mn", "fg", "jt"][(idx // 40) % 4]
        if sub == "bn":
            for _ in range(50):
                m = gen.rand_bn_spec(rng, n_range=(2, 6), shape="two_parts")
                if not _connected(m["nodes"], _moral_pairs(m)):
                    break
            return {"kind": "sentinel", "sub": sub, "model": m, "build_seed": rng.randrange(10 ** 6)}
        a = gen_jt(rng, tier, "a", n=rng.randint(1, 3)) if sub == "jt" else gen_ug(rng, tier, sub, "a", n=rng.randint(2, 3))
        b = gen_jt(rng, tier, "b", n=rng.randint(1, 3)) if sub == "jt" else gen_ug(rng, tier, sub, "b", n=rng.randint(2, 3))
        m = {"nodes": a["nodes"] + b["nodes"], "edges": a["edges"] + b["edges"],
             "card": {**a["card"], **b["card"]}, "states": {**a["states"], **b["states"]},
             "factors": a["factors"] + b["factors"], "kind": "mixed"}
        if sub == "jt":
            m["cliques"] = a["cliques"] + b["cliques"]
            m["tree"] = a["tree"] + b["tree"]
        return {"kind": "sentinel", "sub": sub, "model": m, "build_seed": rng.randrange(10 ** 6)}

    r = rng.random()
    tri = None
    if r < 0.38:
        kind, M = "bn", gen_bn(rng, tier)
        pairs = _moral_pairs(M)
        if rng.random() < 0.2:
            tri = {"h": rng.choice(HEURISTICS), "mode": rng.choice(["inplace", "copy"])}
    elif r < 0.70:
        kind, M = "mn", gen_ug(rng, tier, "mn")
        pairs = [tuple(e) for e in M["edges"]]
        if rng.random() < 0.65:
            tri = {"h": rng.choice(HEURISTICS), "mode": rng.choice(["inplace", "copy"])}
    elif r < 0.85:
        kind, M = "fg", gen_ug(rng, tier, "fg")
        pairs = _scope_pairs(M["factors"])
    else:
        kind, M = "jt", gen_jt(rng, tier)
        pairs = _scope_pairs(M["factors"])
    spec = {"kind": kind, "model": M, "tri": tri, "build_seed": rng.randrange(10 ** 6)}
    nodes, J = _joint(spec)
    nq = rng.randint(3, 4) if tier == "quick" else rng.randint(3, 5)
    spec["queries"] = gen_queries(rng, nodes, M["card"], J, _hubs(nodes, pairs), nq,
                                  allow_virtual=(kind == "bn" and tri is None))
    # own stream, so that everything above is the same case it was before the shared-engine workload existed
    spec["pre"] = gen_pre(gen.rng_for("C02pre", seed, idx), kind, tri, nodes, M["card"], J, pairs,
                          _hubs(nodes, pairs))
    return spec


# ======================================================================================== monitors
_MON = {"installed": False, "jt_evals": 0, "jt_unnamed": 0, "conv_evals": 0, "conv_loose": 0,
        "jt_log": [], "conv_log": []}


def _axes_to(values, variables, order):
    return np.transpose(np.asarray(values, dtype=float), [list(variables).index(v) for v in order])


def _disagreement(bp, operation):
    """max over tree edges of the relative disagreement between the two clique beliefs reduced to the
    sepset and the stored sepset belief (own arithmetic on .variables/.values; read-only)."""
    from rv.build import to_np
    worst, explained = 0.0, True
    for (a, b) in bp.junction_tree.edges():
        S = sorted(set(a) & set(b), key=repr)
        arrs = []
        for c in (a, b):
            f = bp.clique_beliefs[c]
            vs = list(f.variables)
            ax = tuple(i for i, v in enumerate(vs) if v not in S)
            A = to_np(f.values).astype(float)
            A = (A.sum(axis=ax) if operation == "marginalize" else A.max(axis=ax)) if ax else A
            arrs.append(_axes_to(A, [v for v in vs if v in S], S))
        mu = bp.sepset_beliefs[frozenset((a, b))]
        arrs.append(_axes_to(to_np(mu.values), list(mu.variables), S))
        scale = max(float(np.max(np.abs(x))) for x in arrs)
        if scale > 0:
            d = max(float(np.max(np.abs(arrs[0] - arrs[1]))), float(np.max(np.abs(arrs[0] - arrs[2]))))
            worst = max(worst, d / scale)
        # is the accepted disagreement what DiscreteFactor.__eq__'s documented tolerance lets through?
        explained = explained and bool(np.allclose(arrs[1], arrs[0], atol=1e-8, rtol=1e-5)) and \
            bool(np.allclose(arrs[2], arrs[0], atol=1e-8, rtol=1e-5))
    return worst, explained


def _ensure_monitors():
    if _MON["installed"]:
        return
    from pgmpy.inference.ExactInference import BeliefPropagation
    from pgmpy.models import MarkovNetwork

    orig_jt = MarkovNetwork.to_junction_tree

    @functools.wraps(orig_jt)
    def to_junction_tree(self, *a, **k):
        jt = orig_jt(self, *a, **k)
        try:
            _MON["jt_evals"] += 1
            named = {}
            for f in self.factors:
                for v in f.variables:
                    named.setdefault(v, list(f.state_names[v]))
            bad = set()
            for f in jt.factors:
                for v in f.variables:
                    if v in named and list(f.state_names[v]) != named[v]:
                        bad.add(v)
            if bad:
                _MON["jt_unnamed"] += 1
            _MON["jt_log"].append(bad)
        except Exception:                                    # a monitor must never disturb the run
            _MON["jt_log"].append(set())
        return jt

    orig_conv = BeliefPropagation._is_converged

    @functools.wraps(orig_conv)
    def _is_converged(self, operation):
        ret = orig_conv(self, operation)
        try:
            _MON["conv_evals"] += 1
            if ret:
                d, explained = _disagreement(self, operation)
                loose = d > 1e-9
                if loose:
                    _MON["conv_loose"] += 1
                _MON["conv_log"].append((loose, explained))
        except Exception:
            pass
        return ret

    MarkovNetwork.to_junction_tree = to_junction_tree
    BeliefPropagation._is_converged = _is_converged
    _MON["installed"] = True


def setup(ctx):
    _ensure_monitors()


def teardown(ctx):
    return {"jt_monitor_evals": _MON["jt_evals"], "jt_with_unnamed_potential": _MON["jt_unnamed"],
            "converged_monitor_evals": _MON["conv_evals"], "converged_true_while_disagreeing": _MON["conv_loose"]}


# =========================================================================== building real models
def build_model(spec, states, ctx):
    """(model, error).  `states` overrides the spec's state names (neutralised re-run)."""
    import random

    from rv import build
    kind = spec["kind"] if spec["kind"] != "sentinel" else spec["sub"]
    M = dict(spec["model"], states=states)
    rng = random.Random(spec["build_seed"])
    if kind == "bn":
        model = build.bayesian_network(M, rng=rng)
    elif kind == "mn":
        model = build.markov_network(M, rng=rng)
    elif kind == "fg":
        model = build.factor_graph(M, rng=rng)
    else:
        from pgmpy.models import JunctionTree
        model = JunctionTree()
        cl = [tuple(c) for c in M["cliques"]]
        ed = [(tuple(a), tuple(b)) for a, b in M["tree"]]
        rng.shuffle(ed)
        model.add_nodes_from(cl)
        for a, b in ed:
            model.add_edge(a, b)
        fs = [build.discrete_factor(M, f) for f in M["factors"]]
        rng.shuffle(fs)
        model.add_factors(*fs)
    tri = spec.get("tri")
    if tri:
        if kind == "bn":
            model = ctx.call(model.to_markov_model)
            if ctx.failed(model):
                return None, model
        before = [tuple(e) for e in model.edges()]
        nodes0 = list(model.nodes())
        if tri["mode"] == "inplace":
            r = ctx.call(model.triangulate, heuristic=tri["h"], inplace=True)
            if ctx.failed(r):
                return None, r
        else:
            t = ctx.call(model.triangulate, heuristic=tri["h"])
            if ctx.failed(t):
                return None, t
            if t is not model:
                r = ctx.call(t.add_factors, *model.factors)
                if ctx.failed(r):
                    return None, r
                model = t
        after = [tuple(e) for e in model.edges()]
        if not _is_chordal(nodes0, before):
            ctx.feature(f"tri:{tri['h']}:fill-needed")
        if not _is_chordal(list(model.nodes()), after):
            ctx.note("triangulate_result_not_chordal")     # outside the statement: reported, not judged
    return model, None


def make_virtual(states, virt):
    from pgmpy.factors.discrete import DiscreteFactor, TabularCPD
    out = []
    for d in virt:
        v = d["var"]
        sn = {v: list(states[v])}
        if d["form"] == "cpd":
            out.append(TabularCPD(v, len(d["vec"]), [[x] for x in d["vec"]], state_names=sn))
        else:
            out.append(DiscreteFactor([v], [len(d["vec"])], list(d["vec"]), state_names=sn))
    return out


# ========================================================================================= judging
class _Res:
    def __init__(self):
        self.problems = {}      # label -> [(key, what, relvars)]
        self.flawed = {}        # label -> set of variables whose clique potential lost its names during the label
        self.loose = {}         # label -> bool: "converged" answered while beliefs disagreed
        self.oks = {}           # label -> number of comparisons that held
        self.ncliques = 0
        self.multi_vars = set()
        self.pre_raised = None
        self.shared_ops = None

    def bad(self, label, key, what, rel=()):
        self.problems.setdefault(label, []).append((key, what, set(rel)))

    def ok(self, label, n=1):
        self.oks[label] = self.oks.get(label, 0) + n


class _Span:
    """Collects what the two return-value monitors saw while a label's pgmpy calls ran."""

    def __init__(self, res, label):
        self.res, self.label = res, label

    def __enter__(self):
        self.j0, self.c0 = len(_MON["jt_log"]), len(_MON["conv_log"])
        return self

    def __exit__(self, *a):
        fl = set()
        for s in _MON["jt_log"][self.j0:]:
            fl |= s
        self.res.flawed[self.label] = self.res.flawed.get(self.label, set()) | fl
        seen = [e for (l, e) in _MON["conv_log"][self.c0:] if l]
        if seen:        # "explained": every loosely accepted state is within allclose(atol=1e-8, rtol=1e-5)
            self.res.loose[self.label] = "explained" if all(seen) and self.res.loose.get(self.label) != "other" \
                else "other"
        return False


def _belief_array(f, states):
    """values of a pgmpy factor as (variables, array indexed by the MODEL's state order), aligned by state NAME."""
    from rv.build import to_np
    vs = list(f.variables)
    A = np.asarray(to_np(f.values), dtype=float)
    if A.shape != tuple(len(states[v]) for v in vs):
        raise ValueError(f"shape {A.shape} for {vs}")
    for ax, v in enumerate(vs):
        names = list(f.state_names[v])
        if len(names) != len(states[v]) or any(s not in names for s in states[v]):
            raise KeyError(f"belief over {vs} labels {v!r} with {names!r}, the model with {states[v]!r}")
        A = np.take(A, [names.index(s) for s in states[v]], axis=ax)
    return vs, A


def _prop_to(got, ref):
    """None if got == c * ref for one c > 0 (1e-9 of the largest entry), else a description."""
    if not np.all(np.isfinite(got)):
        return "non-finite belief"
    i = np.unravel_index(np.argmax(ref), ref.shape) if ref.ndim else ()
    if ref[i] <= 0:
        return "reference marginal is zero"
    c = got[i] / ref[i]
    if not (c > 0):
        return f"belief {got[i]!r} where the marginal is largest ({ref[i]!r})"
    err = np.abs(got - c * ref)
    tol = 1e-9 * c * ref[i]
    if np.any(err > tol):
        j = np.unravel_index(np.argmax(err), err.shape) if err.ndim else ()
        return f"cell {tuple(int(x) for x in j)}: belief/c = {got[j] / c!r}, marginal = {ref[j]!r} (c = {c!r})"
    return None


def check_calibration(res, label, bp, nodes, J, states, op):
    """clique beliefs ~ (max-)marginals; neighbours agree on the sepset and with the stored sepset belief."""
    try:
        cliques = [tuple(c) for c in bp.get_cliques()]
        edges = [(tuple(a), tuple(b)) for a, b in bp.junction_tree.edges()]
        cb = bp.get_clique_beliefs()
        sb = bp.get_sepset_beliefs()
        if set(cb) != set(cliques) or set(sb) != {frozenset(e) for e in edges}:
            return res.bad(label, "c02:malformed-beliefs", f"belief keys {list(cb)} / {list(sb)} do not match the tree "
                           f"{cliques} / {edges}")
    except Exception as e:
        return res.bad(label, "c02:malformed-beliefs", f"cannot read beliefs: {type(e).__name__}: {e}")
    res.ncliques = max(res.ncliques, len(cliques))
    arrs = {}
    for c in cliques:
        try:
            f = cb[c]
            if set(f.variables) != set(c) or len(f.variables) != len(c):
                res.bad(label, "c02:malformed-beliefs", f"belief of clique {c} has scope {f.variables}", c)
                continue
            vs, A = _belief_array(f, states)
        except KeyError as e:
            res.bad(label, "c02:belief-state-names", str(e)[:300], c)
            continue
        except Exception as e:
            res.bad(label, "c02:malformed-beliefs", f"belief of {c}: {type(e).__name__}: {e}", c)
            continue
        ref = oracle.marginal(nodes, J, vs, op="sum" if op == "marginalize" else "max")
        d = _prop_to(A, np.asarray(ref, dtype=float))
        if d:
            res.bad(label, "c02:wrong-clique-belief", f"{op}: clique {c}: {d}", c)
        else:
            res.ok(label)
        arrs[c] = (vs, A)
    for (a, b) in edges:
        S = sorted(set(a) & set(b), key=repr)
        try:
            mv, MU = _belief_array(sb[frozenset((a, b))], states)
            if set(mv) != set(S):
                res.bad(label, "c02:malformed-beliefs", f"sepset belief of {a}-{b} has scope {mv}", S)
                continue
        except KeyError as e:
            res.bad(label, "c02:belief-state-names", str(e)[:300], S)
            continue
        except Exception as e:
            res.bad(label, "c02:malformed-beliefs", f"sepset belief of {a}-{b}: {type(e).__name__}: {e}", S)
            continue
        ref = np.asarray(oracle.marginal(nodes, J, mv, op="sum" if op == "marginalize" else "max"), dtype=float)
        d = _prop_to(MU, ref)
        if d:
            res.bad(label, "c02:wrong-sepset-belief", f"{op}: sepset {a}-{b}: {d}", S)
        else:
            res.ok(label)
        if a in arrs and b in arrs:
            red = []
            for c in (a, b):
                vs, A = arrs[c]
                ax = tuple(i for i, v in enumerate(vs) if v not in S)
                R = (A.sum(axis=ax) if op == "marginalize" else A.max(axis=ax)) if ax else A
                red.append(_axes_to(R, [v for v in vs if v in S], S))
            red.append(_axes_to(MU, mv, S))
            scale = max(float(np.max(np.abs(x))) for x in red)
            dd = max(float(np.max(np.abs(red[0] - red[1]))), float(np.max(np.abs(red[0] - red[2]))))
            if scale > 0 and dd > 1e-9 * scale:
                res.bad(label, "c02:not-calibrated", f"{op}: cliques {a} and {b} / stored sepset belief disagree on "
                        f"{S} by {dd / scale:.3g} (relative)", set(a) | set(b))
            else:
                res.ok(label)


def check_factor(res, label, got, query, states, expect, rel, what):
    """True iff the returned factor equals the oracle array (axes = query) per named assignment."""
    from rv.build import to_np
    try:
        if set(got.variables) != set(query) or len(got.variables) != len(query):
            res.bad(label, "c02:wrong-scope", f"{what}: result scope {got.variables} != query {query}", rel)
            return False
        for v in query:
            if list(got.state_names[v]) != list(states[v]):
                res.bad(label, "c02:state-names", f"{what}: result labels {v!r} with {got.state_names[v]!r}, the model "
                        f"with {states[v]!r}", rel)
                return False
        a = oracle.factor_named(got, to_np)
    except Exception as e:
        res.bad(label, "c02:malformed-result", f"{what}: cannot read result: {type(e).__name__}: {e}", rel)
        return False
    b = oracle.array_named(query, states, expect)
    diff = oracle.named_close(a, b, atol=1e-9, rtol=1e-9)
    if diff:
        res.bad(label, "c02:wrong-posterior", f"{what}: {diff}", rel)
        return False
    res.ok(label)
    return True


def run_query(res, label, ctx, engine, q, nodes, J, states, joint, eflaw=()):
    ev_named = {v: states[v][s] for v, s in q["ev"].items()}
    likes = {}
    for d in q["virt"]:
        likes[d["var"]] = np.array(d["vec"]) * likes.get(d["var"], 1.0)
    _, post = oracle.posterior(nodes, J, q["q"], q["ev"], likes)
    rel = set(q["q"]) | set(q["ev"]) | set(likes)
    with _Span(res, label):
        r = ctx.call(engine.query, list(q["q"]), evidence=dict(ev_named) or None,
                     virtual_evidence=make_virtual(states, q["virt"]) if q["virt"] else None,
                     joint=joint, show_progress=False)
    res.flawed[label] = res.flawed.get(label, set()) | set(eflaw)
    what = f"query({q['q']}, evidence={ev_named}, virtual={[d['var'] for d in q['virt']]}, joint={joint})"
    if ctx.failed(r):
        res.bad(label, f"c02:exception:{r.type}@{r.where}", f"{what} raised {r!r}", rel)
        return False
    if joint:
        return check_factor(res, label, r, q["q"], states, post, rel, what)
    if not isinstance(r, dict) or set(r) != set(q["q"]):
        res.bad(label, "c02:wrong-scope", f"{what}: keys {list(r) if isinstance(r, dict) else type(r)}", rel)
        return False
    good = True
    for v in q["q"]:
        good &= check_factor(res, label, r[v], [v], states, oracle.marginal(q["q"], post, [v]), rel, what + f"[{v}]")
    return good


def do_pre(ctx, engine, p, states):
    """One earlier public call on the shared engine; the value is not judged (map_query is C03's)."""
    op = p["op"]
    if op == "calibrate":
        return ctx.call(engine.calibrate)
    if op == "max_calibrate":
        return ctx.call(engine.max_calibrate)
    if op == "getters":
        for g in (engine.get_cliques, engine.get_clique_beliefs, engine.get_sepset_beliefs):
            r = ctx.call(g)
            if ctx.failed(r):
                return r
        return None
    ev = {v: states[v][k] for v, k in p["ev"].items()}
    if op == "map_query":
        return ctx.call(engine.map_query, list(p["q"]), evidence=dict(ev) or None, show_progress=False)
    return ctx.call(engine.query, list(p["q"]), evidence=dict(ev) or None,
                    virtual_evidence=make_virtual(states, p["virt"]) if p["virt"] else None,
                    joint=True, show_progress=False)


def evaluate(spec, ctx, states, nodes, J):
    """Run the whole workload of one case on a model built with `states`; nothing is reported here."""
    from pgmpy.inference import BeliefPropagation
    res = _Res()
    model, err = build_model(spec, states, ctx)
    if err is not None:
        res.bad("build", f"c02:exception:{err.type}@{err.where}", f"triangulate({spec['tri']}) raised {err!r}")
        return res

    eflaw, keep = {}, []

    def engine(label):
        with _Span(res, label):
            e = ctx.call(BeliefPropagation, model)
        if ctx.failed(e):
            res.bad(label, f"c02:exception:{e.type}@{e.where}", f"BeliefPropagation(model) raised {e!r}")
            return None
        eflaw[id(e)] = set(res.flawed.get(label, set()))      # what the monitor saw in THIS engine's tree
        keep.append(e)
        return e

    qs = spec["queries"]
    # engine 0: calibrate -> beliefs -> first query on the calibrated engine -> a second query on the re-used engine
    e0 = engine("calibrate")
    if e0 is None:
        return res
    try:
        cl = [tuple(c) for c in e0.get_cliques()]
        res.ncliques = len(cl)
        res.multi_vars = {v for v in nodes if sum(v in c for c in cl) >= 2}
    except Exception:
        res.multi_vars = set()
    with _Span(res, "calibrate"):
        r = ctx.call(e0.calibrate)
    if ctx.failed(r):
        res.bad("calibrate", f"c02:exception:{r.type}@{r.where}", f"calibrate() raised {r!r}")
    else:
        check_calibration(res, "calibrate", e0, nodes, J, states, "marginalize")
        fresh_ok = run_query(res, "query0", ctx, e0, qs[0], nodes, J, states, qs[0]["joint"], eflaw[id(e0)])
        if fresh_ok and not qs[0]["virt"]:
            q = dict(qs[-1], virt=[])
            run_query(res, "requery", ctx, e0, q, nodes, J, states, not q["joint"],
                      eflaw[id(e0)] | res.flawed.get("query0", set()))
    # engine 1: max-calibration -> max-marginals -> query on that engine (must re-calibrate by sum)
    e1 = engine("max_calibrate")
    if e1 is not None:
        with _Span(res, "max_calibrate"):
            r = ctx.call(e1.max_calibrate)
        if ctx.failed(r):
            res.bad("max_calibrate", f"c02:exception:{r.type}@{r.where}", f"max_calibrate() raised {r!r}")
        else:
            check_calibration(res, "max_calibrate", e1, nodes, J, states, "maximize")
            run_query(res, "query1", ctx, e1, qs[1], nodes, J, states, qs[1]["joint"], eflaw[id(e1)])
    # remaining queries: fresh engine each; the last one in both joint modes
    for i, q in enumerate(qs[2:], start=2):
        modes = [q["joint"], not q["joint"]] if i == len(qs) - 1 else [q["joint"]]
        for joint in modes:
            label = f"query{i}" + ("" if joint == q["joint"] else "b")
            e = engine(label)
            if e is not None:
                run_query(res, label, ctx, e, q, nodes, J, states, joint, eflaw[id(e)])
    # shared engine: 1-3 earlier public calls of any kind (results ignored), then judged posterior queries.
    # Whatever was called before, every later query on the same object must succeed and equal the oracle.
    pre = spec.get("pre") or []
    es = engine("shared-pre") if pre else None
    if es is not None:
        failed = None
        with _Span(res, "shared-pre"):
            for p in pre:
                r = do_pre(ctx, es, p, states)
                if ctx.failed(r):
                    failed = (p["op"], r)
                    break
        if failed is not None:
            # only successful calls form a history; the failing call itself is judged where it belongs
            res.pre_raised = f"{failed[0]}: {failed[1]!r}"
        else:
            res.shared_ops = [p["op"] for p in pre]
            fl = set(eflaw[id(es)]) | res.flawed.get("shared-pre", set())
            for i, q in enumerate(qs[:3]):
                label = f"shared{i}"
                good = run_query(res, label, ctx, es, dict(q, virt=[]), nodes, J, states,
                                 q["joint"] if i != 1 else not q["joint"], fl)
                if label in res.problems:
                    res.problems[label] = [(k, f"after {res.shared_ops} on the same engine: {w}", rv)
                                           for (k, w, rv) in res.problems[label]]
                fl |= res.flawed.get(label, set())
                if not good:
                    break                       # the engine's state after a failed query is not specified
    return res


def _neutral_spec(spec):
    """The same case with the triggering features of the two known mechanisms removed: potentials scaled back
    to O(1) and the near-uniform factor / CPD replaced by a strongly informative one (state names are made
    identity by the caller)."""
    M = spec["model"]
    N = dict(M)
    if M.get("scale_all"):
        N["factors"] = [dict(f, values=[x / M["scale_all"] for x in f["values"]]) for f in M["factors"]]
    if "weak" in M and spec["kind"] == "bn":
        v = M["weak"]
        r, q = M["card"][v], len(M["cpds"][v]["table"][0])
        cols = []
        for j in range(q):
            col = [1.0 + 2.0 * ((i + j) % r) for i in range(r)]
            t = sum(col)
            col = [c / t for c in col]
            col[0] = 1.0 - sum(col[1:])
            cols.append(col)
        N["cpds"] = dict(M["cpds"])
        N["cpds"][v] = dict(M["cpds"][v], table=[[cols[j][i] for j in range(q)] for i in range(r)])
    elif "weak" in M:
        fs = list(N["factors"])
        f = fs[M["weak"]]
        fs[M["weak"]] = dict(f, values=[0.3 + 1.1 * ((7 * i) % 5) for i in range(len(f["values"]))])
        N["factors"] = fs
    return dict(spec, model=N)


def run_sentinel(spec, ctx):
    from pgmpy.inference import BeliefPropagation
    ctx.feature(f"sentinel:{spec['sub']}")
    model, err = build_model(spec, spec["model"]["states"], ctx)
    r = ctx.call(BeliefPropagation, model)
    ctx.expect(ctx.failed(r) and r.type == "ValueError", "c02:disconnected-not-refused",
               f"BeliefPropagation on a disconnected {spec['sub']} was not refused with ValueError: {r!r}")


def run_case(spec, ctx):
    _ensure_monitors()
    del _MON["jt_log"][:], _MON["conv_log"][:]
    if spec["kind"] == "sentinel":
        return run_sentinel(spec, ctx)
    M = spec["model"]
    nodes, J = _joint(spec)
    states = M["states"]
    ctx.feature(f"kind:{spec['kind']}")
    ctx.feature(f"names:{M['kind']}")
    for f in M.get("feats", []):
        ctx.feature(f)
    if spec.get("tri"):
        ctx.feature(f"tri:{spec['tri']['h']}")
        ctx.feature(f"tri-mode:{spec['tri']['mode']}")
    if any(q["virt"] for q in spec["queries"]):
        ctx.feature("virtual")

    res = evaluate(spec, ctx, states, nodes, J)
    ctx.nontrivial = res.ncliques >= 2
    multi = getattr(res, "multi_vars", set())
    if any(set(q["ev"]) & multi for q in spec["queries"]):
        ctx.feature("evidence-in-several-cliques")
    if any(q["ev"] for q in spec["queries"]):
        ctx.feature("evidence")
    if res.shared_ops:
        ctx.feature("shared-engine-judged")
        for op in res.shared_ops:
            ctx.feature(f"pre:{op}")
    if res.pre_raised:
        ctx.note("shared_engine_precall_raised")
    for label, n in res.oks.items():
        if label not in res.problems:
            ctx.ok(n)
    if not res.problems:
        return

    # ---- attribution.  An alarm is attributed to a known mechanism only if (i) the return-value monitor
    # saw that mechanism at work during that very label and (ii) the same label is clean when the case is
    # re-run with the triggering features neutralised (identity state names; potentials scaled back to O(1)).
    identity = {v: list(range(M["card"][v])) for v in nodes}
    neutral = None
    named = any(list(states[v]) != identity[v] for v in nodes)
    conditioned = bool(M.get("scale_all")) or "weak" in M      # potentials the convergence tolerance is not made for
    if (named and any(res.flawed.get(l) for l in res.problems)) or \
            (conditioned and any(res.loose.get(l) for l in res.problems)):
        nspec = _neutral_spec(spec)
        nJ = _joint(nspec)[1] if "weak" in M else J
        save = (list(_MON["jt_log"]), list(_MON["conv_log"]))
        sub = type(ctx)(ctx.prop, ctx.tier, backend=ctx.backend, hashseed=ctx.hashseed)
        try:
            neutral = evaluate(nspec, sub, identity, nodes, nJ)
        except Exception:
            neutral = None
        _MON["jt_log"][:], _MON["conv_log"][:] = save
        ctx.note("neutralised_reruns")
    for label, probs in res.problems.items():
        rel = set()
        for (_, _, rv) in probs:
            rel |= rv
        name_p = [p for p in probs if p[0] in NAME_KEYS or p[0].startswith("c02:exception:KeyError@")]
        val_p = [p for p in probs if p[0] in VALUE_KEYS]
        generic = [p for p in probs if p not in name_p and p not in val_p]
        loose = res.loose.get(label)
        flawed = res.flawed.get(label, set()) & rel
        neutral_clean = neutral is not None and label in neutral.oks and label not in neutral.problems
        names_ok = bool(flawed) and named and neutral_clean
        tol_ok = loose == "explained" and conditioned and neutral_clean
        if val_p and tol_ok:
            ctx.violation(KEY_TOL, f"{label}: _is_converged answered True while the beliefs still disagreed on a sepset "
                          f"(> 1e-9 relative, within allclose(atol=1e-8, rtol=1e-5)) on {M.get('feats')} potentials; "
                          f"consequence: [{val_p[0][0]}] {val_p[0][1]}", label=label,
                          feats=M.get("feats"))
        elif val_p and names_ok:
            name_p = val_p + name_p
        else:
            generic = val_p + generic
        if name_p and names_ok:
            ctx.violation(KEY_NAMES, f"{label}: clique potential built by to_junction_tree carries default integer "
                          f"state names for {sorted(flawed, key=repr)}; consequence: [{name_p[0][0]}] {name_p[0][1]}",
                          label=label, names=M["kind"])
        else:
            generic = name_p + generic
        for (k, w, _) in generic[:4]:
            ctx.violation(k, f"{label}: {w}", label=label, kind=spec["kind"], tri=spec.get("tri"),
                          flawed=sorted(res.flawed.get(label, set()), key=repr), loose=loose,
                          neutral=None if neutral is None else sorted(neutral.problems.get(label, []), key=repr)[:2])
