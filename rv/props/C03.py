"""C03 - MAP queries return a maximiser of the exact posterior.

Observe: VariableElimination.map_query (every elimination-order option), BeliefPropagation.map_query,
BayesianNetwork.predict (row-wise MAP), on Bayesian networks; VariableElimination.map_query on
Markov networks.
Oracle : brute-force joint of the spec -> slice hard evidence -> multiply virtual-evidence
likelihoods -> sum out the non-query variables -> the returned assignment must (i) assign exactly
the requested variables, (ii) use valid state names, (iii) have posterior value >= max*(1-1e-9)
(ties are free).  The oracle never calls pgmpy.
"""
import itertools
import os

import numpy as np

from rv import gen, oracle

PLAN = {
    "quick": {"cases": 12000, "hashseeds": 3, "shards": 5, "timeout": 600, "min_nontrivial": 4000},
    # C03_THOROUGH_CASES: smaller thorough run for smoke-testing the tier on a loaded machine
    "thorough": {"cases": int(os.environ.get("C03_THOROUGH_CASES", "40000")), "hashseeds": 10, "shards": 4,
                 "timeout": 3000, "min_nontrivial": int(os.environ.get("C03_THOROUGH_MIN_NT", "15000"))},
}
RULE = ("70% random discrete BNs (1-7 nodes quick / 1-8 thorough; templates ER, chain, collider, fork, >=3-parent "
        "family, two parts, isolated node, 60% of them forced to a connected moral graph so that BP accepts them; "
        "cards 1-4; state names id/1-based/permuted ints/strings/tuples/mixed; tables with exact zeros, deterministic "
        "columns and near-tie columns (entries (1/r)(1 + m k), distinct small integers k in random positions so that "
        "the runner-up sits before or after the maximiser, relative margin m log-uniform over 1e-7..1e-2; 30% of the "
        "CPDs, and every CPD in the 15% 'flat' models, so that ~10% of the cases have a posterior margin below 1e-5); "
        "near-tie virtual-evidence vectors of the same kind; every case is redrawn until each posterior entry is "
        "either an exact tie (relative gap < 1e-12) or loses by >= 1e-7 = 100 x the oracle tolerance) x non-empty query (1-4 vars or all non-evidence "
        "vars) x 0-3 hard evidence with P(e)>0 (checked by the oracle) x 0-2 virtual-evidence vectors; each BN case "
        "runs VE.map_query under MinFill / MinNeighbors / MinWeight / WeightedMinFill / None / an explicit random "
        "order, BP.map_query when the moral graph is connected, in ~35% of cases BayesianNetwork.predict "
        "(1-6 rows with P(row)>0 incl. duplicates; VE or BP; int / category / object columns) and in ~30% of "
        "multi-variable queries DiscreteFactor.maximize of the posterior.  30% Markov networks (2-6 variables, "
        "cards 1-4, pairwise + unary + triangle factors, near-tie tables with the same log-uniform margins (15% 'flat' "
        "networks), potentials scaled overall by 10**U(-8,-3) (22%), by 1e3 (8%) or per scope by 10**U(-8,3) (8%), "
        "not necessarily connected; 40% of them "
        "carry equal factors: exact copies, copies with the other variable order, the same factor object listed "
        "twice, factors that coincide only on the evidence slice; ~15% of the others get one virtual-evidence "
        "vector) x VE.map_query under the same order options.  non-trivial: >=2 variables, >=1 edge (BN) / >=2 factors (MN), and evidence or a non-query "
        "variable present; distinct by digest of the whole spec")
ASSUMPTIONS = ["brute-force joint (<= 4096 cells) is the reference", "float64; maximiser tolerance 1e-9 relative",
               "every call uses a fresh engine (engine histories are C16)",
               "virtual evidence on a Markov network means: the posterior is additionally weighted by the likelihood vector",
               "BP is exercised on BNs with connected moral graph only (disconnected models are a documented refusal, C02)",
               "returned values are matched to state names by ==, so numpy integers count as the int state name"]
REACH = [
    "pgmpy.inference.ExactInference:VariableElimination.map_query",
    "pgmpy.inference.ExactInference:VariableElimination._variable_elimination",
    "pgmpy.inference.ExactInference:VariableElimination._get_working_factors",
    "pgmpy.inference.ExactInference:VariableElimination._get_elimination_order",
    "pgmpy.inference.ExactInference:BeliefPropagation.map_query",
    "pgmpy.inference.ExactInference:BeliefPropagation._query",
    "pgmpy.factors.discrete.DiscreteFactor:DiscreteFactor.assignment",
    "pgmpy.factors.discrete.DiscreteFactor:DiscreteFactor.marginalize",
    "pgmpy.factors.discrete.DiscreteFactor:DiscreteFactor.maximize",
    "pgmpy.models.BayesianNetwork:BayesianNetwork.predict",
    "pgmpy.inference.base:Inference._prune_bayesian_model",
    "pgmpy.inference.base:Inference._virtual_evidence",
    "pgmpy.models.MarkovNetwork:MarkovNetwork.to_junction_tree",
]
REACH_REQUIRED = REACH[:11]
MANIFEST = {
    "text": "On every generated BN / MN, query, hard + virtual evidence of non-zero probability and every "
            "elimination-order option (and BP, and predict rows) the returned MAP assignment assigns exactly the "
            "requested variables, uses the model's state names and attains the maximum of the brute-force posterior "
            "(1e-9 relative, ties free), in every hash-seed cell.",
    "note": "trusted: brute-force joint over <= 4096 cells, numpy arithmetic of the oracle. Not covered: models > 8 "
            "variables, torch backend, stochastic predict, ApproxInference.",
    "technique": "reference-model monitor at the API boundary (map_query / predict returns) over seeded hostile inputs, "
                 "hash-seed fan-out, sys.monitoring reach counters",
}

ORDERS = ["MinFill", "MinNeighbors", "MinWeight", "WeightedMinFill", None, "perm"]
MN_VIRTUAL = True        # exercise virtual evidence on Markov networks too (see ASSUMPTIONS)
RTOL = 1e-9


# ------------------------------------------------------------------------------ generators
GAP_LO, GAP_HI = 1e-12, 1e-7     # see decisive()
MARGIN_LO = -7.0                 # near-tie margins are 10**U(MARGIN_LO, -2): log-uniform over 1e-7 .. 1e-2


def decisive(post):
    """True iff every entry of the posterior is either an exact tie with the maximum (relative gap < 1e-12,
    i.e. rounding noise) or loses by a relative margin >= 1e-7 = 100 x the oracle's tie tolerance.  Cases are
    drawn until this holds, so the oracle's verdict never hinges on the grey band next to its tolerance."""
    flat = np.asarray(post, dtype=float).reshape(-1)
    best = float(flat.max())
    if not best > 0:
        return False
    gap = (best - flat) / best
    return not bool(np.any((gap > GAP_LO) & (gap < GAP_HI)))


def margin(rng, lo=MARGIN_LO):
    return 10.0 ** rng.uniform(lo, -2.0)


def near_tie_column(rng, r, lo=MARGIN_LO):
    """Column (1/r)(1 + m*k_i): distinct small integers k_i in random positions (so the runner-up sits before
    or after the maximiser), relative margin m log-uniform over 1e-7 .. 1e-2."""
    if r == 1:
        return [1.0]
    m = margin(rng, lo)
    steps = rng.sample(range(-4, 5), r)
    col = [(1.0 / r) * (1.0 + m * k) for k in steps]
    s = sum(col)
    col = [c / s for c in col]
    i = max(range(r), key=lambda t: col[t])
    col[i] = 1.0 - sum(c for t, c in enumerate(col) if t != i)
    return col


def _connect(rng, nodes, edges, max_parents):
    """Add edges (respecting a topological order of the existing DAG and the parent cap where possible)
    until the skeleton is connected."""
    edges = [tuple(e) for e in edges]
    order = gen.topo_order(list(nodes), edges)
    pos = {v: i for i, v in enumerate(order)}
    while True:
        comp = _components(nodes, edges)
        if len(comp) <= 1:
            return edges
        a = rng.choice(comp[0])
        b = rng.choice(comp[1])
        u, v = (a, b) if pos[a] < pos[b] else (b, a)
        edges.append((u, v))


def _components(nodes, pairs):
    nb = {v: set() for v in nodes}
    for u, v in pairs:
        nb[u].add(v)
        nb[v].add(u)
    seen, out = set(), []
    for s in nodes:
        if s in seen:
            continue
        comp, stack = [], [s]
        seen.add(s)
        while stack:
            x = stack.pop()
            comp.append(x)
            for y in nodes:                    # list order, not set order
                if y in nb[x] and y not in seen:
                    seen.add(y)
                    stack.append(y)
        out.append(comp)
    return out


def moral_pairs(bn):
    pairs = [tuple(e) for e in bn["edges"]]
    for v in bn["nodes"]:
        pa = bn["cpds"][v]["parents"]
        pairs += list(itertools.combinations(pa, 2))
    return pairs


def bn_spec(rng, tier, lo=MARGIN_LO):
    n_hi = 8 if tier == "thorough" else 7
    n = rng.randint(1, n_hi)
    nodes = [f"v{i}" for i in range(n)]
    edges = gen.rand_dag_edges(rng, nodes, max_parents=3)
    if n >= 2 and rng.random() < 0.6:
        edges = _connect(rng, nodes, edges, 3)
    kind = rng.choice(gen.STATE_KINDS)
    cards = (1, 2, 2, 2, 3, 3, 4)
    while True:
        card = {v: rng.choice(cards) for v in nodes}
        tot = 1
        for v in nodes:
            tot *= card[v]
        if tot <= 4096:
            break
    states = {v: gen.state_names_for(rng, v, card[v], kind) for v in nodes}
    par = gen.parents_of(nodes, edges)
    cpds = {}
    flat = rng.random() < 0.15           # every CPD near-uniform: all posteriors of the model are near-ties
    for v in nodes:
        pa = par[v][:]
        rng.shuffle(pa)
        q = 1
        for p in pa:
            q *= card[p]
        if flat or rng.random() < 0.3:
            cols = [near_tie_column(rng, card[v], lo) for _ in range(q)]
            table = [[cols[j][i] for j in range(q)] for i in range(card[v])]
        else:
            table = gen.rand_cpt(rng, card[v], q, True)
        cpds[v] = {"parents": pa, "table": table}
    return {"nodes": nodes, "edges": [list(e) for e in edges], "card": card, "states": states,
            "cpds": cpds, "latents": [], "kind": kind, "flat": flat}


def mn_spec(rng, tier, lo=MARGIN_LO):
    n = rng.randint(2, 6)
    nodes = [f"m{i}" for i in range(n)]
    kind = rng.choice(["id", "str", "mixed", "int1", "perm", "tuple"])
    while True:
        card = {v: rng.choice((2, 2, 3, 1, 2, 3, 4)) for v in nodes}
        tot = 1
        for v in nodes:
            tot *= card[v]
        if tot <= 2048:
            break
    states = {v: gen.state_names_for(rng, v, card[v], kind) for v in nodes}
    order = nodes[:]
    rng.shuffle(order)
    edges = []
    connected = rng.random() < 0.8
    if n >= 4 and rng.random() < 0.3:
        L = rng.randint(4, n)
        cyc = order[:L]
        edges = [(cyc[i], cyc[(i + 1) % L]) for i in range(L)]
        for v in order[L:]:
            edges.append((v, rng.choice(cyc)))
    else:
        for i in range(1, n):
            if connected or rng.random() < 0.6:
                edges.append((order[rng.randrange(i)], order[i]))
        for i in range(n):
            for j in range(i + 1, n):
                if rng.random() < 0.25 and (order[i], order[j]) not in edges and (order[j], order[i]) not in edges:
                    edges.append((order[i], order[j]))
    eset = {frozenset(e) for e in edges}
    flat_mn = rng.random() < 0.15        # every factor near-constant

    def rand_vals(vs, near=False, zeros=True):
        size = 1
        for v in vs:
            size *= card[v]
        if near or flat_mn:
            m = margin(rng, lo)
            steps = [rng.randint(-4, 4) for _ in range(size)]
            base = rng.choice([0.5, 1.0, 2.0])
            return [base * (1 + m * k) for k in steps]
        flat = [rng.choice(gen.GRID) * (1 + rng.randint(0, 3)) if (not zeros or rng.random() > 0.1) else 0.0
                for _ in range(size)]
        if all(x == 0 for x in flat):
            flat[0] = 1.0
        return flat

    def transposed(f):
        """Same function with the variable order reversed."""
        vs = f["vars"]
        A = np.array(f["values"]).reshape([card[v] for v in vs])
        return {"vars": vs[::-1], "values": [float(x) for x in np.transpose(A).reshape(-1)]}

    factors = []
    dups = rng.random() < 0.4            # only 40% of the networks get equal factors at all
    for (u, v) in edges:
        vs = [u, v] if rng.random() < 0.5 else [v, u]
        f = {"vars": vs, "values": rand_vals(vs, near=rng.random() < 0.25)}
        factors.append(f)
        x = rng.random()
        if not dups:
            if x < 0.1:
                factors.append({"vars": list(vs), "values": rand_vals(vs)})          # same scope, different table
        elif x < 0.06:
            factors.append({"vars": list(vs), "values": list(f["values"])})          # exact duplicate
        elif x < 0.10:
            factors.append(transposed(f))                                               # duplicate, other axis order
        elif x < 0.13:
            # the very same factor object listed twice (build_mn re-uses the object)
            factors.append({"vars": list(vs), "values": list(f["values"]), "same_object_as": len(factors) - 1})
        elif x < 0.21:
            factors.append({"vars": list(vs), "values": rand_vals(vs)})              # same scope, different table
        elif x < 0.29 and card[vs[1]] > 1:
            # equal to f on one slice of its second variable only: collapses only under that evidence
            A = np.array(f["values"]).reshape(card[vs[0]], card[vs[1]])
            B = np.array(rand_vals(vs, zeros=False)).reshape(A.shape)
            k = rng.randrange(card[vs[1]])
            B[:, k] = A[:, k]
            factors.append({"vars": list(vs), "values": [float(t) for t in B.reshape(-1)], "slice_twin": [vs[1], k]})
    for v in nodes:
        covered = any(v in f["vars"] for f in factors)
        if not covered or rng.random() < 0.3:
            f = {"vars": [v], "values": rand_vals([v], near=rng.random() < 0.2)}
            factors.append(f)
            if dups and rng.random() < 0.08:
                factors.append({"vars": [v], "values": list(f["values"])})
    tri = [t for t in itertools.combinations(nodes, 3)
           if all(frozenset(p) in eset for p in itertools.combinations(t, 2))]
    if tri and rng.random() < 0.5:
        t = list(rng.choice(tri))
        rng.shuffle(t)
        f = {"vars": t, "values": rand_vals(t)}
        factors.append(f)
        if dups and rng.random() < 0.15:
            factors.append({"vars": list(t), "values": list(f["values"])})
    # overall scale of the potentials (the posterior does not depend on it; the elimination engine does not
    # normalise a Markov network's result, so its argmax sees the raw magnitudes)
    x = rng.random()
    scale = "1"
    if x < 0.22:
        scale = "tiny"
        k = 10.0 ** rng.uniform(-8.0, -3.0)
        by_scope = None
    elif x < 0.30:
        scale = "1e3"
        k = 1e3
        by_scope = None
    elif x < 0.38:
        scale = "mixed"                   # one scale per scope, so that equal factors stay equal
        by_scope = {}
    if scale != "1":
        for f in factors:
            if by_scope is not None:
                key = tuple(sorted(f["vars"]))
                if key not in by_scope:
                    by_scope[key] = 10.0 ** rng.uniform(-8.0, 3.0)
                k = by_scope[key]
            f["values"] = [float(t) * k for t in f["values"]]
    return {"nodes": nodes, "edges": [list(e) for e in edges], "card": card, "states": states,
            "factors": factors, "kind": kind, "flat": flat_mn, "scale": scale}


def gen_query(rng, card, nodes, J, allow_virtual, force_ev=None, lo=MARGIN_LO):
    """query vars, hard evidence (state index) with P(e) > 0 under the oracle, virtual-evidence vectors."""
    n = len(nodes)
    if rng.random() < 0.2:
        k = n
    else:
        k = rng.randint(1, min(4, n))
    query = rng.sample(nodes, k)
    virt = []
    if allow_virtual and rng.random() < 0.5:
        for v in rng.sample(nodes, rng.randint(1, min(2, n))):
            if rng.random() < 0.3:
                m = margin(rng, lo)
                vec = [0.5 * (1.0 + m * k) for k in rng.sample(range(-4, 5), card[v])]
            else:
                vec = [rng.choice([0.05, 0.2, 0.5, 0.7, 0.9, 1.0]) for _ in range(card[v])]
            if rng.random() < 0.2 and card[v] > 1:
                vec[rng.randrange(card[v])] = 0.0
            if sum(vec) == 0:
                vec[0] = 0.5
            virt.append({"var": v, "vec": vec, "form": rng.choice(["cpd", "cpd", "factor"])})
    W = np.array(J, dtype=float)
    for d in virt:
        shp = [1] * W.ndim
        shp[nodes.index(d["var"])] = len(d["vec"])
        W = W * np.array(d["vec"]).reshape(shp)
    if W.sum() <= 0:
        virt, W = [], np.array(J, dtype=float)
    vvars = [d["var"] for d in virt]
    ev = {}
    cand = [v for v in nodes if v not in vvars]
    if force_ev:
        cand = [v for v in force_ev if v in cand] + [v for v in cand if v not in force_ev]
        picks = cand[:rng.randint(1, min(3, len(cand)))] if cand else []
    else:
        picks = rng.sample(cand, rng.randint(0, min(3, len(cand))))
    for e in picks:
        if len(query) == 1 and e in query:
            continue
        ax = nodes.index(e)
        sl = [slice(None)] * n
        for e2, s2 in ev.items():
            sl[nodes.index(e2)] = s2
        probs = []
        for s in range(card[e]):
            sl2 = list(sl)
            sl2[ax] = s
            probs.append(W[tuple(sl2)].sum())
        ok = [s for s in range(card[e]) if probs[s] > 1e-12]
        if not ok:
            continue
        ev[e] = rng.choice(ok)
        if e in query:
            query.remove(e)
    return query, ev, virt


def gen_predict(rng, bn, nodes, J, connected):
    n = len(nodes)
    if n < 2:
        return None
    cols = rng.sample(nodes, rng.randint(1, n - 1))
    pos = [idx for idx in itertools.product(*[range(bn["card"][v]) for v in nodes]) if J[idx] > 1e-12]
    rows = []
    missing = [v for v in nodes if v not in cols]
    for _ in range(rng.randint(1, 6)):
        full = rng.choice(pos)
        row = [full[nodes.index(c)] for c in cols]
        if decisive(oracle.posterior(nodes, J, missing, dict(zip(cols, row)))[1]):
            rows.append(row)
    if not rows:
        return None
    if rng.random() < 0.5:
        rows.append(list(rows[0]))
    algo = "bp" if (connected and rng.random() < 0.3) else "ve"
    return {"cols": cols, "rows": rows, "algo": algo,
            "dtype": rng.choice(["plain", "plain", "category", "object"]),
            "index": rng.choice(["range", "custom"]),
            "order": rng.choice(["default", "default", "MinWeight", "WeightedMinFill", "none"]) if algo == "ve" else "default"}


def _likes(virt):
    likes = {}
    for d in virt:
        likes[d["var"]] = np.array(d["vec"]) * likes.get(d["var"], 1.0)
    return likes


def gen_case(seed, idx, tier):
    rng = gen.rng_for("C03", seed, idx)
    if rng.random() < 0.7:
        # drawn again until the posterior is decisive (see decisive()); the last draws use coarse margins only
        for attempt in range(12):
            lo = MARGIN_LO if attempt < 8 else -3.0
            bn = bn_spec(rng, tier, lo)
            nodes, J = oracle.joint_table(bn)
            query, ev, virt = gen_query(rng, bn["card"], nodes, J, allow_virtual=rng.random() < 0.5, lo=lo)
            if decisive(oracle.posterior(nodes, J, query, ev, _likes(virt))[1]):
                break
        elim = [v for v in nodes if v not in query and v not in ev]
        perm = elim[:]
        rng.shuffle(perm)
        connected = len(_components(nodes, moral_pairs(bn))) == 1
        pred = gen_predict(rng, bn, nodes, J, connected) if rng.random() < 0.35 else None
        mx = None
        if len(query) >= 2 and rng.random() < 0.3:
            mx = rng.sample(query, rng.randint(1, len(query) - 1))
        return {"model": "bn", "bn": bn, "query": query, "evidence": ev, "virtual": virt, "perm": perm,
                "connected": connected, "predict": pred, "maximize": mx, "build_seed": rng.randrange(10 ** 6)}
    for attempt in range(12):
        lo = MARGIN_LO if attempt < 8 else -3.0
        for _ in range(50):
            mn = mn_spec(rng, tier, lo)
            nodes, J = oracle.mn_joint(mn)
            if J.sum() > 0:
                break
        J = J / J.sum()                    # the potentials may be scaled by 1e-8 each: thresholds below are relative
        twins = [f["slice_twin"] for f in mn["factors"] if "slice_twin" in f]
        force = None
        if twins and rng.random() < 0.6:
            force = twins[0]
        query, ev, _ = gen_query(rng, mn["card"], nodes, J, allow_virtual=False,
                                 force_ev=[force[0]] if force else None)
        if force and force[0] in ev:
            # make the evidence hit the slice on which two factors coincide, if that slice has positive mass
            test = dict(ev)
            test[force[0]] = force[1]
            sl = tuple(test.get(v, slice(None)) for v in nodes)
            if J[sl].sum() > 1e-12:
                ev = test
        # virtual evidence on a Markov network (the quantifier names "all evidence including virtual evidence" for
        # both model classes); kept apart from the equal-factor cases so that each finding has its own cases
        virt = []
        cand = [v for v in nodes if v not in ev and mn["card"][v] > 1]
        if MN_VIRTUAL and cand and rng.random() < 0.2 and not reduced_groups(mn, list(ev), ev):
            v = rng.choice(cand)
            vec = [rng.choice([0.02, 0.1, 0.3, 0.6, 0.9, 1.0]) for _ in range(mn["card"][v])]
            sl = tuple(ev.get(x, slice(None)) for x in nodes)
            W = np.moveaxis(np.asarray(J[sl]), [x for x in nodes if x not in ev].index(v), -1) * np.array(vec)
            if W.sum() > 1e-12:
                virt = [{"var": v, "vec": vec, "form": rng.choice(["cpd", "factor"])}]
        # decisive with and without the virtual evidence (the classifier of the known finding judges both)
        if decisive(oracle.posterior(nodes, J, query, ev, _likes(virt))[1]) and \
                decisive(oracle.posterior(nodes, J, query, ev)[1]):
            break
    elim = [v for v in nodes if v not in query and v not in ev]
    perm = elim[:]
    rng.shuffle(perm)
    return {"model": "mn", "mn": mn, "query": query, "evidence": ev, "virtual": virt, "perm": perm,
            "build_seed": rng.randrange(10 ** 6)}


# --------------------------------------------------------------------------------- judging
def state_index(states, v, val):
    """Index of the state of v that equals val (== comparison, robust to odd objects); None if not a state."""
    for k, s in enumerate(states[v]):
        try:
            same = (type(s) is tuple) == (type(val) is tuple) and bool(s == val)
        except Exception:
            same = False
        if same:
            return k
    return None


def judge(got, query, states, post):
    """None if `got` is a correct MAP answer, else (key suffix, description)."""
    try:
        if not isinstance(got, dict):
            return ("malformed-result", f"result is {type(got).__name__}, not a dict")
        keys = list(got.keys())
        if len(keys) != len(query) or any(k not in query for k in keys) or any(q not in keys for q in query):
            return ("wrong-scope", f"assigned variables {keys!r} != requested {list(query)!r}")
        idx = []
        for v in query:
            k = state_index(states, v, got[v])
            if k is None:
                return ("invalid-state-name", f"{v!r} -> {got[v]!r} is not one of its state names {states[v]!r}")
            idx.append(k)
        best = float(np.max(post))
        val = float(post[tuple(idx)])
        if not (val >= best - RTOL * best):
            arg = np.unravel_index(int(np.argmax(post)), post.shape)
            return ("not-a-maximiser", f"returned {got!r} has posterior {val!r}; maximum is {best!r} at "
                    f"{ {v: states[v][int(a)] for v, a in zip(query, arg)}!r}")
        return None
    except Exception as e:                                   # unreadable result object
        return ("malformed-result", f"cannot read result {got!r}: {type(e).__name__}: {e}")


def outcome(ctx, r, query, states, post):
    """Normalise a ctx.call result into None (correct) or (key, text)."""
    if ctx.failed(r):
        return (f"c03:exception:{r.type}@{r.where}", f"raised {r!r}")
    bad = judge(r, query, states, post)
    if bad is None:
        return None
    return ("c03:" + bad[0], bad[1])


def make_virtual(states, virt):
    from pgmpy.factors.discrete import DiscreteFactor, TabularCPD
    out = []
    for d in virt:
        v = d["var"]
        sn = {v: list(states[v])}
        if d["form"] == "cpd":
            out.append(TabularCPD(v, len(d["vec"]), [[x] for x in d["vec"]], state_names=sn))
        else:
            out.append(DiscreteFactor([v], [len(d["vec"])], list(d["vec"]), state_names=sn))
    return out


def identity_states(card):
    return {v: list(range(card[v])) for v in card}


def non_identity(states):
    return any(list(s) != list(range(len(s))) for s in states.values())


# ----------------------------------------------------------------- BN engines (parameterised by state names)
def bn_model(spec, states):
    import random
    from rv import build
    bn = dict(spec["bn"], states=states)
    return build.bayesian_network(bn, rng=random.Random(spec["build_seed"]))


def call_ve(ctx, model, spec, states, order):
    from pgmpy.inference import VariableElimination
    ev = {v: states[v][s] for v, s in spec["evidence"].items()}
    virt = spec.get("virtual") or []
    eo = list(spec["perm"]) if order == "perm" else order

    def go():
        ve = VariableElimination(model)
        return ve.map_query(variables=list(spec["query"]), evidence=dict(ev) or None,
                            virtual_evidence=make_virtual(states, virt) if virt else None,
                            elimination_order=eo, show_progress=False)
    return ctx.call(go)


def call_bp(ctx, model, spec, states, prep=None):
    """prep: None (fresh engine), "calibrate" or "max_calibrate" (engine the user calibrated explicitly first)."""
    from pgmpy.inference import BeliefPropagation
    ev = {v: states[v][s] for v, s in spec["evidence"].items()}
    virt = spec.get("virtual") or []

    def go():
        bp = BeliefPropagation(model)
        if prep:
            getattr(bp, prep)()
        return bp.map_query(variables=list(spec["query"]), evidence=dict(ev) or None,
                            virtual_evidence=make_virtual(states, virt) if virt else None, show_progress=False)
    return ctx.call(go)


def run_predict(ctx, model, spec, states, nodes, J):
    """Returns list of (label, outcome) for the predict call: one entry for the frame, one per row."""
    import pandas as pd
    from pgmpy.inference import BeliefPropagation, VariableElimination
    p = spec["predict"]
    cols, rows = p["cols"], p["rows"]
    missing = [v for v in nodes if v not in cols]
    data = {}
    for j, c in enumerate(cols):
        vals = [states[c][r[j]] for r in rows]
        all_int = all(type(s) is int for s in states[c])
        if p["dtype"] == "category":
            ser = pd.Series(pd.Categorical(vals, categories=list(states[c]))) if not any(
                type(s) is tuple for s in states[c]) else pd.Series(vals, dtype=object)
        elif p["dtype"] == "plain" and all_int:
            ser = pd.Series(vals, dtype="int64")
        else:
            ser = pd.Series(vals, dtype=object)
        data[c] = ser
    df = pd.DataFrame(data)
    if p["index"] == "custom":
        df.index = [10 + 3 * i for i in range(len(rows))]
    kw = {}
    if p["order"] == "none":
        kw["elimination_order"] = None
    elif p["order"] != "default":
        kw["elimination_order"] = p["order"]
    algo = BeliefPropagation if p["algo"] == "bp" else VariableElimination
    r = ctx.call(model.predict, df, algo=algo, n_jobs=1, **kw)
    label = f"predict(algo={p['algo']}, order={p['order']}, dtype={p['dtype']})"
    if ctx.failed(r):
        return [(label, (f"c03:exception:{r.type}@{r.where}", f"raised {r!r}"))]
    out = []
    try:
        rc = list(r.columns)
        if len(rc) != len(missing) or set(rc) != set(missing):
            return [(label, ("c03:wrong-scope", f"predicted columns {rc!r} != missing variables {missing!r}"))]
        if len(r) != len(rows):
            return [(label, ("c03:predict-row-count", f"{len(r)} rows returned for {len(rows)} data rows"))]
        got_rows = [{v: r[v].iloc[i] for v in missing} for i in range(len(rows))]
    except Exception as e:
        return [(label, ("c03:malformed-result", f"cannot read predict result: {type(e).__name__}: {e}"))]
    for i, row in enumerate(rows):
        evi = {c: row[j] for j, c in enumerate(cols)}
        _, post = oracle.posterior(nodes, J, missing, evi)
        bad = judge(got_rows[i], missing, states, post)
        out.append((f"{label} row {i} evidence={ {c: states[c][s] for c, s in evi.items()}!r}",
                    None if bad is None else ("c03:" + bad[0], bad[1])))
    return out


def run_bn(spec, ctx):
    from pgmpy.inference import VariableElimination
    from rv.build import to_np
    bn = spec["bn"]
    nodes, J = oracle.joint_table(bn)
    states, card = bn["states"], bn["card"]
    query, ev, virt = spec["query"], spec["evidence"], spec["virtual"]
    likes = {}
    for d in virt:
        likes[d["var"]] = np.array(d["vec"]) * likes.get(d["var"], 1.0)
    _, post = oracle.posterior(nodes, J, query, ev, likes)
    ctx.nontrivial = len(nodes) >= 2 and len(bn["edges"]) >= 1 and (len(ev) > 0 or len(query) < len(nodes))
    for f in ("bn", "virtual" if virt else None, "evidence" if ev else None, f"kind:{bn['kind']}",
              "card1" if 1 in card.values() else None, "connected" if spec["connected"] else "disconnected",
              "query-all" if len(query) + len(ev) == len(nodes) else None,
              "unique-max" if _unique_max(post) else "tied-max", _margin_class(post), "flat-model" if bn.get("flat") else None):
        if f:
            ctx.feature(f)
    ev_named = {v: states[v][s] for v, s in ev.items()}
    detail = dict(q=query, ev=ev_named, virt=virt)
    model = bn_model(spec, states)
    ident = identity_states(card)

    ve_ok = True
    for order in ORDERS:
        label = f"VE.map_query(order={order})"
        bad = outcome(ctx, call_ve(ctx, model, spec, states, order), query, states, post)
        if bad is None:
            ctx.ok()
            continue
        ve_ok = False
        ctx.violation(bad[0], f"{label}: {bad[1]}", **detail)

    # ---- belief propagation
    if spec["connected"]:
        label = "BP.map_query"
        r = call_bp(ctx, model, spec, states)
        bad = outcome(ctx, r, query, states, post)
        if bad is None:
            ctx.ok()
            ctx.note("bp-ok")
        else:
            key = bad[0]
            # structural classifier: BP engine only, model has non-identity state names, and the same
            # case with identity state names (same layout, same hash seed) is answered correctly
            if ve_ok and non_identity(states):
                m2 = bn_model(spec, ident)
                if outcome(ctx, call_bp(ctx, m2, spec, ident), query, ident, post) is None:
                    key = "c03:bp-clique-potential-state-names"
            ctx.violation(key, f"{label}: {bad[1]}", **detail)
        # the same MAP question on an engine that was explicitly (max-)calibrated before
        if bad is None and spec["build_seed"] % 2 == 0:
            for prep in ("max_calibrate", "calibrate"):
                b2 = outcome(ctx, call_bp(ctx, model, spec, states, prep=prep), query, states, post)
                if b2 is None:
                    ctx.ok()
                    ctx.note(f"bp-ok-after-{prep}")
                else:
                    ctx.violation(b2[0] + f":after-{prep}", f"BP.map_query after {prep}(): {b2[1]}", **detail)
    else:
        ctx.note("bp-skipped-disconnected")

    # ---- predict
    if spec["predict"]:
        ctx.feature(f"predict:{spec['predict']['algo']}")
        res = run_predict(ctx, model, spec, states, nodes, J)
        res2 = None
        for label, bad in res:
            if bad is None:
                ctx.ok()
                continue
            key = bad[0]
            if spec["predict"]["algo"] == "bp" and ve_ok and non_identity(states):
                if res2 is None:
                    res2 = run_predict(ctx, bn_model(spec, ident), spec, ident, nodes, J)
                if all(b is None for _, b in res2):
                    key = "c03:bp-clique-potential-state-names"
            ctx.violation(key, f"{label}: {bad[1]}", cols=spec["predict"]["cols"], rows=spec["predict"]["rows"])

    # ---- DiscreteFactor.maximize on the posterior factor (anchored mechanism; non-empty remaining scope only)
    if spec["maximize"]:
        mx = spec["maximize"]
        keep = [v for v in query if v not in mx]
        F = ctx.call(lambda: VariableElimination(model).query(list(query), evidence=dict(ev_named) or None,
                                                              virtual_evidence=make_virtual(states, virt) if virt else None,
                                                              show_progress=False))
        try:
            okF = (not ctx.failed(F)) and oracle.named_close(
                oracle.factor_named(F, to_np), oracle.array_named(query, states, post)) is None
        except Exception:
            okF = False
        if okF:                                    # a wrong posterior is C01's business, not maximize's
            M = ctx.call(F.maximize, list(mx), inplace=False)
            if ctx.failed(M):
                ctx.violation(f"c03:exception:{M.type}@{M.where}", f"maximize({mx}) raised {M!r}", **detail)
            else:
                try:
                    want = oracle.marginal(query, post, keep, op="max")
                    diff = oracle.named_close(oracle.factor_named(M, to_np), oracle.array_named(keep, states, want))
                except Exception as e:
                    diff = f"cannot read result: {type(e).__name__}: {e}"
                ctx.expect(diff is None, "c03:maximize-wrong", f"posterior.maximize({mx}): {diff}", **detail)
        else:
            ctx.note("maximize-skipped-posterior-unavailable")


def _unique_max(post):
    flat = np.sort(np.asarray(post, dtype=float).reshape(-1))
    return flat.size == 1 or flat[-2] < flat[-1] * (1 - GAP_LO)


def _margin_class(post):
    """Feature tag: relative margin by which the maximum beats the best non-tied entry."""
    flat = np.asarray(post, dtype=float).reshape(-1)
    best = float(flat.max())
    gap = (best - flat) / best
    gap = gap[gap > GAP_LO]
    if gap.size == 0:
        return None
    g = float(gap.min())
    return "margin<1e-5" if g < 1e-5 else ("margin<1e-3" if g < 1e-3 else None)


# ------------------------------------------------------------------------------------ Markov networks
def reduced_groups(mn, ev_order, ev):
    """Groups (lists of factor positions) of factors that the elimination engine cannot tell apart after the
    hard evidence is sliced in: same remaining scope, same last-sliced evidence variable, identical table."""
    card = mn["card"]
    groups = {}
    for i, f in enumerate(mn["factors"]):
        vs = f["vars"]
        A = np.array(f["values"], dtype=float).reshape([card[v] for v in vs])
        sl = tuple(ev[v] if v in ev else slice(None) for v in vs)
        rest = [v for v in vs if v not in ev]
        if not rest:
            continue
        A = A[sl]
        perm = sorted(range(len(rest)), key=lambda t: rest[t])
        A = np.transpose(A, perm)
        origin = None
        for e in ev_order:
            if e in vs:
                origin = e
        key = (tuple(sorted(rest)), origin, A.shape, A.tobytes())
        groups.setdefault(key, []).append(i)
    return [g for g in groups.values() if len(g) > 1]


def neutralised_mn(mn, ev_order, ev):
    """An MN with the same conditional distribution given `ev` in which no two factors coincide after slicing:
    the first member of each group absorbs the (equal) sliced tables of the others, which become all-ones."""
    card = mn["card"]
    groups = reduced_groups(mn, ev_order, ev)
    factors = [{k: v for k, v in f.items() if k != "same_object_as"} for f in mn["factors"]]
    for g in groups:
        first = factors[g[0]]
        vs = first["vars"]
        A = np.array(first["values"], dtype=float).reshape([card[v] for v in vs])
        sl = tuple(ev[v] if v in ev else slice(None) for v in vs)
        R = A[sl]                                             # axes: non-evidence vars of `first`, in vs order
        shp = [card[v] if v not in ev else 1 for v in vs]
        A = A * (R.reshape(shp) ** (len(g) - 1))
        first["values"] = [float(x) for x in A.reshape(-1)]
        for i in g[1:]:
            factors[i]["values"] = [1.0] * len(factors[i]["values"])
    return dict(mn, factors=factors), groups


def build_mn(mn, rng):
    """Like rv.build.markov_network, but a factor marked `same_object_as` is the same Python object as
    the factor it refers to (MarkovNetwork.add_factors(f, f) lists f twice: the joint contains f squared)."""
    from pgmpy.models import MarkovNetwork
    from rv import build
    objs = []
    for f in mn["factors"]:
        objs.append(objs[f["same_object_as"]] if f.get("same_object_as") is not None else build.discrete_factor(mn, f))
    m = MarkovNetwork()
    nodes = list(mn["nodes"])
    edges = [tuple(e) for e in mn["edges"]]
    rng.shuffle(nodes)
    rng.shuffle(edges)
    rng.shuffle(objs)
    m.add_nodes_from(nodes)
    m.add_edges_from(edges)
    m.add_factors(*objs)
    return m


def mn_call(ctx, mn, spec, order, virt=()):
    import random
    from pgmpy.inference import VariableElimination
    states = mn["states"]
    model = build_mn(mn, random.Random(spec["build_seed"]))
    ev = {v: states[v][s] for v, s in spec["evidence"].items()}
    eo = list(spec["perm"]) if order == "perm" else order

    def go():
        kw = {"virtual_evidence": make_virtual(states, virt)} if virt else {}
        return VariableElimination(model).map_query(variables=list(spec["query"]), evidence=dict(ev) or None,
                                                    elimination_order=eo, show_progress=False, **kw)
    return ctx.call(go)


def run_mn(spec, ctx):
    mn = spec["mn"]
    nodes, J = oracle.mn_joint(mn)
    states = mn["states"]
    query, ev = spec["query"], spec["evidence"]
    virt = spec.get("virtual") or []
    likes = {d["var"]: np.array(d["vec"]) for d in virt}
    _, post = oracle.posterior(nodes, J, query, ev, likes)
    ev_order = list(ev)
    groups = reduced_groups(mn, ev_order, ev)
    ctx.nontrivial = len(nodes) >= 2 and len(mn["factors"]) >= 2 and (len(ev) > 0 or len(query) < len(nodes))
    for f in ("mn", "evidence" if ev else None, f"kind:{mn['kind']}", "mn-equal-factors" if groups else None,
              "mn-virtual" if virt else None,
              "unique-max" if _unique_max(post) else "tied-max", _margin_class(post), "flat-model" if mn.get("flat") else None,
              f"mn-scale:{mn.get('scale', '1')}"):
        if f:
            ctx.feature(f)
    detail = dict(q=query, ev={v: states[v][s] for v, s in ev.items()}, virt=virt)
    neutral = None
    post_plain = oracle.posterior(nodes, J, query, ev)[1] if virt else None
    for order in ORDERS:
        label = f"VE(MN).map_query(order={order})"
        bad = outcome(ctx, mn_call(ctx, mn, spec, order, virt), query, states, post)
        if bad is None:
            ctx.ok()
            continue
        key = bad[0]
        # structural classifier: Markov network + virtual evidence, the answer is a MAP of the posterior that
        # ignores the virtual evidence, and the same call without virtual evidence is answered correctly
        if virt and not bad[0].startswith("c03:exception"):
            if (outcome(ctx, mn_call(ctx, mn, spec, order, virt), query, states, post_plain) is None
                    and outcome(ctx, mn_call(ctx, mn, spec, order), query, states, post_plain) is None):
                key = "c03:mn-virtual-evidence-ignored"
        # structural classifier: two factors with the same remaining scope and identical tables once the
        # evidence is sliced in; confirmed by re-running on an equivalent model without such a pair
        if groups:
            if neutral is None:
                neutral = neutralised_mn(mn, ev_order, ev)[0]
            if outcome(ctx, mn_call(ctx, neutral, spec, order), query, states, post) is None:
                key = "c03:ve-set-dedup-equal-factors"
        ctx.violation(key, f"{label}: {bad[1]}", equal_factor_groups=groups, **detail)


def run_case(spec, ctx):
    if spec["model"] == "bn":
        run_bn(spec, ctx)
    else:
        run_mn(spec, ctx)
