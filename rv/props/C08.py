"""C08 - d-separation answers match the path-based definition.

Observe: DAG / BayesianNetwork / NaiveBayes . active_trail_nodes (start node / list; observed
         list / set / tuple / bare node / None / empty; include_latents both), is_dconnected,
         get_independencies, local_independencies, minimal_dseparator, get_markov_blanket,
         moralize, get_ancestral_graph.
Oracle : rv.oracle.DSep - enumerate every simple path of the skeleton, a path is active iff no
         non-collider on it is observed and every collider has an observed descendant-or-self.
         Parents / children / ancestors / descendants come from the edge list of the spec.

Case index layout (same in every hash-seed cell):
    0 .. 571                 every labelled DAG on 1..4 nodes (1 + 3 + 25 + 543), one DAG per case
    [quick]    next 1 100    a VERIF_SEED-dependent sample of the 29 281 labelled DAGs on 5 nodes
    [thorough] next 29 281   every labelled DAG on 5 nodes
    next NB_CASES            NaiveBayes models (1-4 features; 1-char / multi-letter / substring / int names)
    rest                     random DAGs on 6-7 nodes
VERIF_SEED changes labels, label permutation, insertion order, argument forms and the random part,
never the enumerated set.
"""
import itertools
import os
import random

from rv import gen, oracle

N4 = 1 + 3 + 25 + 543          # 572
N5 = 29281
# RV_C08_ENUM5=<k> (development only) restricts the thorough tier to k evenly spaced 5-node DAGs
N5_USED = min(N5, int(os.environ.get("RV_C08_ENUM5", N5) or N5))
Q5 = 1100                      # quick: a VERIF_SEED-dependent sample of the 5-node enumeration
NB_CASES = 24
QUICK_RANDOM = 304
THOROUGH_RANDOM = 1800

# RV_C08_LIMIT=<k> (development only): run only the first k quick cases.  A violation found on a prefix is also
# found by the full tier, so this is used to confirm mutants quickly; a prefix run that stays silent proves nothing.
_LIMIT = int(os.environ.get("RV_C08_LIMIT", 0) or 0)

PLAN = {
    "quick": {"cases": min(_LIMIT, N4 + Q5 + NB_CASES + QUICK_RANDOM) if _LIMIT else N4 + Q5 + NB_CASES + QUICK_RANDOM, "hashseeds": 3, "shards": 5, "timeout": 600,
              "min_nontrivial": 1500},
    "thorough": {"cases": N4 + N5_USED + NB_CASES + THOROUGH_RANDOM, "hashseeds": 4, "shards": 4, "timeout": 3300,
                 "deadline": 3000, "min_nontrivial": min(25000, N5_USED)},
}
RULE = ("case idx -> the idx-th labelled DAG of the exhaustive enumeration on 1..4 nodes (quick and thorough) and "
        "on 5 nodes (thorough: all 29 281; quick: a seed-dependent sample of 1 100), then NaiveBayes models, then random DAGs on 6-7 nodes. Per DAG: "
        "every start (as node and inside a list) x every observed subset (as list/set/tuple/bare node/None/empty) x "
        "latent subsets (all for n<=4, {} + 2 random beyond) x include_latents in {True, False}; every ordered pair "
        "for is_dconnected and minimal_dseparator; get_independencies expanded to elementary triples; local "
        "independencies, Markov blanket, moral graph, ancestral graphs of every node subset (n<=4). Classes DAG and "
        "BayesianNetwork, string labels (1-char or multi-letter/substring) plus an integer-labelled pass. "
        "non-trivial: >= 3 nodes and >= 2 edges (some trail has an inner node), NaiveBayes: >= 2 features; "
        "distinct by digest of the spec")
ASSUMPTIONS = ["rv.oracle.DSep (enumeration of all simple paths, collider/non-collider rule) is the reference",
               "d-separation is only judged for start not in the observed set (start in Z: only 'no observed node returned')",
               "with latents, minimal_dseparator returning None is reported, not failed (no completeness promise)"]
REACH = [
    "pgmpy.base.DAG:DAG.active_trail_nodes",
    "pgmpy.base.DAG:DAG._get_ancestors_of",
    "pgmpy.base.DAG:DAG.is_dconnected",
    "pgmpy.base.DAG:DAG.get_independencies",
    "pgmpy.base.DAG:DAG.local_independencies",
    "pgmpy.base.DAG:DAG.minimal_dseparator",
    "pgmpy.base.DAG:DAG.get_markov_blanket",
    "pgmpy.base.DAG:DAG.moralize",
    "pgmpy.base.DAG:DAG.get_ancestral_graph",
    "pgmpy.models.BayesianNetwork:BayesianNetwork.get_markov_blanket",
    "pgmpy.models.NaiveBayes:NaiveBayes.active_trail_nodes",
    "pgmpy.models.NaiveBayes:NaiveBayes.local_independencies",
    "pgmpy.independencies.Independencies:Independencies.add_assertions",
]
REACH_REQUIRED = list(REACH)
MANIFEST = {
    "text": "On every labelled DAG with at most 4 nodes (5 in the thorough tier) and on random larger DAGs, every "
            "d-separation answer of DAG/BayesianNetwork/NaiveBayes was compared with a path-enumeration oracle.",
    "note": "trusts rv.oracle.DSep; start nodes inside the observed set are outside the judged domain",
    "technique": "runtime monitoring with a reference-model oracle, bounded-exhaustive inputs",
}

# ------------------------------------------------------------------ enumeration / generators
_ENUM = {}


def _enum(n):
    if n not in _ENUM:
        _ENUM[n] = gen.all_dags(list(range(n)))
    return _ENUM[n]


def _dag_by_index(i):
    """i-th DAG of the 1..4 node enumeration as (n, edges over 0..n-1)."""
    for n in (1, 2, 3, 4):
        e = _enum(n)
        if i < len(e):
            return n, e[i]
        i -= len(e)
    raise IndexError(i)


_Q5 = {}


def _quick5(seed):
    if seed not in _Q5:
        _Q5[seed] = gen.rng_for("C08", "quick5", seed).sample(range(N5), Q5)
    return _Q5[seed]


LABELS = {
    "s1": ["a", "b", "c", "d", "e", "f", "g"],
    "sN": ["x", "xy", "xyz", "y z", "node4", "N5", "xy6"],     # substrings of each other, a blank, multi-letter
    "w": ["alpha", "beta", "gamma", "delta", "eps", "zeta", "eta"],
}


def _subsets(items):
    items = list(items)
    out = []
    for r in range(len(items) + 1):
        out.extend([list(c) for c in itertools.combinations(items, r)])
    return out


def _dag_spec(rng, n, edges_idx, tier, source):
    kind = rng.choice(["s1", "sN", "sN", "w"])
    labels = LABELS[kind][:n]
    rng.shuffle(labels)
    nodes = list(labels)
    edges = [[labels[u], labels[v]] for (u, v) in edges_idx]
    if n <= 4:
        latent_sets = _subsets(nodes)
    else:
        latent_sets = [[]]
        for _ in range(2):
            k = rng.randint(1, max(1, n // 2))
            latent_sets.append(sorted(rng.sample(nodes, k)))
    zsets = None
    if n >= 6:                                   # observed sets are sampled beyond 5 nodes
        allz = _subsets(nodes)
        pick = [z for z in allz if len(z) <= 1]
        rest = [z for z in allz if len(z) > 1]
        rng.shuffle(rest)
        zsets = pick + rest[:24 if tier == "quick" else 40]
    return {"kind": "dag", "source": source, "n": n, "labels": kind, "nodes": nodes, "edges": edges,
            "latent_sets": latent_sets, "zsets": zsets, "seed": rng.randrange(10 ** 9)}


def _nb_spec(rng, j):
    k = [1, 2, 3, 4][j % 4]
    kind = ["s1", "multi", "substr", "int", "int0", "multi"][(j // 4) % 6]
    if kind == "s1":
        names = ["a", "b", "c", "d", "e"]
    elif kind == "multi":
        names = ["cls", "f1", "f2", "f3", "f4"]
    elif kind == "substr":
        names = ["y", "xy", "yz", "f y", "yy"]          # class name is a substring of the feature names
    elif kind == "int":
        names = [1, 2, 3, 4, 5]
    else:
        names = [0, 1, 2, 3, 4]
    dep, feats = names[0], names[1:1 + k]
    rng.shuffle(feats)
    return {"kind": "nb", "names": kind, "dependent": dep, "features": feats,
            "ctor": rng.choice(["init", "edges"]), "seed": rng.randrange(10 ** 9)}


def gen_case(seed, idx, tier):
    rng = gen.rng_for("C08", seed, idx, tier)
    if idx < N4:
        n, e = _dag_by_index(idx)
        return _dag_spec(rng, n, e, tier, f"enum{n}")
    idx -= N4
    if tier == "thorough":
        if idx < N5_USED:
            j = idx if N5_USED == N5 else (idx * N5) // N5_USED
            return _dag_spec(rng, 5, _enum(5)[j], tier, "enum5")
        idx -= N5_USED
    else:
        if idx < Q5:
            return _dag_spec(rng, 5, _enum(5)[_quick5(seed)[idx]], tier, "enum5-sample")
        idx -= Q5
    if idx < NB_CASES:
        return _nb_spec(rng, idx)
    n = rng.choice([6, 6, 6, 7] if tier == "quick" else [6, 7, 7])
    names = list(range(n))
    e = gen.rand_dag_edges(rng, names, p=rng.choice([0.3, 0.45, 0.6]), max_parents=rng.choice([2, 3, 4]))
    return _dag_spec(rng, n, e, tier, "random")



# ------------------------------------------------------------------------- violation recording
def viol(ctx, key, what, **detail):
    """At most two records per mechanism key and case, so that a frequently firing (known) mechanism can never
    crowd a different violation out of the 20-record cap of Ctx."""
    seen = ctx.__dict__.setdefault("c08_seen", {})
    seen[key] = seen.get(key, 0) + 1
    if seen[key] <= 2:
        ctx.violation(key, what, **detail)
    else:
        ctx.checks += 1
        ctx.note("repeat:" + key)


def expect(ctx, cond, key, what, **detail):
    if cond:
        ctx.checks += 1
    else:
        viol(ctx, key, what, **detail)
    return cond


# ------------------------------------------------------------------------------- oracle side
class Ora:
    """Memoised front of rv.oracle.DSep plus family relations read from the edge list."""

    def __init__(self, nodes, edges):
        self.nodes = list(nodes)
        self.edges = [tuple(e) for e in edges]
        self.ds = oracle.DSep(self.nodes, self.edges)
        self.pa, self.ch = oracle._adj(self.nodes, self.edges)
        self.memo = {}

    def conn(self, x, y, Z):
        k = (x, y, frozenset(Z))
        if k not in self.memo:
            self.memo[k] = self.ds.dconnected(x, y, k[2])
        return self.memo[k]

    def trail(self, x, Z, drop=()):
        """{x} + nodes with an active path from x given Z, minus Z, minus `drop` (latents)."""
        Z = frozenset(Z)
        return {y for y in self.nodes if y not in Z and y not in drop and (y == x or self.conn(x, y, Z))}

    def adjacent(self, x, y):
        return y in self.pa[x] or y in self.ch[x]

    def blanket(self, v):
        out = set(self.pa[v]) | set(self.ch[v])
        for c in self.ch[v]:
            out |= self.pa[c]
        out.discard(v)
        return out

    def moral_edges(self):
        out = {frozenset(e) for e in self.edges}
        for v in self.nodes:
            for p, q in itertools.combinations(sorted(self.pa[v], key=repr), 2):
                out.add(frozenset((p, q)))
        return out

    def local(self, v):
        """(non-descendants minus parents, parents) of v."""
        nd = set(self.nodes) - oracle.descendants(self.nodes, self.edges, v, include_self=True)
        return nd - self.pa[v], set(self.pa[v])

    def triples(self, universe):
        """All ({x,y}, Z) over `universe` with x d-separated from y given Z."""
        universe = list(universe)
        out = set()
        for x, y in itertools.combinations(universe, 2):
            rest = [v for v in universe if v != x and v != y]
            for Z in _subsets(rest):
                if not self.conn(x, y, Z):
                    out.add((frozenset((x, y)), frozenset(Z)))
        return out

    def separable(self, x, y, allowed):
        for Z in _subsets([v for v in allowed if v != x and v != y]):
            if not self.conn(x, y, Z):
                return True
        return False


# ------------------------------------------------------------------------------ pgmpy side
def _build(cls_name, nodes, edges, latents, rng, style=None):
    from pgmpy.base import DAG
    from pgmpy.models import BayesianNetwork
    cls = DAG if cls_name == "DAG" else BayesianNetwork
    nodes, edges = list(nodes), [tuple(e) for e in edges]
    rng.shuffle(nodes)
    rng.shuffle(edges)
    style = style or rng.choice(["ctor", "incr"])
    if style == "ctor":
        g = cls(edges or None, latents=set(latents))
        g.add_nodes_from(nodes)
    else:
        g = cls()
        g.add_nodes_from(nodes, latent=[v in latents for v in nodes])
        g.add_edges_from(edges)
    return g


FORMS_NONEMPTY = ["list", "set", "tuple"]


def _mk(Z, form, rng):
    Z = list(Z)
    rng.shuffle(Z)
    if form == "list":
        return list(Z)
    if form == "set":
        return set(Z)
    if form == "tuple":
        return tuple(Z)
    if form == "bare":
        return Z[0]
    if form == "none":
        return None
    if form == "elist":
        return []
    if form == "eset":
        return set()
    if form == "etuple":
        return ()
    raise ValueError(form)


def _form_for(Z, rng, allow_bare=True):
    if len(Z) == 0:
        return rng.choice(["none", "none", "elist", "eset", "etuple"])
    if len(Z) == 1 and allow_bare and rng.random() < 0.5:
        return "bare"
    return rng.choice(FORMS_NONEMPTY)


def _falsy(v):
    try:
        return not v
    except Exception:
        return False


def _sorted(s):
    return sorted(s, key=repr)


class DagRun:
    """All C08 observations on one DAG spec."""

    def __init__(self, spec, ctx, nodes=None, edges=None, latent_sets=None):
        self.spec, self.ctx = spec, ctx
        self.nodes = list(spec["nodes"] if nodes is None else nodes)
        self.edges = [tuple(e) for e in (spec["edges"] if edges is None else edges)]
        self.latent_sets = [list(L) for L in (spec["latent_sets"] if latent_sets is None else latent_sets)]
        self.n = len(self.nodes)
        self.O = Ora(self.nodes, self.edges)
        self.rng = random.Random(spec["seed"])
        self.zsets = spec.get("zsets") or _subsets(self.nodes)
        self.graphs = {}
        self.digest = []

    def graph(self, cls_name, L):
        k = (cls_name, frozenset(L))
        if k not in self.graphs:
            self.graphs[k] = _build(cls_name, self.nodes, self.edges, L, random.Random(f"{self.spec['seed']}|{cls_name}|{_sorted(L)}"))
        return self.graphs[k]

    # ---- active_trail_nodes
    def _judge_trail(self, cls_name, L, il, start, Z, form, got, how):
        """got: the returned set for `start`.  Returns True if it matched."""
        ctx, O = self.ctx, self.O
        d = dict(cls=cls_name, start=start, observed=_sorted(Z), form=form, latents=_sorted(L), include_latents=il,
                 how=how, edges=self.edges)
        try:
            got = set(got)
        except Exception as e:
            viol(ctx, "c08:malformed-result", f"active_trail_nodes[{start!r}] is not a set: {type(e).__name__}", **d)
            return False
        if start in Z:
            expect(ctx, not (got & set(Z)), "c08:observed-node-returned",
                       f"active_trail_nodes returned observed nodes {_sorted(got & set(Z))}", **d)
            return True
        want = O.trail(start, Z, drop=() if il else L)
        if got == want:
            ctx.ok()
            return True
        key = "c08:wrong-active-trail"
        if form == "bare" and _falsy(Z[0]):
            # neutralise: same query with the node wrapped in a list
            r2 = ctx.call(self.graph(cls_name, L).active_trail_nodes, start, observed=[Z[0]], include_latents=il)
            if not ctx.failed(r2) and set(r2.get(start, ())) == want:
                key = "c08:falsy-bare-observed"
        viol(ctx, key, f"{cls_name}.active_trail_nodes({start!r}, observed={Z!r} as {form}, include_latents={il}) "
                      f"= {_sorted(got)}, definition gives {_sorted(want)}", **d)
        return False

    def trails(self, cls_name, L, full):
        ctx, rng = self.ctx, self.rng
        G = self.graph(cls_name, L)
        for il in (False, True):
            for Z in self.zsets:
                form = _form_for(Z, rng)
                starts = list(self.nodes)
                rng.shuffle(starts)
                r = ctx.call(G.active_trail_nodes, starts, observed=_mk(Z, form, rng), include_latents=il)
                if ctx.failed(r):
                    viol(ctx, f"c08:exception:{r.type}@{r.where}", f"active_trail_nodes(list) raised {r!r}",
                                  cls=cls_name, observed=Z, form=form, latents=L, edges=self.edges)
                    continue
                if not isinstance(r, dict) or set(r) != set(starts):
                    viol(ctx, "c08:malformed-result", f"active_trail_nodes(list) keys {r!r:.200}", cls=cls_name,
                                  edges=self.edges)
                    continue
                for s in starts:
                    self._judge_trail(cls_name, L, il, s, Z, form, r[s], "list-start")
                    if not L and not il and self.n <= 4:
                        self.digest.append((repr(s), tuple(map(repr, _sorted(Z))), tuple(map(repr, _sorted(r[s])))))
        if not full:
            return
        # single start node, every observed set disjoint from it; include_latents left at its default when no latents
        for s in self.nodes:
            for Z in self.zsets:
                if s in Z:
                    continue
                form = _form_for(Z, rng)
                kw = {}
                il = False
                if L:
                    il = rng.random() < 0.5
                    kw["include_latents"] = il
                obs = _mk(Z, form, rng)
                if form == "none" and rng.random() < 0.5:
                    r = ctx.call(G.active_trail_nodes, s, **kw)
                else:
                    r = ctx.call(G.active_trail_nodes, s, observed=obs, **kw)
                if ctx.failed(r):
                    viol(ctx, f"c08:exception:{r.type}@{r.where}", f"active_trail_nodes({s!r}) raised {r!r}",
                                  cls=cls_name, observed=Z, form=form, latents=L, edges=self.edges)
                    continue
                if not isinstance(r, dict) or list(r) != [s]:
                    viol(ctx, "c08:malformed-result", f"active_trail_nodes({s!r}) returned {r!r:.200}", cls=cls_name,
                                  edges=self.edges)
                    continue
                self._judge_trail(cls_name, L, il, s, Z, form, r[s], "single-start")

    # ---- is_dconnected
    def dconn(self, cls_name, L, zlimit=None):
        ctx, rng, O = self.ctx, self.rng, self.O
        G = self.graph(cls_name, L)
        for x in self.nodes:
            for y in self.nodes:
                if x == y:
                    continue
                zs = [Z for Z in self.zsets if x not in Z and y not in Z]
                if zlimit is not None and len(zs) > zlimit:
                    zs = zs[:1] + rng.sample(zs[1:], zlimit - 1)
                for Z in zs:
                    form = _form_for(Z, rng)
                    obs = _mk(Z, form, rng)
                    if form == "none" and rng.random() < 0.5:
                        r = ctx.call(G.is_dconnected, x, y)
                    else:
                        r = ctx.call(G.is_dconnected, x, y, observed=obs)
                    d = dict(cls=cls_name, start=x, end=y, observed=_sorted(Z), form=form, latents=_sorted(L),
                             edges=self.edges)
                    if ctx.failed(r):
                        viol(ctx, f"c08:exception:{r.type}@{r.where}", f"is_dconnected raised {r!r}", **d)
                        continue
                    want = O.conn(x, y, Z)
                    if bool(r) == want and isinstance(r, bool):
                        ctx.ok()
                        continue
                    key = "c08:wrong-dconnected"
                    # structural classification, each confirmed by neutralising the feature
                    form2, L2 = form, list(L)
                    if form == "bare" and _falsy(Z[0]):
                        r2 = ctx.call(G.is_dconnected, x, y, observed=[Z[0]])
                        if not ctx.failed(r2) and bool(r2) == want:
                            key = "c08:falsy-bare-observed"
                        form2 = "list"
                    if key == "c08:wrong-dconnected" and y in L:
                        L2 = [v for v in L if v != y]
                        r2 = ctx.call(self.graph(cls_name, L2).is_dconnected, x, y,
                                      observed=list(Z) if form2 == "list" else _mk(Z, form, rng))
                        if not ctx.failed(r2) and bool(r2) == want:
                            key = "c08:dconnected-latent-end"
                    viol(ctx, key, f"{cls_name}.is_dconnected({x!r}, {y!r}, observed={Z!r} as {form}) = {r!r}, "
                                  f"definition gives {want}", **d)

    # ---- get_independencies
    def indeps(self, cls_name, L, ils):
        ctx, O = self.ctx, self.O
        G = self.graph(cls_name, L)
        for il in ils:
            if il is None:
                r = ctx.call(G.get_independencies)
                il = False
            else:
                r = ctx.call(G.get_independencies, include_latents=il)
            d = dict(cls=cls_name, latents=_sorted(L), include_latents=il, edges=self.edges)
            if ctx.failed(r):
                viol(ctx, f"c08:exception:{r.type}@{r.where}", f"get_independencies raised {r!r}", **d)
                continue
            try:
                got = set()
                for a in r.get_assertions():
                    for x in a.event1:
                        for y in a.event2:
                            got.add((frozenset((x, y)), frozenset(a.event3)))
            except Exception as e:
                viol(ctx, "c08:malformed-result", f"cannot read get_independencies result: {type(e).__name__}: {e}", **d)
                continue
            universe = [v for v in self.nodes if il or v not in L]
            want = O.triples(universe)
            if got == want:
                ctx.ok(max(1, len(want)))
                if not L:
                    self.digest.append(("ind", len(want)))
                continue
            extra = [(tuple(_sorted(p)), _sorted(z)) for p, z in list(got - want)[:3]]
            miss = [(tuple(_sorted(p)), _sorted(z)) for p, z in list(want - got)[:3]]
            viol(ctx, "c08:wrong-independencies",
                          f"{cls_name}.get_independencies(include_latents={il}): {len(got - want)} asserted but "
                          f"d-connected e.g. {extra}; {len(want - got)} d-separated but not asserted e.g. {miss}", **d)

    # ---- local_independencies
    def local(self, cls_name):
        ctx, O, rng = self.ctx, self.O, self.rng
        G = self.graph(cls_name, [])
        queries = [("str", v, [v]) for v in self.nodes]
        allv = list(self.nodes)
        rng.shuffle(allv)
        queries.append(("list", list(allv), allv))
        sub = rng.sample(self.nodes, rng.randint(1, self.n))
        queries.append(("tuple", tuple(sub), sub))
        for form, arg, vs in queries:
            r = ctx.call(G.local_independencies, arg)
            d = dict(cls=cls_name, variables=vs, form=form, edges=self.edges)
            if ctx.failed(r):
                viol(ctx, f"c08:exception:{r.type}@{r.where}", f"local_independencies raised {r!r}", **d)
                continue
            try:
                got = sorted(((frozenset(a.event1), frozenset(a.event2), frozenset(a.event3)) for a in r.get_assertions()),
                             key=repr)
            except Exception as e:
                viol(ctx, "c08:malformed-result", f"cannot read local_independencies result: {e}", **d)
                continue
            want = []
            for v in vs:
                ind, pa = O.local(v)
                if ind:
                    want.append((frozenset([v]), frozenset(ind), frozenset(pa)))
                    # the local Markov statement itself must hold under the path definition (sanity of the oracle pair)
                    assert all(not O.conn(v, y, pa) for y in ind)
            want = sorted(want, key=repr)
            if got == want:
                ctx.ok()
            else:
                viol(ctx, "c08:wrong-local-independencies",
                              f"{cls_name}.local_independencies({arg!r}) = {[tuple(map(_sorted, t)) for t in got]}, "
                              f"expected {[tuple(map(_sorted, t)) for t in want]}", **d)

    # ---- minimal_dseparator
    def mindsep(self, cls_name, L):
        ctx, O = self.ctx, self.O
        G = self.graph(cls_name, L)
        for x in self.nodes:
            for y in self.nodes:
                if x == y:
                    continue
                r = ctx.call(G.minimal_dseparator, x, y)
                d = dict(cls=cls_name, start=x, end=y, latents=_sorted(L), edges=self.edges)
                if O.adjacent(x, y):
                    expect(ctx, ctx.failed(r) and r.type == "ValueError", "c08:adjacent-not-refused",
                               f"minimal_dseparator on adjacent nodes returned {r!r}", **d)
                    continue
                if ctx.failed(r):
                    viol(ctx, f"c08:exception:{r.type}@{r.where}", f"minimal_dseparator raised {r!r}", **d)
                    continue
                if r is None:
                    if not L:
                        viol(ctx, "c08:mindsep-none-without-latents",
                                      f"minimal_dseparator({x!r}, {y!r}) = None in a graph without latents", **d)
                    elif O.separable(x, y, [v for v in self.nodes if v not in L]):
                        ctx.note("mindsep-none-although-latent-free-separator-exists")
                        ctx.ok()
                    else:
                        ctx.note("mindsep-none-and-no-latent-free-separator")
                        ctx.ok()
                    continue
                try:
                    S = set(r)
                    bad = not S <= set(self.nodes)
                except Exception:
                    bad = True
                if bad:
                    viol(ctx, "c08:malformed-result", f"minimal_dseparator returned {r!r}", **d)
                    continue
                d["separator"] = _sorted(S)
                if S & set(L):
                    viol(ctx, "c08:mindsep-latent-member", f"separator {_sorted(S)} contains latent {_sorted(S & set(L))}", **d)
                    continue
                if x in S or y in S:
                    viol(ctx, "c08:mindsep-contains-endpoint", f"separator {_sorted(S)} contains an endpoint", **d)
                    continue
                if O.conn(x, y, S):
                    viol(ctx, "c08:mindsep-not-separating",
                                  f"{x!r} and {y!r} are d-connected given the returned separator {_sorted(S)}", **d)
                    continue
                red = [s for s in S if not O.conn(x, y, S - {s})]
                if red:
                    viol(ctx, "c08:mindsep-not-minimal",
                                  f"separator {_sorted(S)} still separates {x!r},{y!r} without {red[0]!r}", **d)
                    continue
                ctx.ok(2 + len(S))
                ctx.note("mindsep-returned")

    # ---- Markov blanket / moral graph / ancestral graph
    def structure(self, cls_name, L=()):
        ctx, O, rng = self.ctx, self.O, self.rng
        G = self.graph(cls_name, L)
        for v in self.nodes:
            r = ctx.call(G.get_markov_blanket, v)
            d = dict(cls=cls_name, node=v, edges=self.edges)
            if ctx.failed(r):
                viol(ctx, f"c08:exception:{r.type}@{r.where}", f"get_markov_blanket raised {r!r}", **d)
                continue
            try:
                got = set(r)
            except Exception:
                viol(ctx, "c08:malformed-result", f"get_markov_blanket returned {r!r}", **d)
                continue
            want = O.blanket(v)
            expect(ctx, got == want, "c08:wrong-markov-blanket",
                       f"{cls_name}.get_markov_blanket({v!r}) = {_sorted(got)}, expected {_sorted(want)}", **d)
        r = ctx.call(G.moralize)
        d = dict(cls=cls_name, edges=self.edges)
        if ctx.failed(r):
            viol(ctx, f"c08:exception:{r.type}@{r.where}", f"moralize raised {r!r}", **d)
        else:
            try:
                if r.is_directed():
                    raise ValueError("moral graph is directed")
                gn, ge = set(r.nodes()), {frozenset(e) for e in r.edges()}
            except Exception as e:
                viol(ctx, "c08:malformed-result", f"cannot read moral graph: {e}", **d)
            else:
                want = O.moral_edges()
                expect(ctx, gn == set(self.nodes) and ge == want, "c08:wrong-moral-graph",
                           f"{cls_name}.moralize(): nodes {_sorted(gn)}, unexpected edges "
                           f"{[_sorted(e) for e in ge - want]}, missing edges {[_sorted(e) for e in want - ge]}", **d)
        subsets = [s for s in _subsets(self.nodes) if s]
        if self.n > 4:
            subsets = [[v] for v in self.nodes] + rng.sample(subsets, 12)
        for S in subsets:
            form = rng.choice(["list", "tuple"] + (["bare"] if len(S) == 1 else []))
            arg = S[0] if form == "bare" else (list(S) if form == "list" else tuple(S))
            r = ctx.call(G.get_ancestral_graph, arg)
            d = dict(cls=cls_name, nodes=S, form=form, edges=self.edges)
            if ctx.failed(r):
                viol(ctx, f"c08:exception:{r.type}@{r.where}", f"get_ancestral_graph raised {r!r}", **d)
                continue
            try:
                gn, ge = set(r.nodes()), {tuple(e) for e in r.edges()}
                directed = r.is_directed()
            except Exception as e:
                viol(ctx, "c08:malformed-result", f"cannot read ancestral graph: {e}", **d)
                continue
            an = oracle.ancestors(self.nodes, self.edges, S, include_self=True)
            we = {(u, v) for (u, v) in self.edges if u in an and v in an}
            expect(ctx, directed and gn == an and ge == we, "c08:wrong-ancestral-graph",
                       f"{cls_name}.get_ancestral_graph({arg!r}): nodes {_sorted(gn)} expected {_sorted(an)}; "
                       f"edges {_sorted(ge)} expected {_sorted(we)}", **d)


def run_dag(spec, ctx):
    n = spec["n"]
    run = DagRun(spec, ctx)
    ctx.nontrivial = n >= 3 and len(spec["edges"]) >= 2
    ctx.feature(f"n={n}")
    ctx.feature(f"labels:{spec['labels']}")
    ctx.feature(spec["source"])
    O = run.O
    if any(len(O.pa[v]) >= 2 for v in run.nodes):
        ctx.feature("collider")
        if any(len(O.pa[v]) >= 2 and O.ch[v] for v in run.nodes):
            ctx.feature("collider-with-descendant")
    lsets = run.latent_sets
    for i, L in enumerate(lsets):
        if L:
            ctx.feature("latents")
        cls_name = "DAG" if (i % 2 == 0) else "BN"
        run.trails(cls_name, L, full=(i == 0 or n <= 4 and i % 5 == 1))
        run.dconn(cls_name, L, zlimit=None if (n <= 4 or not L) and n <= 5 else 4)
        run.indeps(cls_name, L, [None] if not L else [False, True])
        run.mindsep(cls_name, L)
    # the other class on the latent-free graph and one latent set
    run.trails("BN", [], full=True)
    run.dconn("BN", [], zlimit=None if n <= 4 else 3)
    run.indeps("BN", [], [True] if n <= 5 else [])
    run.mindsep("BN", [])
    for cls_name in ("DAG", "BN"):
        run.local(cls_name)
        run.structure(cls_name, [] if cls_name == "DAG" else lsets[-1])
    if len(lsets) > 1:
        run.trails("DAG", lsets[1 if len(lsets) < 4 else 3], full=False)

    # integer-labelled pass (no Independencies container involved): 0..n-1, observed passed as a bare node
    if n >= 2:
        idx = {v: i for i, v in enumerate(spec["nodes"])}
        inodes = list(range(n))
        iedges = [(idx[u], idx[v]) for (u, v) in run.edges]
        ispec = dict(spec, nodes=inodes, edges=iedges)
        irun = DagRun(ispec, ctx, latent_sets=[[]])
        irun.zsets = [[]] + [[v] for v in inodes]
        ctx.feature("int-labels")
        G = irun.graph("DAG", [])
        for s in inodes:
            for z in inodes:
                if z == s:
                    continue
                r = ctx.call(G.active_trail_nodes, s, observed=z)
                if ctx.failed(r):
                    viol(ctx, f"c08:exception:{r.type}@{r.where}", f"active_trail_nodes({s}, observed={z}) raised {r!r}",
                                  edges=iedges)
                    continue
                try:
                    got = r[s]
                except Exception:
                    viol(ctx, "c08:malformed-result", f"active_trail_nodes({s}, observed={z}) returned {r!r:.200}",
                                  edges=iedges)
                    continue
                irun._judge_trail("DAG", [], False, s, [z], "bare", got, "int-labels")
        irun.dconn("DAG", [])
        irun.mindsep("BN", [])
        irun.structure("DAG")

    import hashlib
    ctx.xcell["answers"] = hashlib.sha1(repr(sorted(run.digest)).encode()).hexdigest()[:16]


# -------------------------------------------------------------------------------- NaiveBayes
def _build_nb(dep, feats, ctor, rng):
    from pgmpy.models import NaiveBayes
    feats = list(feats)
    rng.shuffle(feats)
    if ctor == "init":
        return NaiveBayes(feature_vars=feats, dependent_var=dep)
    g = NaiveBayes()
    g.add_edges_from([(dep, f) for f in feats])
    return g


def _one_char(v):
    return isinstance(v, str) and len(v) == 1


def run_nb(spec, ctx):
    dep, feats = spec["dependent"], list(spec["features"])
    nodes = [dep] + feats
    edges = [(dep, f) for f in feats]
    O = Ora(nodes, edges)
    rng = random.Random(spec["seed"])
    ctx.nontrivial = len(feats) >= 2
    ctx.feature("naivebayes")
    ctx.feature(f"nb-names:{spec['names']}")
    G = ctx.call(_build_nb, dep, feats, spec["ctor"], rng)
    if ctx.failed(G):
        viol(ctx, f"c08:exception:{G.type}@{G.where}", f"cannot build NaiveBayes: {G!r}", spec=spec)
        return
    # neutralised twins: same structure with 1-character names; same graph as a plain BayesianNetwork
    ren = {v: "abcde"[i] for i, v in enumerate(nodes)}
    G1 = _build_nb(ren[dep], [ren[f] for f in feats], spec["ctor"], random.Random(1))
    BN = _build("BN", nodes, edges, [], random.Random(2))

    def nb_trail(g, start, Z, form, rmap=None):
        """(ok, value) of g.active_trail_nodes against the definition; rmap renames the query."""
        m = (lambda v: rmap[v]) if rmap else (lambda v: v)
        Zm = [m(z) for z in Z]
        obs = _mk(Zm, form, random.Random(3))
        r = ctx.call(g.active_trail_nodes, m(start), observed=obs) if form != "none" else ctx.call(g.active_trail_nodes, m(start))
        if ctx.failed(r):
            return False, r
        try:
            got = set(r)
        except Exception:
            return False, r
        want = {m(v) for v in O.trail(start, Z)}
        return got == want, got

    for s in nodes:
        for Z in _subsets([v for v in nodes if v != s]):
            forms = ["none", "elist"] if not Z else (["list", "set", "tuple"] + (["bare"] if len(Z) == 1 else []))
            for form in forms:
                ok, got = nb_trail(G, s, Z, form)
                if ok:
                    ctx.ok()
                    continue
                d = dict(start=s, observed=Z, form=form, dependent=dep, features=feats)
                key, f2 = "c08:wrong-active-trail", form
                if form == "bare":
                    if nb_trail(G, s, Z, "list")[0]:
                        key = "c08:naivebayes-observed-bare-node"
                    f2 = "list"
                if key == "c08:wrong-active-trail" and dep in Z and not _one_char(s):
                    if nb_trail(G1, s, Z, f2, rmap=ren)[0]:
                        key = "c08:naivebayes-set-of-start"
                viol(ctx, key, f"NaiveBayes.active_trail_nodes({s!r}, observed={Z!r} as {form}) -> {got!r}, "
                              f"definition gives {_sorted(O.trail(s, Z))}", **d)

    # local independencies (string names only: the Independencies container cannot hold integers)
    for v in (nodes if all(isinstance(u, str) for u in nodes) else []):
        form = rng.choice(["str", "list"])
        r = ctx.call(G.local_independencies, v if form == "str" else [v])
        ind, pa = O.local(v)
        want = [(frozenset([v]), frozenset(ind), frozenset(pa))] if ind else []

        def read(res):
            return sorted(((frozenset(a.event1), frozenset(a.event2), frozenset(a.event3)) for a in res.get_assertions()), key=repr)
        good = False
        if not ctx.failed(r):
            try:
                good = read(r) == want
            except Exception:
                good = False
        if good:
            ctx.ok()
            continue
        d = dict(variable=v, dependent=dep, features=feats)
        key = "c08:wrong-local-independencies" if not ctx.failed(r) else f"c08:exception:{r.type}@{r.where}"
        if v != dep and len(feats) == 1:
            # structural: the only feature has no other non-descendant; confirmed if a second feature makes it pass
            g2 = _build_nb("a", ["b", "c"], "init", random.Random(4))
            r2 = ctx.call(g2.local_independencies, "b")
            if not ctx.failed(r2) and read(r2) == [(frozenset("b"), frozenset("c"), frozenset("a"))]:
                key = "c08:naivebayes-local-single-feature"
        elif v != dep and not _one_char(v):
            r2 = ctx.call(G1.local_independencies, ren[v])
            w2 = [(frozenset([ren[v]]), frozenset(ren[u] for u in ind), frozenset(ren[u] for u in pa))]
            if not ctx.failed(r2) and read(r2) == w2:
                key = "c08:naivebayes-local-set-of-variable"
        viol(ctx, key, f"NaiveBayes.local_independencies({v!r}) -> {r!r:.200}, expected "
                      f"{[tuple(map(_sorted, t)) for t in want]}", **d)

    # inherited d-separation API on the NaiveBayes object; twin = the same graph as BayesianNetwork
    def inherited(name, args, kwargs, judge):
        r = ctx.call(getattr(G, name), *args, **kwargs)
        if not ctx.failed(r):
            try:
                if judge(r):
                    ctx.ok()
                    return
            except Exception:
                pass
        d = dict(method=name, args=args, dependent=dep, features=feats)
        key = f"c08:exception:{r.type}@{r.where}" if ctx.failed(r) else f"c08:wrong-{name}"
        if ctx.failed(r) and r.type == "TypeError":
            r2 = ctx.call(getattr(BN, name), *args, **kwargs)
            try:
                if not ctx.failed(r2) and judge(r2):
                    key = "c08:naivebayes-inherited-api"
            except Exception:
                pass
        viol(ctx, key, f"NaiveBayes.{name}{tuple(args)!r} -> {r!r:.200}", **d)

    for x in nodes:
        for y in nodes:
            if x == y:
                continue
            for Z in _subsets([v for v in nodes if v not in (x, y)])[:4]:
                inherited("is_dconnected", [x, y], {"observed": list(Z)}, lambda r, x=x, y=y, Z=Z: r is O.conn(x, y, Z))
    if all(isinstance(v, str) for v in nodes):
        def judge_ind(r):
            got = {(frozenset((a, b)), frozenset(t.event3)) for t in r.get_assertions() for a in t.event1 for b in t.event2}
            return got == O.triples(nodes)
        inherited("get_independencies", [], {}, judge_ind)
    for x, y in itertools.permutations(feats, 2):
        def judge_sep(r, x=x, y=y):
            S = set(r)
            return not O.conn(x, y, S) and all(O.conn(x, y, S - {s}) for s in S)
        inherited("minimal_dseparator", [x, y], {}, judge_sep)
    for S in [s for s in _subsets(nodes) if s][:8]:
        def judge_anc(r, S=S):
            an = oracle.ancestors(nodes, edges, S, include_self=True)
            return set(r.nodes()) == an and {tuple(e) for e in r.edges()} == {e for e in edges if e[0] in an and e[1] in an}
        inherited("get_ancestral_graph", [list(S)], {}, judge_anc)
    for v in nodes:
        inherited("get_markov_blanket", [v], {}, lambda r, v=v: set(r) == O.blanket(v))
    inherited("moralize", [], {}, lambda r: {frozenset(e) for e in r.edges()} == O.moral_edges() and set(r.nodes()) == set(nodes))


def run_case(spec, ctx):
    ctx.c08_seen = {}
    if spec["kind"] == "nb":
        run_nb(spec, ctx)
    else:
        run_dag(spec, ctx)
