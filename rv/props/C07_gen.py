"""C07 case generator (plain data; no pgmpy).  All sampler parameters are stored as state
NUMBERS; the checker converts them to the spec's state names when calling pgmpy, so that a
spec can be re-run under different state labels (classifier neutralisation)."""
import itertools

import numpy as np

from rv import gen, oracle


def _seed(rng):
    """sampler seed: boundary values (0 is falsy!, 1, numpy's maximum 2**32 - 1) mixed with random ones"""
    r = rng.random()
    if r < 0.2:
        return 0
    if r < 0.27:
        return rng.choice([1, 2 ** 32 - 1])
    return rng.randrange(2 ** 31)


def sep_cpt(rng, r, q, zeros=True):
    """r x q table whose columns are kept >= 0.3 apart in total variation where that is possible
    (best effort: 12 draws per column, the most separated one is kept)."""
    cols = []
    for _ in range(q):
        best, bestd = None, -1.0
        for _t in range(12):
            c = gen.rand_column(rng, r, zeros)
            d = min((0.5 * sum(abs(a - b) for a, b in zip(c, o)) for o in cols), default=1.0)
            if d > bestd:
                best, bestd = c, d
            if d >= 0.3:
                break
        cols.append(best)
    return [[cols[j][i] for j in range(q)] for i in range(r)]


TINY = [1e-12, 1e-9, 1e-6]


def tiny_entries(rng, table):
    """Put 1-2 entries of magnitude 1e-12 .. 1e-6 into some columns (columns still sum to exactly 1)."""
    r, q = len(table), len(table[0])
    if r < 2:
        return table
    for j in range(q):
        if rng.random() < 0.4:
            col = [table[i][j] for i in range(r)]
            big = max(range(r), key=lambda t: col[t])
            for i in rng.sample([t for t in range(r) if t != big], rng.randint(1, min(2, r - 1))):
                col[i] = rng.choice(TINY)
            col[big] = 1.0 - sum(c for t, c in enumerate(col) if t != big)
            if col[big] > 0:
                for i in range(r):
                    table[i][j] = col[i]
    return table


def odd_names(rng, bn):
    """multi-digit / negative integer names, and the empty string as a state name"""
    for v in bn["nodes"]:
        st = bn["states"][v]
        if all(isinstance(x, int) for x in st) and st != list(range(len(st))) and rng.random() < 0.35:
            off = rng.choice([10, 100, -3, 2 ** 40])
            bn["states"][v] = [x + off for x in st]
        elif all(isinstance(x, str) for x in st) and rng.random() < 0.15:
            st = list(st)
            st[rng.randrange(len(st))] = ""
            bn["states"][v] = st


def clamp_spec(bn, clamp):
    """Spec in which every node of `clamp` ({node: number}) is a parent-less point mass."""
    cpds = dict(bn["cpds"])
    for v, s in clamp.items():
        cpds[v] = {"parents": [], "table": [[1.0 if i == s else 0.0] for i in range(bn["card"][v])]}
    return cpds


def prob_of(nodes, J, assign):
    sl = [slice(None)] * len(nodes)
    for v, s in assign.items():
        sl[nodes.index(v)] = s
    return float(np.asarray(J)[tuple(sl)].sum())


def pick_evidence(rng, nodes, J, card, kmax, pmin, exclude=(), kmin=0):
    ev = {}
    cand = [v for v in nodes if v not in exclude]
    rng.shuffle(cand)
    k = rng.randint(kmin, min(kmax, len(cand))) if cand else 0
    for v in cand:
        if len(ev) >= k:
            break
        ok = [s for s in range(card[v]) if prob_of(nodes, J, {**ev, v: s}) >= pmin]
        if ok:
            ev[v] = rng.choice(ok)
    return ev


def gen_partial(rng, bn, size, exclude=()):
    nodes = [v for v in bn["nodes"] if v not in exclude]
    if not nodes:
        return None
    cols = rng.sample(nodes, rng.randint(1, min(2, len(nodes))))
    pats = [[rng.randrange(bn["card"][c]) for c in cols] for _ in range(rng.randint(1, 3))]
    rows = [list(rng.choice(pats)) for _ in range(size)]
    return {"cols": cols, "rows": rows}


def marg_prior(bn, v):
    """mean over parent configurations of P(v | pa): what a marginalised-and-normalised CPD holds."""
    t = np.array(bn["cpds"][v]["table"], dtype=float)
    return (t.sum(axis=1) / t.shape[1]).tolist()


def sim_effective(bn, var):
    """The spec simulate() is expected to sample from, for one variant `var`:
    returns (nodes, card, cpds, accept) where do / virtual-intervention nodes are parent-less with
    prior marg_prior (only used to bound the rejection cost), each virtual vector on X adds a binary
    node '__X' with parent X, and `accept` is the {node: number} condition for keeping a row."""
    nodes = list(bn["nodes"])
    card = dict(bn["card"])
    cpds = dict(bn["cpds"])
    accept = {}
    for v, s in var.get("do", {}).items():
        cpds[v] = {"parents": [], "table": [[x] for x in marg_prior(bn, v)]}
        accept[v] = s
    for d in var.get("vint", []):
        v = d["var"]
        cpds[v] = {"parents": [], "table": [[x] for x in marg_prior(bn, v)]}
    for v, s in var.get("evidence", {}).items():
        accept[v] = s
    for d in list(var.get("vev", [])) + list(var.get("vint", [])):
        v = d["var"]
        nv = "__" + v
        nodes.append(nv)
        card[nv] = 2
        cpds[nv] = {"parents": [v], "table": [list(d["vec"]), [1.0 - x for x in d["vec"]]]}
        accept[nv] = 0
    return nodes, card, cpds, accept


def rand_vec(rng, k):
    vec = [rng.choice([0.0, 0.1, 0.3, 0.5, 0.8, 1.0, 1e-6, 1 - 1e-9]) for _ in range(k)]
    if max(vec) == 0:
        vec[rng.randrange(k)] = 0.5
    return vec


def gen_sim_variant(rng, bn, nodes, J, tier):
    card = bn["card"]
    n = rng.choice([1, 2, 17, 17, 150] if tier == "quick" else [1, 2, 17, 150, 600])
    for _try in range(8):
        var = {"n": n, "seed": _seed(rng), "include_latents": rng.random() < 0.4}
        pool = list(nodes)
        rng.shuffle(pool)
        kinds = rng.choice([[], ["do"], ["evidence"], ["vev"], ["vint"], ["do", "evidence"], ["do", "vev"],
                            ["evidence", "vev"], ["do", "do"], ["vint", "evidence"], ["do", "evidence", "vev"]])
        do, evid, vev, vint = {}, {}, [], []
        for kd in kinds:
            if not pool:
                break
            v = pool.pop()
            if kd == "do":
                ok = [s for s in range(card[v]) if max(bn["cpds"][v]["table"][s]) > 0]
                do[v] = rng.choice(ok)
            elif kd == "evidence":
                evid[v] = rng.randrange(card[v])
            elif kd == "vev":
                vev.append({"var": v, "vec": rand_vec(rng, card[v])})
            else:
                vint.append({"var": v, "vec": rand_vec(rng, card[v])})
        var.update(do=do, evidence=evid, vev=vev, vint=vint, empty=rng.choice(["none", "empty"]))
        if rng.random() < 0.12 and pool:
            var["partial"] = gen_partial(rng, bn, n, exclude=[v for v in nodes if v not in pool])
        else:
            var["partial"] = None
        if rng.random() < 0.35:
            cols = [v for v in nodes if rng.random() < 0.5]
            var["missing"] = {"prob": rng.choice([0.1, 0.3, 0.6, 1e-9, 1 - 1e-9, 0.5]),
                              "columns": rng.choice([cols or None, cols or None, cols or None, None, []])}
        else:
            var["missing"] = None
        # acceptance probability under the effective spec (bounds the rejection cost)
        enodes, ecard, ecpds, accept = sim_effective(bn, var)
        if not accept:
            return var
        accs = []
        pats = [None]
        if var["partial"]:
            pats = [dict(zip(var["partial"]["cols"], r)) for r in {tuple(r) for r in var["partial"]["rows"]}]
            pats.sort(key=repr)
        for pat in pats:
            cp = dict(ecpds)
            if pat:
                cp.update(clamp_spec({"cpds": ecpds, "card": ecard}, pat))
            _, EJ = oracle.joint_table({"nodes": enodes, "card": ecard, "cpds": cp})
            accs.append(prob_of(enodes, EJ, accept))
        acc = min(accs)
        if acc >= (0.15 if var["partial"] else 0.03) and n / acc <= 12000:
            var["accept_prob"] = acc
            return var
        n = min(n, 17)
    return {"n": n, "seed": _seed(rng), "include_latents": False, "do": {}, "evidence": {}, "vev": [],
            "vint": [], "partial": None, "missing": None, "empty": rng.choice(["none", "empty"])}


def gen_bn_case(rng, tier):
    thorough = tier == "thorough"
    bn = gen.rand_bn_spec(rng, n_range=(1, 7) if thorough else (1, 6), max_joint=1024 if thorough else 384,
                          latent_frac=rng.choice([0.0, 0.0, 0.25, 0.5]))
    for v in bn["nodes"]:
        pa = bn["cpds"][v]["parents"]
        q = 1
        for p in pa:
            q *= bn["card"][p]
        bn["cpds"][v]["table"] = sep_cpt(rng, bn["card"][v], q)
    tiny = rng.random() < 0.3
    if tiny:
        for v in bn["nodes"]:
            tiny_entries(rng, bn["cpds"][v]["table"])
    odd_names(rng, bn)
    nodes, J = oracle.joint_table(bn)
    card = bn["card"]
    sizes = [1, 2, 17, 17, 1000] if not thorough else [1, 2, 17, 1000, 3000]
    spec = {"type": "bn", "bn": bn, "build_seed": rng.randrange(10 ** 6), "tiny": tiny}
    # forward
    fsize = rng.choice(sizes)
    spec["fwd"] = {"size": fsize, "seed": _seed(rng),
                   "partial": gen_partial(rng, bn, min(fsize, 40)) if rng.random() < 0.35 else None}
    if spec["fwd"]["partial"]:
        spec["fwd"]["size"] = len(spec["fwd"]["partial"]["rows"])
    elif rng.random() < 0.06:           # a partial frame with rows but no columns: nothing is given
        spec["fwd"]["partial"] = {"cols": [], "rows": [[] for _ in range(fsize)]}
    # rejection
    ev = pick_evidence(rng, nodes, J, card, 2, 0.02, kmin=0 if rng.random() < 0.15 else 1)
    pe = prob_of(nodes, J, ev)
    rsize = rng.choice([1, 2, 17, 200])
    if rsize / pe > 8000:
        rsize = 17 if 17 / pe <= 8000 else 2
    rej = {"evidence": ev, "size": rsize, "seed": _seed(rng), "p_e": pe, "partial": None,
           "ev_none": rng.random() < 0.5}        # when the evidence is empty: spelled None (documented) or []
    if ev and rng.random() < 0.2:
        part = gen_partial(rng, bn, min(rsize, 30), exclude=list(ev))
        if part:
            accs = []
            for r in sorted({tuple(r) for r in part["rows"]}):
                _, CJ = oracle.joint_table(bn, cpds=clamp_spec(bn, dict(zip(part["cols"], r))))
                accs.append(prob_of(nodes, CJ, ev))
            if min(accs) >= 0.1:
                rej["partial"] = part
                rej["size"] = len(part["rows"])
    spec["rej"] = rej
    # likelihood weighting
    spec["lw"] = {"evidence": pick_evidence(rng, nodes, J, card, 3, 1e-9), "size": rng.choice(sizes),
                  "seed": _seed(rng), "ev_none": rng.random() < 0.5}
    # Gibbs
    pos = [idx for idx in itertools.product(*[range(card[v]) for v in nodes]) if J[idx] > 0]
    start = rng.choice(pos)
    spec["gibbs"] = {"start": dict(zip(nodes, start)), "size": rng.choice([1, 2, 17, 60]),
                     "seed": _seed(rng), "random_start": bool(np.all(np.asarray(J) > 0)),
                     "reuse": [[rng.choice([1, 2, 9]), rng.random() < 0.5, _seed(rng)]
                               for _ in range(rng.randint(1, 2))] if rng.random() < 0.5 else None}
    # simulate variants
    spec["sim"] = [gen_sim_variant(rng, bn, nodes, J, tier) for _ in range(2)]
    spec["sim_reuse"] = rng.random() < 0.5        # one model object (and one set of argument objects) for all calls
    # one sampler object serving a sequence of different calls
    if rng.random() < 0.6:
        steps = []
        for _ in range(rng.randint(3, 5)):
            kind = rng.choice(["fwd", "rej", "lw", "rej", "lw"])
            sz = rng.choice([1, 1, 2, 17, 60])
            if kind == "fwd":
                part = gen_partial(rng, bn, min(sz, 20)) if rng.random() < 0.3 else None
                steps.append({"kind": kind, "size": len(part["rows"]) if part else sz, "seed": _seed(rng), "partial": part})
            elif kind == "rej":
                e2 = pick_evidence(rng, nodes, J, card, 2, 0.05, kmin=0 if rng.random() < 0.25 else 1)
                steps.append({"kind": kind, "evidence": e2, "size": sz if sz / prob_of(nodes, J, e2) <= 2000 else 2,
                              "seed": _seed(rng), "partial": None, "ev_none": rng.random() < 0.5})
            else:
                steps.append({"kind": kind, "evidence": pick_evidence(rng, nodes, J, card, 3, 1e-9), "size": sz,
                              "seed": _seed(rng), "ev_none": rng.random() < 0.5})
        spec["reuse"] = {"steps": steps, "partial": None}
    else:
        spec["reuse"] = None
    # statistical guard
    spec["stat"] = {"seed": _seed(rng)} if rng.random() < 0.25 else None
    return spec


def gen_mn_case(rng, tier):
    mn = gen.rand_mn_spec(rng, n_range=(2, 5), max_joint=256)
    if rng.random() < 0.5:              # potentials far from O(1), mixed within one network
        for f in mn["factors"]:
            sc = 10.0 ** rng.choice([-12, -6, 0, 0, 4, 8])
            f["values"] = [x * sc * (10.0 ** rng.choice([0, 0, 0, -6, 3])) for x in f["values"]]
    nodes, J = oracle.mn_joint(mn)
    card = mn["card"]
    pos = [idx for idx in itertools.product(*[range(card[v]) for v in nodes]) if J[idx] > 0]
    if not pos:                      # all-zero product: make the first factor strictly positive
        mn["factors"][0]["values"] = [x if x > 0 else 0.5 for x in mn["factors"][0]["values"]]
        for f in mn["factors"]:
            f["values"] = [x if x > 0 else 0.25 for x in f["values"]]
        nodes, J = oracle.mn_joint(mn)
        pos = [idx for idx in itertools.product(*[range(card[v]) for v in nodes]) if J[idx] > 0]
    start = rng.choice(pos)
    return {"type": "mn", "mn": mn, "build_seed": rng.randrange(10 ** 6),
            "gibbs": {"start": dict(zip(nodes, start)), "size": rng.choice([1, 2, 17, 60]),
                      "seed": _seed(rng),
                      "reuse": [[rng.choice([1, 2, 9]), True, _seed(rng)]] if rng.random() < 0.5 else None}}
