"""C12 - constraint-based discovery (PC) is exact when CI questions are answered exactly.

Observe: PC(...).estimate(ci_test=<d-separation oracle callable> | "independence_match", variant in
         {orig, stable, parallel}, return_type in {skeleton, pdag/cpdag, dag}, max_cond_vars >= max degree);
         PC.skeleton_to_pdag on an instrumented copy of the returned skeleton (every edge removal = one
         orientation event, recorded with the graph state before it); PDAG.to_dag on CPDAGs and arbitrary
         partially directed graphs (plus the "no faithful extension" warning of its fallback branch).
Oracle : ground-truth DAG G.  skeleton(G); path-based d-separation (rv.oracle.DSep) for every stored
         separating set and for answering the CI questions; CPDAG(G) by enumeration of the whole Markov
         equivalence class (n <= 4, n = 5 in the exhaustive thorough part) or by v-structures + Meek R1-R3
         (larger n; cross-checked against enumeration on every DAG with <= 4 nodes in setup());
         class membership of a DAG = acyclic + same skeleton + same v-structures (Verma & Pearl).
         PDAG.to_dag: extendability decided by brute force over all orientations of the undirected edges
         (<= 10 undirected edges) or by an own two-sided Dor-Tarsi (cross-checked against the brute force
         on all 4096 mixed graphs on 4 nodes); for every extendable PDAG the result must be acyclic, have the
         same nodes and skeleton, keep every directed edge and contain no v-structure the PDAG did not have.
Known-finding keys are assigned only when (1) a structural classifier recognises the mechanism - the first
orientation event contradicting the true CPDAG has the shape "X->Z--Y oriented Z->Y while Y->X exists", resp. the
PDAG admits an elimination order on which only a one-sided clique test gets stuck - and (2) the same call re-run
with exactly that one-directional adjacency test neutralised (class `Neutral`) gives a correct answer.  Everything
else keeps a generic key (c12:wrong-cpdag, c12:wrong-dag, c12:todag-wrong-extension, ...) and fails the run.
RV_C12_SCALE=<0..1> shrinks the thorough tier (development only).
Call sequences on ONE PC / ONE PDAG object and boundary values (falsy / mixed node names, 0-2 node graphs,
max_cond_vars 0 / exact / float / numpy int, duplicate edges) live in rv/props/C12_seq.py (case kinds seq, pseq).
"""
import itertools
import os

from rv import gen, oracle

_SCALE = float(os.environ.get("RV_C12_SCALE", "1") or 1)

# ------------------------------------------------------------------ case layout
DAG_BLOCK = 4            # DAGs (n <= 4) per case
PDAG_BLOCK = 128         # mixed graphs (4 nodes) per case
N_SMALL = 1 + 3 + 25 + 543
N_DAGBLOCKS = (N_SMALL + DAG_BLOCK - 1) // DAG_BLOCK         # 143
N_PDAGBLOCKS = 4096 // PDAG_BLOCK                            # 32
DAG5_BLOCK = 16
N_DAG5 = 29281
N_DAG5BLOCKS = (N_DAG5 + DAG5_BLOCK - 1) // DAG5_BLOCK       # 1831

LAYOUT = {
    "quick": [("dagblock", N_DAGBLOCKS), ("pdagblock", N_PDAGBLOCKS), ("dag5s", 100), ("rand", 2000), ("rpdag", 600),
              ("seq", 1500), ("pseq", 500)],
    "thorough": [("dagblock", N_DAGBLOCKS), ("pdagblock", N_PDAGBLOCKS),
                 ("dag5", max(8, int(N_DAG5BLOCKS * _SCALE)) if _SCALE < 1 else N_DAG5BLOCKS),
                 ("rand", max(20, int(1600 * _SCALE))), ("rpdag", max(20, int(800 * _SCALE))),
                 ("seq", max(20, int(2500 * _SCALE))), ("pseq", max(20, int(800 * _SCALE)))],
}


def _ncases(tier):
    return sum(c for _, c in LAYOUT[tier])


PLAN = {
    "quick": {"cases": _ncases("quick"), "hashseeds": 3, "shards": 5, "timeout": 600, "min_nontrivial": 3200},
    "thorough": {"cases": _ncases("thorough"), "hashseeds": 8, "shards": 2, "timeout": 5000,
                 "min_nontrivial": int(_ncases("thorough") * 0.8)},
}
RULE = ("(a) EXHAUSTIVE: every labelled DAG on 1-4 nodes (572, each under 2-3 labelings / variable orders; thorough also "
        "all 29 281 on 5 nodes, quick a seed-dependent slice of 1600 of them) as ground truth, "
        "node names / column order permuted per seed, x oracle mode {d-separation callable, independence_match with "
        "all elementary true triples} x variant {orig, stable, parallel} x return type {skeleton, pdag|cpdag, dag} x "
        "max_cond_vars in {max degree, n, default}; (b) random DAGs on 5-7 (thorough 5-8) nodes, same grid (callable; "
        "independence_match up to 5/6 nodes); (c) EXHAUSTIVE: PDAG.to_dag on all 4096 mixed graphs on 4 nodes "
        "(each pair none/->/<-/--), several labelings / edge orders each; (d) random PDAGs on 5-7 nodes (CPDAGs, "
        "CPDAGs with extra oriented edges, DAGs with edges undirected, arbitrary mixed graphs).  non-trivial: case "
        "contains a ground-truth DAG with >= 3 nodes and >= 1 edge, or an extendable PDAG with >= 1 undirected edge; "
        "(e) call sequences: ONE PC object answering 5-9 estimate / build_skeleton / skeleton_to_pdag-twice calls for "
        "two different ground-truth DAGs on 1-6 variables (variants, oracle kinds, return types, max_cond_vars 0 / 1 / "
        "exact max degree / +1 / n / 1000 / numpy int / integral float, significance levels 0 .. 1e8 / None), returned "
        "objects edited between calls and re-judged afterwards; ONE PDAG object: to_dag twice, copy + edit + to_dag "
        "again; node names 0, '', 2.5, 1234567, tuples, mixed types; 0-3 node and edgeless graphs; duplicate edges; "
        "distinct by digest of the whole spec; every case runs under 3 (thorough 8) PYTHONHASHSEEDs")
ASSUMPTIONS = ["path-based d-separation from the definition is the CI truth",
               "class enumeration (n<=5) defines the CPDAG; Meek R1-R3 closure is trusted for n>=5 only after "
               "agreeing with enumeration on all DAGs with <= 4 nodes in the same process",
               "Verma-Pearl: same skeleton + same v-structures <=> Markov equivalent",
               "brute force over orientations defines extendability; own two-sided Dor-Tarsi used beyond 10 "
               "undirected edges only after agreeing with the brute force on all 4096 four-node mixed graphs",
               "independence_match mode uses string node names only (IndependenceAssertion cannot hold ints) and "
               "passes a one-row data frame for the variable list when some node occurs in no assertion"]
REACH = [
    "pgmpy.estimators.PC:PC.estimate",
    "pgmpy.estimators.PC:PC.build_skeleton",
    "pgmpy.estimators.PC:PC.skeleton_to_pdag",
    "pgmpy.base.DAG:PDAG.to_dag",
    "pgmpy.base.DAG:PDAG.__init__",
    "pgmpy.estimators.CITests:independence_match",
    "pgmpy.independencies.Independencies:Independencies.contains",
]
REACH_REQUIRED = list(REACH)
MANIFEST = {
    "text": "With conditional-independence questions answered exactly from a ground-truth DAG, PC (orig / stable / "
            "parallel) returned the true skeleton with d-separating separating sets, exactly the CPDAG of the DAG's "
            "Markov equivalence class and a member of that class, for every DAG on <= 4 nodes (5 in the thorough "
            "tier) and for random larger DAGs, under several hash seeds; PDAG.to_dag returned a consistent extension "
            "for every extendable mixed graph on 4 nodes and for random larger PDAGs - except for the listed known "
            "findings.",
    "note": "trusted base: path-based d-separation oracle, equivalence-class enumeration, brute-force extendability",
    "technique": "runtime monitoring: oracle-as-ci_test, instrumented graph recording every orientation event, "
                 "reference-model comparison, bounded-exhaustive enumeration",
}

VARIANTS = ["orig", "stable", "parallel"]
LETTERS = list("ABCDEFGHJK")
WORDS = ["smoke", "lung", "xray", "dysp", "asia", "tub", "bronc", "either", "v_8", "node 9"]

_CACHE = {}


def small_dags():
    """All labelled DAGs on index nodes 0..n-1 for n = 1..4, concatenated (572)."""
    if "small" not in _CACHE:
        out = []
        for n in (1, 2, 3, 4):
            for e in gen.all_dags(list(range(n))):
                out.append((n, e))
        assert len(out) == N_SMALL, len(out)
        _CACHE["small"] = out
    return _CACHE["small"]


def dags5():
    if "d5" not in _CACHE:
        out = gen.all_dags(list(range(5)))
        assert len(out) == N_DAG5, len(out)
        _CACHE["d5"] = out
    return _CACHE["d5"]


def mixed4(k):
    """k-th mixed graph on index nodes 0..3: base-4 digits over the 6 pairs: 0 none, 1 u->v, 2 v->u, 3 u--v."""
    pairs = [(i, j) for i in range(4) for j in range(i + 1, 4)]
    D, U = [], []
    for (i, j) in pairs:
        c = k % 4
        k //= 4
        if c == 1:
            D.append((i, j))
        elif c == 2:
            D.append((j, i))
        elif c == 3:
            U.append((i, j))
    return D, U


# ------------------------------------------------------------------ generators
def _names(rng, n, style):
    if style == "letters":
        return rng.sample(LETTERS, n)
    if style == "words":
        return rng.sample(WORDS, n)
    if style == "ints":
        base = rng.choice([0, 1, 10])
        return rng.sample(range(base, base + 10), n)
    raise ValueError(style)


def _dag_item(rng, n, idx_edges, style, modes, tier, variants=None):
    names = _names(rng, n, style)                 # names[i] = label of index node i
    order = names[:]
    rng.shuffle(order)                            # column / variable order handed to PC
    edges = [[names[u], names[v]] for (u, v) in idx_edges]
    rng.shuffle(edges)
    deg = {v: 0 for v in names}
    for u, v in edges:
        deg[u] += 1
        deg[v] += 1
    maxdeg = max(deg.values()) if deg else 0
    mcv = rng.choice(["maxdeg", "maxdeg", "n", "default" if maxdeg <= 5 else "n"])
    return {"nodes": order, "edges": edges, "modes": modes, "variants": variants or VARIANTS,
            "mcv": {"maxdeg": maxdeg, "n": n, "default": None}[mcv], "mcv_kind": mcv,
            "pdag_word": rng.choice(["pdag", "cpdag", "PDAG", "cpdag"]),
            "n_jobs2": tier == "thorough" and rng.random() < 0.15}


def _pdag_item(rng, n, D, U, style, nlabel=1):
    """D, U on index nodes; returns nlabel relabelled / reordered presentations."""
    out = []
    for _ in range(nlabel):
        names = _names(rng, n, style)
        d = [[names[u], names[v]] for (u, v) in D]
        u_ = [[names[a], names[b]] if rng.random() < 0.5 else [names[b], names[a]] for (a, b) in U]
        rng.shuffle(d)
        rng.shuffle(u_)
        order = names[:]
        rng.shuffle(order)
        out.append({"nodes": order, "dir": d, "und": u_, "add_nodes_first": rng.random() < 0.3})
    return out


def _rand_idx_dag(rng, n, dense_ok=True):
    nodes = list(range(n))
    shape = rng.choice(["er", "er", "er", "er_dense" if dense_ok else "er", "collider", "family", "chain", "fork",
                        "two_parts", "isolated", "shielded"])
    if shape == "shielded":
        # a v-structure next to shielded triples (the situation the orientation rules interact on)
        order = nodes[:]
        rng.shuffle(order)
        a, c, d, b = order[:4]
        edges = [(a, d), (c, d), (d, b), (c, b)]
        for x in order[4:]:
            y = rng.choice(order[:4])
            edges.append((y, x) if rng.random() < 0.6 else (x, y))
            if rng.random() < 0.4:
                z = rng.choice([w for w in order[:4] if w != y])
                edges.append((z, x) if (y, x) in edges else (x, z))
        try:
            gen.topo_order(nodes, edges)
            return edges
        except ValueError:
            shape = "er"
    p = rng.choice([0.25, 0.4, 0.5, 0.65])
    return gen.rand_dag_edges(rng, nodes, p=p, shape=shape, max_parents=4 if n <= 6 else 3)


def _section(tier, idx):
    for name, cnt in LAYOUT[tier]:
        if idx < cnt:
            return name, idx
        idx -= cnt
    return "rand", idx          # beyond the plan (should not happen)


def gen_case(seed, idx, tier):
    rng = gen.rng_for("C12", seed, idx)
    kind, k = _section(tier, idx)
    nlab = 3 if tier == "quick" else 5
    if kind == "dagblock":
        items = []
        sd = small_dags()
        for j in range(k * DAG_BLOCK, min(N_SMALL, (k + 1) * DAG_BLOCK)):
            n, e = sd[j]
            reps = 2 if tier == "quick" else 3
            for _ in range(reps):
                items.append(_dag_item(rng, n, e, rng.choice(["letters", "words"]), ["callable", "match"], tier))
        return {"kind": kind, "block": k, "items": items}
    if kind in ("dag5", "dag5s"):
        items = []
        d5 = dags5()
        if kind == "dag5s":            # quick tier: a seed-dependent slice of the exhaustive 5-node space
            k = (gen.rng_for("C12-slice", seed).randrange(N_DAG5BLOCKS) + 31 * k) % N_DAG5BLOCKS
        for j in range(k * DAG5_BLOCK, min(N_DAG5, (k + 1) * DAG5_BLOCK)):
            modes = ["callable"] + (["match"] if j % 8 == 0 else [])
            # every DAG sees every variant with the callable oracle
            items.append(_dag_item(rng, 5, d5[j], rng.choice(["letters", "words", "ints"]) if len(modes) == 1
                                   else rng.choice(["letters", "words"]), modes, tier))
        return {"kind": kind, "block": k, "items": items}
    if kind == "pdagblock":
        items = []
        for j in range(k * PDAG_BLOCK, (k + 1) * PDAG_BLOCK):
            D, U = mixed4(j)
            items.append({"code": j, "views": _pdag_item(rng, 4, D, U, rng.choice(["letters", "words", "ints"]), nlab)})
        return {"kind": kind, "block": k, "items": items}
    if kind == "rand":
        nmax = 7 if tier == "quick" else 8
        n = rng.choice([5, 5, 5, 6, 6, 7] if tier == "quick" else [5, 5, 6, 6, 7, 7, nmax])
        e = _rand_idx_dag(rng, n, dense_ok=n <= 6)
        style = rng.choice(["letters", "words", "ints"])
        modes = ["callable"]
        if style != "ints" and n <= (5 if tier == "quick" else 6):
            modes.append("match")
        return {"kind": kind, "items": [_dag_item(rng, n, e, style, modes, tier)]}
    if kind == "seq":
        from rv.props import C12_seq
        return C12_seq.gen_seq(rng, tier)
    if kind == "pseq":
        from rv.props import C12_seq
        return C12_seq.gen_pseq(rng, tier)
    # rpdag: random partially directed graphs on 5..7 nodes
    items = []
    for _ in range(4):
        n = rng.choice([5, 5, 6, 6, 7])
        how = rng.choice(["cpdag", "cpdag+", "dag-", "mixed", "cpdag+"])
        if how == "mixed":
            n = 5
            D, U = [], []
            for i in range(n):
                for j in range(i + 1, n):
                    c = rng.choice([0, 0, 1, 2, 3, 3])
                    if c == 1:
                        D.append((i, j))
                    elif c == 2:
                        D.append((j, i))
                    elif c == 3:
                        U.append((i, j))
        else:
            e = _rand_idx_dag(rng, n)
            nodes = list(range(n))
            if how == "dag-":
                D, U = [], []
                for (u, v) in e:
                    if rng.random() < 0.5:
                        U.append((u, v))
                    else:
                        D.append((u, v))
            else:
                dset, uset = oracle.cpdag_meek(nodes, e)
                D = [x for x in e if x in dset]
                U = [x for x in e if frozenset(x) in uset]
                if how == "cpdag+":
                    keep = []
                    for x in U:
                        if rng.random() < 0.4:
                            D.append(x)           # oriented as in the source DAG
                        else:
                            keep.append(x)
                    U = keep
        items.append({"how": how, "n": n, "views": _pdag_item(rng, n, D, U, rng.choice(["letters", "words", "ints"]),
                                                              nlab)})
    return {"kind": "rpdag", "items": items}


# ------------------------------------------------------------------ graph helpers (oracle side)
def _und(e):
    return frozenset(e)


def pdag_vstructs(D, skel):
    """v-structures of a partially directed graph: a -> c <- b both directed, a, b non-adjacent."""
    pa = {}
    for (u, v) in D:
        pa.setdefault(v, []).append(u)
    out = set()
    for c, ps in pa.items():
        ps = sorted(ps, key=repr)
        for a, b in itertools.combinations(ps, 2):
            if frozenset((a, b)) not in skel:
                out.add((frozenset((a, b)), c))
    return out


def acyclic(nodes, edges):
    try:
        gen.topo_order(list(nodes), [tuple(e) for e in edges])
        return True
    except ValueError:
        return False


def extendable_bruteforce(nodes, D, U):
    """Does an orientation of U exist that is acyclic together with D and has no v-structure beyond the PDAG's?"""
    D = [tuple(e) for e in D]
    U = [tuple(e) for e in U]
    skel = {frozenset(e) for e in D} | {frozenset(e) for e in U}
    if len(skel) != len(D) + len(U):
        return False                                   # an edge given twice / both directions: not a PDAG
    v0 = pdag_vstructs(D, skel)
    if not acyclic(nodes, D):
        return False
    for bits in itertools.product((0, 1), repeat=len(U)):
        E = D + [(u, v) if b else (v, u) for (u, v), b in zip(U, bits)]
        if acyclic(nodes, E) and pdag_vstructs(E, skel) <= v0:
            return True
    return False


def _sinks(rem, D, U, one_sided):
    """Candidate nodes of the Dor-Tarsi step on the sub-PDAG induced by `rem`.
    one_sided=True reproduces a clique test that only looks at edges Y->Z / Y--Z (for the classifier)."""
    out = []
    for x in sorted(rem, key=repr):
        if any(u == x and v in rem for (u, v) in D):
            continue
        und = {(set(e) - {x}).pop() for e in U if x in e and e <= rem}
        par = {u for (u, v) in D if v == x and u in rem}
        adjx = und | par
        ok = True
        for y in und:
            for z in adjx:
                if z == y:
                    continue
                if one_sided:
                    good = (y, z) in D or frozenset((y, z)) in U
                else:
                    good = (y, z) in D or (z, y) in D or frozenset((y, z)) in U
                if not good:
                    ok = False
        if ok:
            out.append(x)
    return out


def extendable_dt(nodes, D, U):
    """Own Dor-Tarsi with the two-sided adjacency test (any valid sink may be taken)."""
    D = {tuple(e) for e in D}
    U = {frozenset(e) for e in U}
    rem = set(nodes)
    while rem:
        s = _sinks(rem, D, U, one_sided=False)
        if not s:
            return False
        rem.discard(s[0])
    return True


def one_sided_stuck_reachable(nodes, D, U):
    """Structural classifier for the to_dag defect: is there an elimination sequence, legal under the one-sided
    clique test, that reaches a state where the one-sided test finds no node although the two-sided test does?"""
    D = {tuple(e) for e in D}
    U = {frozenset(e) for e in U}
    start = frozenset(nodes)
    seen = {start}
    stack = [start]
    while stack:
        rem = stack.pop()
        if not rem:
            continue
        s1 = _sinks(rem, D, U, True)
        if not s1:
            if _sinks(rem, D, U, False):
                return True
            continue
        for x in s1:
            nxt = rem - {x}
            if nxt not in seen:
                seen.add(nxt)
                stack.append(nxt)
    return False


def truth_cpdag(nodes, edges, by_enum):
    """(directed set, undirected frozenset set) of the ground-truth CPDAG on the given labels."""
    idx = {v: i for i, v in enumerate(nodes)}
    ie = tuple(sorted((idx[u], idx[v]) for (u, v) in edges))
    inodes = list(range(len(nodes)))
    if by_enum:
        d, u = oracle.cpdag_by_enumeration(inodes, ie)
    else:
        d, u = oracle.cpdag_meek(inodes, ie)
    return ({(nodes[a], nodes[b]) for (a, b) in d}, {frozenset(nodes[x] for x in e) for e in u})


# ------------------------------------------------------------------ CI oracle (= the monitor of CI questions)
class CIOracle:
    def __init__(self, ds):
        self.ds = ds
        self.cache = {}
        self.asked = 0
        self.bad = []

    def answer(self, x, y, Z):
        key = (frozenset((x, y)), frozenset(Z))
        if key not in self.cache:
            self.cache[key] = self.ds.dsep(x, y, set(Z))
        return self.cache[key]

    def __call__(self, X, Y, Z, **kw):
        self.asked += 1
        Z = tuple(Z)
        if X == Y or X in Z or Y in Z:
            self.bad.append((X, Y, Z))
            return False
        return self.answer(X, Y, Z)


# ------------------------------------------------------------------ instrumented graph (orientation events)
def _log_classes():
    if "log" in _CACHE:
        return _CACHE["log"]
    import networkx as nx

    class LogDiGraph(nx.DiGraph):
        rec = None

        def remove_edge(self, u, v):
            if LogDiGraph.rec is not None:
                LogDiGraph.rec.append(("one", [(u, v)], frozenset(self.edges())))
            return super().remove_edge(u, v)

        def remove_edges_from(self, ebunch):
            ebunch = list(ebunch)
            if LogDiGraph.rec is not None:
                LogDiGraph.rec.append(("many", [tuple(e[:2]) for e in ebunch], frozenset(self.edges())))
            return super().remove_edges_from(ebunch)

    class LogGraph(nx.Graph):
        def to_directed_class(self):
            return LogDiGraph

    _CACHE["log"] = (LogGraph, LogDiGraph)
    return _CACHE["log"]


def classify_events(events, tdir):
    """First orientation event that contradicts the true CPDAG -> (mechanism key suffix or None, description).
    An event removes (a, b); if (b, a) stays the edge becomes b -> a.  State E = edge set before the event."""
    for kind, pairs, E in events:
        cur = set(E)
        for (a, b) in pairs:
            if (a, b) not in cur:
                continue
            if (b, a) not in cur:
                return None, f"edge {a!r}-{b!r} deleted entirely during orientation ({kind})"
            if (b, a) in tdir:
                cur.discard((a, b))
                continue
            # wrong orientation b -> a
            if kind == "many":
                return None, f"collider phase oriented {b!r}->{a!r}, true CPDAG does not"
            nodes = {x for e in cur for x in e} - {a, b}

            def has(x, y):
                return (x, y) in cur

            def und(x, y):
                return has(x, y) and has(y, x)

            def dr(x, y):
                return has(x, y) and not has(y, x)

            # pgmpy rule "X->Z--Y => Z->Y" (Z=b, Y=a) guarded by `not has_edge(X, Y)` only
            r1_adj = [X for X in nodes if dr(X, b) and und(a, b) and not has(X, a) and has(a, X)]
            # pgmpy rule "X--Z--Y, X->W<-Y, Z--W => Z->W" (Z=b, W=a) without X, Y non-adjacency
            r3_adj = [(X, Y) for X in nodes for Y in nodes if X != Y and und(X, b) and und(Y, b) and dr(X, a)
                      and dr(Y, a) and und(a, b) and (has(X, Y) or has(Y, X))]
            # a directed path b => a would justify b -> a (sound); report if none of the unguarded patterns match
            if r1_adj:
                return ("r1-fires-on-adjacent-pair",
                        f"oriented {b!r}->{a!r} from {r1_adj[0]!r}->{b!r}--{a!r} although {a!r}->{r1_adj[0]!r} exists "
                        f"(pair is adjacent)")
            if r3_adj:
                return ("r3-fires-on-adjacent-pair",
                        f"oriented {b!r}->{a!r} from {r3_adj[0]!r} although the two parents are adjacent")
            return None, f"oriented {b!r}->{a!r} with no recognised unguarded rule instance"
    return None, "no orientation event contradicts the true CPDAG"


def read_pdag(p):
    """(nodes, directed set, undirected frozenset set) through the graph view of a PDAG."""
    nodes = set(p.nodes())
    es = set(p.edges())
    d = {(u, v) for (u, v) in es if (v, u) not in es}
    u = {frozenset((a, b)) for (a, b) in es if (b, a) in es}
    return nodes, d, u


def call_sites():
    """{site: (filename, {line numbers})} of the two one-directional adjacency tests, located in the source text
    of the *loaded* functions.  The source file is accepted only if compiling it reproduces the byte code of the
    loaded function (guards against the tree changing under a running worker)."""
    if "sites" in _CACHE:
        return _CACHE["sites"]
    from pgmpy.base import PDAG
    from pgmpy.estimators.PC import PC

    def find(code, name, first):
        if code.co_name == name and code.co_firstlineno == first:
            return code
        for c in code.co_consts:
            if hasattr(c, "co_code"):
                r = find(c, name, first)
                if r is not None:
                    return r
        return None

    def nested_lines(code):
        out = {ln for (_, _, ln) in code.co_lines() if ln is not None}
        for c in code.co_consts:
            if hasattr(c, "co_code"):
                out |= nested_lines(c)
        return out

    out = {}
    for site, fn, needle in (("r1", PC.skeleton_to_pdag, "if not pdag.has_edge(X, Y)"),
                             ("clique", PDAG.to_dag, "pdag.has_edge(Y, Z)")):
        code = fn.__code__
        with open(code.co_filename) as fh:
            src = fh.read()
        twin = find(compile(src, code.co_filename, "exec", dont_inherit=True), code.co_name, code.co_firstlineno)
        if twin is None or twin.co_code != code.co_code:
            raise AssertionError(f"{code.co_filename} changed on disk after it was imported; run is not meaningful")
        span = nested_lines(code)
        lines = src.splitlines()
        out[site] = (code.co_filename, {ln for ln in span if lines[ln - 1].strip().startswith(needle)})
    _CACHE["sites"] = out
    return out


class Neutral:
    """Confirmation of a classified mechanism by re-running the same call with the triggering feature
    neutralised: while active, the two one-directional adjacency tests named in the known findings
      site "r1"     PC.skeleton_to_pdag   `if not pdag.has_edge(X, Y)`      (guard of rule X->Z--Y => Z->Y)
      site "clique" PDAG.to_dag           `pdag.has_edge(Y, Z)`             (Dor-Tarsi clique test)
    see an edge in either direction.  Implemented from outside by a call-site aware nx.DiGraph.has_edge;
    `hits` counts how often a one-directional answer was overridden (0 => nothing neutralised)."""

    def __init__(self, sites):
        self.sites = set(sites)
        self.hits = 0

    def __enter__(self):
        import sys
        import networkx as nx
        self._nx = nx
        self._own = nx.DiGraph.__dict__.get("has_edge")       # None: inherited from nx.Graph
        orig = nx.DiGraph.has_edge
        me = self
        sites = {k: v for k, v in call_sites().items() if k in self.sites}
        where = {(fn, ln) for (fn, lns) in sites.values() for ln in lns}

        def has_edge(g, u, v):
            r = orig(g, u, v)
            if r:
                return r
            f = sys._getframe(1)
            if (f.f_code.co_filename, f.f_lineno) in where and orig(g, v, u):
                me.hits += 1
                return True
            return r

        nx.DiGraph.has_edge = has_edge
        return self

    def __exit__(self, *a):
        if self._own is None:
            del self._nx.DiGraph.has_edge
        else:
            self._nx.DiGraph.has_edge = self._own
        return False


K_R1 = "c12:r1-fires-on-adjacent-pair"
K_CLIQUE = "c12:todag-one-sided-clique-test"


# ------------------------------------------------------------------ setup: cross-check the shared Meek oracle
def setup(ctx):
    bad = 0
    for n, e in small_dags():
        nodes = list(range(n))
        if oracle.cpdag_meek(nodes, e) != oracle.cpdag_by_enumeration(nodes, e):
            bad += 1
    if bad:
        raise AssertionError(f"oracle.cpdag_meek disagrees with class enumeration on {bad} small DAGs")
    sites = call_sites()
    ctx._c12_sites = {k: sorted(v[1]) for k, v in sites.items()}
    ctx._c12 = {"meek_crosschecked": N_SMALL, "dt_crosschecked": 0, "fallback_on_extendable": 0, "ci_questions": 0}
    if ctx.tier == "thorough" and os.environ.get("RV_C12_MEEK5", "1") == "1":
        import random
        r = random.Random(12)
        d5 = dags5()
        nodes = list(range(5))
        for j in r.sample(range(N_DAG5), 1500):
            if oracle.cpdag_meek(nodes, d5[j]) != oracle.cpdag_by_enumeration(nodes, d5[j]):
                raise AssertionError(f"oracle.cpdag_meek disagrees with enumeration on 5-node DAG #{j}")
        ctx._c12["meek_crosschecked"] += 1500


def teardown(ctx):
    return {"c12": dict(getattr(ctx, "_c12", {}))}


# ------------------------------------------------------------------ PC on one ground-truth DAG
def _frame(nodes):
    import pandas as pd
    return pd.DataFrame(data=[[0] * len(nodes)], columns=list(nodes))


def _exc(ctx, r, what, **detail):
    ctx.violation(f"c12:exception:{r.type}@{r.where}", f"{what} raised {r!r}", **detail)


def check_dag_item(ctx, item, tier):
    from pgmpy.base import DAG, PDAG
    from pgmpy.estimators import PC
    from pgmpy.independencies import Independencies

    nodes = list(item["nodes"])
    edges = [tuple(e) for e in item["edges"]]
    n = len(nodes)
    ds = oracle.DSep(nodes, edges)
    skel = oracle.skeleton(edges)
    pairs = [frozenset(p) for p in itertools.combinations(nodes, 2)]
    nonadj = {p for p in pairs if p not in skel}
    tdir, tund = truth_cpdag(nodes, edges, by_enum=(n <= 4 or (n == 5 and tier == "thorough")))
    tvs = oracle.vstructures(nodes, edges)
    deg0 = {v for v in nodes if not any(v in e for e in edges)}
    ci = CIOracle(ds)
    if tdir:
        ctx.feature("compelled-edges")
    if tund:
        ctx.feature("reversible-edges")
    if tdir and tund:
        ctx.feature("mixed-cpdag")
    ctx.feature(f"n={n}")
    ctx.feature(f"mcv:{item['mcv_kind']}")
    kw = dict(show_progress=False)
    if item["mcv"] is not None:
        kw["max_cond_vars"] = item["mcv"]
    det0 = dict(nodes=nodes, edges=edges, mcv=item["mcv"])
    skel_digest = []

    for mode in item["modes"]:
        has_data = True
        if mode == "callable":
            ci_arg = ci

            def make():
                return PC(data=_frame(nodes))
        else:
            triples = []
            for p in pairs:
                x, y = sorted(p, key=nodes.index)
                rest = [v for v in nodes if v not in p]
                for k in range(len(rest) + 1):
                    for Z in itertools.combinations(rest, k):
                        if ci.answer(x, y, Z):
                            triples.append([x, y, list(Z)])
            covered = {v for t in triples for v in [t[0], t[1]] + t[2]}
            ci_arg = "independence_match"
            if covered == set(nodes):
                has_data = False

                def make():
                    return PC(independencies=Independencies(*triples))
            else:
                ctx.feature("match:variables-from-frame")

                def make():
                    return PC(data=_frame(nodes), independencies=Independencies(*triples))
        for variant in item["variants"]:
            det = dict(det0, mode=mode, variant=variant)
            label = f"PC[{mode},{variant}]"
            nj = 1
            if variant == "parallel" and item.get("n_jobs2"):
                nj = 2
            est = ctx.call(make)
            if ctx.failed(est):
                _exc(ctx, est, f"{label} constructor", **det)
                continue

            def run(rt):
                if nj == 2:
                    import joblib
                    with joblib.parallel_backend("threading"):
                        return ctx.call(est.estimate, variant=variant, ci_test=ci_arg, return_type=rt, n_jobs=2, **kw)
                return ctx.call(est.estimate, variant=variant, ci_test=ci_arg, return_type=rt, n_jobs=1, **kw)

            # ---------- skeleton + separating sets
            r = run("skeleton")
            sk_obj = seps = None
            if ctx.failed(r):
                _exc(ctx, r, f"{label}.estimate(skeleton)", **det)
            else:
                try:
                    sk_obj, seps = r
                    got_nodes = set(sk_obj.nodes())
                    got_skel = {frozenset(e) for e in sk_obj.edges()}
                    got_keys = set(seps.keys())
                    sep_vals = {k: tuple(v) for k, v in seps.items()}
                except Exception as e:
                    ctx.violation("c12:malformed-result", f"{label}: cannot read skeleton result: {e!r}", **det)
                    sk_obj = None
                else:
                    ctx.expect(got_nodes == set(nodes), "c12:wrong-node-set",
                               f"{label}: skeleton nodes {sorted(map(repr, got_nodes))} != {sorted(map(repr, nodes))}", **det)
                    ok = ctx.expect(got_skel == skel, "c12:wrong-skeleton",
                                    f"{label}: skeleton differs: spurious {sorted(map(sorted, got_skel - skel))}, "
                                    f"missing {sorted(map(sorted, skel - got_skel))}", **det)
                    skel_digest.append(sorted(sorted(map(repr, e)) for e in got_skel) if not ok else "ok")
                    ctx.expect(got_keys == nonadj, "c12:sepset-keys",
                               f"{label}: separating sets stored for {len(got_keys)} pairs, non-adjacent pairs are "
                               f"{len(nonadj)}: extra {[sorted(map(repr, k)) for k in got_keys - nonadj][:3]}, "
                               f"missing {[sorted(map(repr, k)) for k in nonadj - got_keys][:3]}", **det)
                    for k, Z in sep_vals.items():
                        if not (isinstance(k, frozenset) and len(k) == 2 and k <= set(nodes)):
                            ctx.violation("c12:sepset-keys", f"{label}: odd separating-set key {k!r}", **det)
                            continue
                        x, y = tuple(k)
                        good = x not in Z and y not in Z and set(Z) <= set(nodes) and ds.dsep(x, y, set(Z))
                        ctx.expect(good, "c12:wrong-sepset",
                                   f"{label}: stored separating set {Z!r} for {x!r},{y!r} does not d-separate them", **det)

            # ---------- instrumented replay of the orientation phase on the skeleton this variant returned
            replay = None
            why = (None, "no replay")
            r1_structural = False            # first wrong orientation event has the shape of the r1 defect
            if sk_obj is not None:
                LogGraph, LogDiGraph = _log_classes()
                try:
                    sk_obj.__class__ = LogGraph
                    LogDiGraph.rec = []
                    rr = ctx.call(PC.skeleton_to_pdag, sk_obj, seps)
                    events, LogDiGraph.rec = LogDiGraph.rec, None
                finally:
                    LogDiGraph.rec = None
                if ctx.failed(rr):
                    _exc(ctx, rr, f"{label}: PC.skeleton_to_pdag", **det)
                else:
                    try:
                        replay = read_pdag(rr)
                    except Exception as e:
                        ctx.violation("c12:malformed-result", f"{label}: cannot read skeleton_to_pdag result: {e!r}", **det)
                    if replay is not None and got_skel == skel:
                        ctx.note("orientation-events", len(events))
                        if (replay[1], replay[2]) != (tdir, tund):
                            why = classify_events(events, tdir)
                            r1_structural = why[0] == "r1-fires-on-adjacent-pair"
                            k = "c12:wrong-cpdag"
                            if r1_structural:
                                # confirm: same call with the one-directional guard neutralised must be exact
                                with Neutral({"r1"}) as nt:
                                    r2 = ctx.call(PC.skeleton_to_pdag, sk_obj, seps)
                                try:
                                    if not ctx.failed(r2) and nt.hits > 0 and read_pdag(r2)[1:] == (tdir, tund):
                                        k = K_R1
                                except Exception:
                                    pass
                            ctx.violation(k, f"{label}: PC.skeleton_to_pdag != CPDAG: got directed "
                                          f"{sorted(replay[1], key=repr)} undirected {sorted(map(sorted, replay[2]))}; expected "
                                          f"directed {sorted(tdir, key=repr)} undirected {sorted(map(sorted, tund))}; "
                                          f"first wrong event: {why[1]}", **det)
                        else:
                            ctx.ok()

            # ---------- partially directed result
            r = run(item["pdag_word"])
            got = None
            if ctx.failed(r):
                _exc(ctx, r, f"{label}.estimate({item['pdag_word']})", **det)
            else:
                try:
                    if not isinstance(r, PDAG):
                        raise TypeError(f"result is {type(r).__name__}, not PDAG")
                    got = read_pdag(r)
                    attr_d = {tuple(e) for e in r.directed_edges}
                    attr_u = {frozenset(e) for e in r.undirected_edges}
                except Exception as e:
                    ctx.violation("c12:malformed-result", f"{label}: cannot read PDAG result: {e!r}", **det)
                    got = None
            if got is not None:
                gn, gd, gu = got
                if (gd, gu) == (tdir, tund):
                    ctx.ok()
                    ctx.expect(attr_d == gd and attr_u == gu, "c12:pdag-assembly-inconsistent",
                               f"{label}: PDAG.directed_edges/undirected_edges {sorted(attr_d, key=repr)} / "
                               f"{sorted(map(sorted, attr_u))} disagree with its graph", **det)
                else:
                    k = "c12:wrong-cpdag"
                    if r1_structural:
                        with Neutral({"r1"}) as nt:
                            r2 = run(item["pdag_word"])
                        try:
                            if not ctx.failed(r2) and nt.hits > 0 and read_pdag(r2)[1:] == (tdir, tund):
                                k = K_R1
                        except Exception:
                            pass
                    gvs = pdag_vstructs(gd, skel)
                    parts = []
                    if {frozenset(e) for e in gd} | gu != skel:
                        parts.append("skeleton changed")
                    if not acyclic(nodes, gd):
                        parts.append("directed cycle")
                    if gvs - tvs:
                        parts.append(f"spurious v-structure {sorted(map(repr, gvs - tvs))[:2]}")
                    if tvs - gvs:
                        parts.append(f"missing v-structure {sorted(map(repr, tvs - gvs))[:2]}")
                    if tdir - gd:
                        parts.append(f"compelled edge not oriented {sorted(tdir - gd, key=repr)[:3]}")
                    if gd - tdir:
                        parts.append(f"edge oriented that is reversible or opposite {sorted(gd - tdir, key=repr)[:3]}")
                    ctx.violation(k, f"{label}: {item['pdag_word']} result is not the CPDAG: " + "; ".join(parts) +
                                  f"; got directed {sorted(gd, key=repr)} undirected {sorted(map(sorted, gu))}; "
                                  f"mechanism: {why[1]}", **det)
                if gn != set(nodes):
                    miss = set(nodes) - gn
                    k = "c12:isolated-nodes-dropped" if (gn <= set(nodes) and miss <= deg0 and not has_data) \
                        else "c12:wrong-node-set"
                    ctx.violation(k, f"{label}: {item['pdag_word']} result lacks nodes {sorted(map(repr, miss))} "
                                  f"/ has extra {sorted(map(repr, gn - set(nodes)))}", **det)
                else:
                    ctx.ok()

            # ---------- fully directed result
            def dag_problems(r):
                if not isinstance(r, DAG):
                    raise TypeError(f"result is {type(r).__name__}, not DAG")
                dn = set(r.nodes())
                de = [tuple(e) for e in r.edges()]
                dsk = {frozenset(e) for e in de}
                problems = []
                if len(dsk) != len(de) or not acyclic(dn | set(nodes), de):
                    problems.append("directed cycle")
                if dsk != skel:
                    problems.append("skeleton differs")
                dvs = oracle.vstructures(list(nodes), de) if dn <= set(nodes) else set()
                if dvs != tvs:
                    problems.append(f"v-structures differ: spurious {sorted(map(repr, dvs - tvs))[:2]} missing "
                                    f"{sorted(map(repr, tvs - dvs))[:2]}")
                return dn, de, problems

            r = run("dag")
            if ctx.failed(r):
                _exc(ctx, r, f"{label}.estimate(dag)", **det)
            else:
                try:
                    dn, de, problems = dag_problems(r)
                except Exception as e:
                    ctx.violation("c12:malformed-result", f"{label}: cannot read DAG result: {e!r}", **det)
                else:
                    if problems:
                        # structural preconditions of the two known mechanisms, each confirmed by a neutralised re-run
                        k = "c12:wrong-dag"
                        clique_structural = one_sided_stuck_reachable(nodes, tdir, tund)
                        tries = []
                        if r1_structural:
                            tries.append(({"r1"}, K_R1))
                        if clique_structural:
                            tries.append(({"clique"}, K_CLIQUE))
                        if r1_structural and clique_structural:
                            tries.append(({"r1", "clique"}, K_R1))
                        for sites, key in tries:
                            with Neutral(sites) as nt:
                                r2 = run("dag")
                            try:
                                if not ctx.failed(r2) and nt.hits > 0 and not dag_problems(r2)[2]:
                                    k = key
                                    break
                            except Exception:
                                pass
                        ctx.violation(k, f"{label}: dag result is not Markov equivalent to the truth: "
                                      + "; ".join(problems) + f"; got {sorted(de, key=repr)}", **det)
                    else:
                        ctx.ok()
                    if dn != set(nodes):
                        miss = set(nodes) - dn
                        k = "c12:isolated-nodes-dropped" if (dn <= set(nodes) and miss <= deg0 and not has_data) \
                            else "c12:wrong-node-set"
                        ctx.violation(k, f"{label}: dag result lacks nodes {sorted(map(repr, miss))} / has extra "
                                      f"{sorted(map(repr, dn - set(nodes)))}", **det)
                    else:
                        ctx.ok()
    ctx._c12["ci_questions"] += ci.asked
    ctx.note("ci-questions", ci.asked)
    if ci.bad:
        ctx.note("ci-questions-degenerate", len(ci.bad))
    return skel_digest


# ------------------------------------------------------------------ PDAG.to_dag
def confirm_todag(ctx, build, judge):
    """Known clique-test mechanism confirmed: the same PDAG through to_dag with the clique test made two-sided
    yields a consistent extension."""
    with Neutral({"clique"}) as nt:
        p = ctx.call(build)
        r2 = None if ctx.failed(p) else ctx.call(p.to_dag)
    try:
        ok = r2 is not None and not ctx.failed(r2) and nt.hits > 0 and not judge(r2)
    except Exception as e:
        ctx.last_confirm = f"confirm raised {e!r}"
        return False
    ctx.last_confirm = f"hits={nt.hits} r2={r2!r} problems={None if r2 is None or ctx.failed(r2) else judge(r2)}"
    return ok


def call_to_dag(ctx, pdag):
    """pdag.to_dag() with the pgmpy logger observed: returns (result, fallback_branch_taken)."""
    import logging
    from pgmpy.global_vars import logger
    msgs = []

    class H(logging.Handler):
        def emit(self, record):
            msgs.append(record.getMessage())

    h = H(level=logging.DEBUG)
    prev_disable = logging.root.manager.disable
    prev_prop, prev_level = logger.propagate, logger.level
    logging.disable(logging.NOTSET)
    logger.addHandler(h)
    logger.propagate = False
    if logger.level > logging.WARNING or logger.level == 0:
        logger.setLevel(logging.WARNING)
    try:
        r = ctx.call(pdag.to_dag)
    finally:
        logger.removeHandler(h)
        logger.propagate = prev_prop
        logger.setLevel(prev_level)
        logging.disable(prev_disable)
    return r, any("no faithful extension" in m for m in msgs)


def check_pdag_view(ctx, view, ext, label):
    """One presentation of one extendable PDAG through PDAG(...).to_dag()."""
    from pgmpy.base import DAG, PDAG
    nodes = list(view["nodes"])
    D = [tuple(e) for e in view["dir"]]
    U = [tuple(e) for e in view["und"]]
    det = dict(nodes=nodes, directed=D, undirected=U)

    def build():
        p = PDAG(directed_ebunch=list(D), undirected_ebunch=list(U))
        p.add_nodes_from(nodes)
        return p

    p = ctx.call(build)
    if ctx.failed(p):
        return _exc(ctx, p, f"{label}: PDAG constructor", **det)
    skel = {frozenset(e) for e in D} | {frozenset(e) for e in U}
    v0 = pdag_vstructs(D, skel)

    def judge(r):
        """list of problems of a to_dag result (raises if the result cannot be read)."""
        if not isinstance(r, DAG):
            raise TypeError(f"result is {type(r).__name__}")
        rn = set(r.nodes())
        re_ = [tuple(e) for e in r.edges()]
        rsk = {frozenset(e) for e in re_}
        problems = []
        if len(rsk) != len(re_) or not acyclic(rn | set(nodes), re_):
            problems.append("result has a directed cycle")
        if rsk != skel:
            problems.append(f"skeleton changed: extra {sorted(map(sorted, rsk - skel))[:3]} missing "
                            f"{sorted(map(sorted, skel - rsk))[:3]}")
        if not set(D) <= set(re_):
            problems.append(f"directed edges lost/reversed: {sorted(set(D) - set(re_), key=repr)[:3]}")
        newv = pdag_vstructs(re_, rsk | skel) - v0
        if newv:
            problems.append(f"new v-structure {sorted(map(repr, newv))[:2]}")
        return problems

    r, fallback = call_to_dag(ctx, p)
    if fallback:
        ctx.note("todag-fallback-branch-on-extendable")
        ctx._c12["fallback_on_extendable"] += 1
    if ctx.failed(r):
        return _exc(ctx, r, f"{label}: PDAG.to_dag", **det)
    try:
        problems = judge(r)
        rn = set(r.nodes())
        re_ = [tuple(e) for e in r.edges()]
    except Exception as e:
        return ctx.violation("c12:malformed-result", f"{label}: cannot read to_dag result: {e!r}", **det)
    if problems:
        k = "c12:todag-wrong-extension"
        # structural: the 'no faithful extension' branch was taken on an extendable PDAG and an elimination order
        # exists on which only the one-sided clique test gets stuck; confirmed by the two-sided re-run
        if fallback and one_sided_stuck_reachable(nodes, D, U) and confirm_todag(ctx, build, judge):
            k = K_CLIQUE
        ctx.violation(k, f"{label}: to_dag on an extendable PDAG: " + "; ".join(problems) +
                      f"; result {sorted(re_, key=repr)}; fallback branch taken: {fallback}",
                      confirm=getattr(ctx, "last_confirm", None), **det)
    else:
        ctx.ok()
    ctx.expect(rn == set(nodes), "c12:wrong-node-set",
               f"{label}: to_dag result nodes {sorted(map(repr, rn))} != {sorted(map(repr, nodes))}", **det)


def check_pdag_item(ctx, it, crosscheck):
    v0 = it["views"][0]
    nodes = list(v0["nodes"])
    D = [tuple(e) for e in v0["dir"]]
    U = [tuple(e) for e in v0["und"]]
    if len(U) <= 10:
        ext = extendable_bruteforce(nodes, D, U)
        if crosscheck:
            if extendable_dt(nodes, D, U) != ext:
                raise AssertionError(f"own Dor-Tarsi disagrees with brute force on D={D} U={U}")
            ctx._c12["dt_crosschecked"] += 1
    else:
        ext = extendable_dt(nodes, D, U)
    if not ext:
        ctx.note("pdag-not-extendable")
        return False, False
    ctx.note("pdag-extendable")
    for j, view in enumerate(it["views"]):
        check_pdag_view(ctx, view, ext, f"PDAG[{it.get('code', it.get('how'))}/view{j}]")
    return True, bool(U)


# ------------------------------------------------------------------ run
def run_case(spec, ctx):
    from rv.gen import spec_digest
    if not hasattr(ctx, "_c12"):
        setup(ctx)
    kind = spec["kind"]
    ctx.feature(f"kind:{kind}")
    if kind in ("dagblock", "dag5", "dag5s", "rand"):
        digests = []
        nt = False
        for item in spec["items"]:
            digests.append(check_dag_item(ctx, item, ctx.tier))
            if len(item["nodes"]) >= 3 and item["edges"]:
                nt = True
        ctx.nontrivial = nt
        ctx.xcell["skeletons"] = spec_digest(digests)
    elif kind == "seq":
        from rv.props import C12_seq
        C12_seq.run_seq(spec, ctx)
    elif kind == "pseq":
        from rv.props import C12_seq
        C12_seq.run_pseq(spec, ctx)
    else:
        nt = False
        for it in spec["items"]:
            ext, hasu = check_pdag_item(ctx, it, crosscheck=True)
            if ext and hasu:
                nt = True
        ctx.nontrivial = nt
