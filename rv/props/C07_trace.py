"""C07 trace monitor: recording wrappers around the names the samplers draw through.

pgmpy.sampling.Sampling imports `sample_discrete` / `sample_discrete_maps` by name; the two
module attributes are replaced by wrappers that delegate to the originals and record, per
call, the node being generated (caller's local `node` / `var`), the probability vectors that
were passed, the row -> vector index and the numbers drawn.  While the original helper runs,
`numpy.random.choice` is spied on so that the helper itself (grouping of rows by weight
index, weight adjustment) is checked against the vectors it was handed.
`BayesianModelSampling.forward_sample` is wrapped to mark batch boundaries (the rejection loop
calls it repeatedly) and to keep every batch's returned frame.
Nothing is recorded, and nothing but a delegation happens, outside a `Session`.
"""
import functools
import inspect
import sys

import numpy as np


class Runaway(RuntimeError):
    """Raised inside the sampler when a rejection loop exceeds the batch budget."""


class _State:
    installed = False
    helper_rtol = 1e-9
    session = None
    counts = {"sample_discrete": 0, "sample_discrete_maps": 0, "forward_batches": 0, "choice_calls": 0,
              "helper_groups_verified": 0}


ST = _State()


def _np(x):
    try:
        import torch
        if isinstance(x, torch.Tensor):
            return x.detach().cpu().numpy()
    except Exception:
        pass
    return np.asarray(x)


class Session:
    def __init__(self, max_batches=200, max_rows=300000):
        self.max_rows = max_rows
        self.rows = 0
        self.batches = []        # forward_sample invocations, in order
        self.stack = []
        self.loose = []          # helper calls made outside forward_sample (LW, Gibbs)
        self.max_batches = max_batches

    def __enter__(self):
        self.prev = ST.session
        ST.session = self
        return self

    def __exit__(self, *a):
        ST.session = self.prev
        return False


class _ChoiceSpy:
    def __enter__(self):
        self.calls = []
        self.orig = np.random.choice
        spy_self = self

        def spy(a, size=None, replace=True, p=None):
            out = spy_self.orig(a, size=size, replace=replace, p=p)
            ST.counts["choice_calls"] += 1
            spy_self.calls.append((np.array(_np(a)).copy(), None if p is None else np.array(_np(p), dtype=float).copy(),
                                   np.atleast_1d(np.array(out)).copy()))
            return out

        np.random.choice = spy
        return self.calls

    def __exit__(self, *a):
        np.random.choice = self.orig
        return False


def _verify_helper(widx, wtab, out, calls, k):
    """Every group of rows sharing one probability vector must have been drawn by one
    numpy.random.choice(range(k), size=|group|, p=that vector) whose output landed on
    exactly those rows in order.  Returns a list of problem strings."""
    probs = []
    out = np.asarray(out)
    if out.shape != widx.shape:
        return [f"helper returned shape {out.shape} for {widx.shape[0]} rows"]
    used = [False] * len(calls)
    for w in np.unique(widx):
        rows = np.nonzero(widx == w)[0]
        p = wtab[int(w)]
        hit = False
        for ci, (a, pc, oc) in enumerate(calls):
            if used[ci] or pc is None or pc.shape != p.shape or oc.shape != (len(rows),):
                continue
            if list(a.tolist()) != list(range(k)):
                continue
            if not np.allclose(pc, p, atol=1e-30, rtol=ST.helper_rtol):
                continue
            if not np.array_equal(out[rows], oc):
                continue
            used[ci] = True
            hit = True
            break
        if hit:
            ST.counts["helper_groups_verified"] += 1
        else:
            probs.append(f"no numpy.random.choice(range({k}), size={len(rows)}, p={np.round(p, 6).tolist()}) call "
                         f"accounts for the rows with weight index {int(w)} (calls seen: "
                         f"{[(c[0].tolist(), None if c[1] is None else np.round(c[1], 6).tolist(), len(c[2])) for c in calls][:4]})")
            if len(probs) >= 3:
                break
    return probs


def _caller_info():
    fr = sys._getframe(2)
    loc = fr.f_locals
    node = loc.get("node", loc.get("var"))
    return node, fr.f_code.co_name


def _record(ev):
    ses = ST.session
    if ses.stack:
        ses.stack[-1]["events"].append(ev)
    else:
        ses.loose.append(ev)


def install():
    if ST.installed:
        return
    import pgmpy.sampling.Sampling as S

    o_disc, o_maps = S.sample_discrete, S.sample_discrete_maps

    def w_disc(values, weights, size=1, seed=None):
        if ST.session is None:
            return o_disc(values, weights, size, seed)
        node, caller = _caller_info()
        W = np.array(_np(weights), dtype=float, copy=True)
        k = len(list(values))
        with _ChoiceSpy() as calls:
            out = o_disc(values, weights, size, seed)
        ST.counts["sample_discrete"] += 1
        o = np.array(_np(out)).copy()
        n = int(o.shape[0]) if o.ndim else 1
        if W.ndim == 1:
            widx = np.zeros(n, dtype=int)
            wtab = W.reshape(1, -1)
            helper = _verify_helper(widx, wtab, o.reshape(-1), calls, k)
        else:                                   # per-row weight matrix (not used by the samplers)
            wtab, widx = np.unique(W, axis=0, return_inverse=True)
            widx = np.asarray(widx).reshape(-1)
            helper = _verify_helper(widx, wtab, o.reshape(-1), calls, k)
        _record({"kind": "disc", "node": node, "caller": caller, "size": size, "widx": widx, "wtab": wtab,
                 "out": o.reshape(-1), "helper": helper, "values": list(_np(values).tolist())})
        return out

    def w_maps(states, weight_indices, index_to_weight, size=1, seed=None):
        if ST.session is None:
            return o_maps(states, weight_indices, index_to_weight, size, seed)
        node, caller = _caller_info()
        wi = np.array(_np(weight_indices)).astype(int).reshape(-1).copy()
        keys = sorted(index_to_weight)
        pos = {kk: i for i, kk in enumerate(keys)}
        wtab = np.array([np.array(_np(index_to_weight[kk]), dtype=float) for kk in keys], dtype=float)
        k = len(list(states))
        with _ChoiceSpy() as calls:
            out = o_maps(states, weight_indices, index_to_weight, size, seed)
        ST.counts["sample_discrete_maps"] += 1
        o = np.array(_np(out)).copy().reshape(-1)
        try:
            widx = np.array([pos[int(x)] for x in wi], dtype=int)
            helper = _verify_helper(widx, wtab, o, calls, k)
        except KeyError as e:
            widx = np.zeros(len(wi), dtype=int)
            helper = [f"weight index {e} has no entry in index_to_weight"]
        _record({"kind": "maps", "node": node, "caller": caller, "size": size, "widx": widx, "wtab": wtab,
                 "out": o, "helper": helper, "values": list(np.array(list(states)).tolist())})
        return out

    S.sample_discrete = w_disc
    S.sample_discrete_maps = w_maps

    cls = S.BayesianModelSampling
    o_fwd = cls.__dict__["forward_sample"]
    sig = inspect.signature(getattr(o_fwd, "__wrapped__", o_fwd))

    @functools.wraps(o_fwd)
    def w_fwd(self, *a, **kw):
        ses = ST.session
        if ses is None:
            return o_fwd(self, *a, **kw)
        ST.counts["forward_batches"] += 1
        if len(ses.batches) >= ses.max_batches:
            raise Runaway(f"more than {ses.max_batches} forward_sample batches inside one sampler call")
        try:
            ba = sig.bind(self, *a, **kw)
            ba.apply_defaults()
            args = dict(ba.arguments)
        except Exception:
            args = {}
        try:
            ses.rows += int(args.get("size") or 0)
        except Exception:
            pass
        if ses.rows > ses.max_rows:
            raise Runaway(f"more than {ses.max_rows} forward rows requested inside one sampler call")
        b = {"events": [], "size": args.get("size"), "include_latents": args.get("include_latents"),
             "partial": args.get("partial_samples"), "seed": args.get("seed"), "model": self.model,
             "result": None, "depth": len(ses.stack)}
        ses.batches.append(b)
        ses.stack.append(b)
        try:
            r = o_fwd(self, *a, **kw)
            try:
                b["result"] = r.copy()
            except Exception:
                b["result"] = r
            return r
        finally:
            ses.stack.pop()

    cls.forward_sample = w_fwd
    ST.installed = True


def counts():
    return dict(ST.counts)
