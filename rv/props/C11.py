"""C11 - score-based structure search honours its contract.

Observe: HillClimbSearch(data, use_cache).estimate(scoring_method, start_dag, fixed_edges, tabu_length,
         max_indegree, black_list, white_list, epsilon, max_iter) -- the returned graph AND, through a wrapper
         around the generator `_legal_operations`, the recorded history (iteration, model edges, every offered
         move with its score delta, applied move); ExhaustiveSearch(data, scoring_method, use_cache).estimate() /
         .all_scores(); TreeSearch(data, root_node).estimate(estimator_type, class_node, edge_weights_fn).
Oracle : own definition of a legal single-edge move (acyclic result by own topological sort, lists, in-degree,
         fixed edges), own enumeration of all DAGs (rv.gen.all_dags) and of all labelled spanning trees (Pruefer
         sequences), own mutual information from counts.  The score function in every optimality statement is
         pgmpy's own *uncached* scorer on a fresh instance (the statement is about the score the user selected;
         the closed forms - and pgmpy's deviations from them - belong to C10).
"""
import itertools
import math
import os

from rv import gen, oracle

PLAN = {
    "quick": {"cases": 1600, "hashseeds": 3, "shards": 5, "timeout": 420, "min_nontrivial": 700},
    "thorough": {"cases": 9600, "hashseeds": 8, "shards": 2, "timeout": 3000, "min_nontrivial": 4000},
}
if os.environ.get("RV_C11_CASES"):      # development knob: only the first N cases of the same case stream
    for _t in PLAN.values():
        _t["cases"] = int(os.environ["RV_C11_CASES"])
        _t["min_nontrivial"] = min(_t["min_nontrivial"], _t["cases"] // 3)

RULE = ("case kind by index (period 8: 4 hill-climb, 3 tree, 1 exhaustive). Data: 2-6 columns (exhaustive 2-3, "
        "sometimes 4; thorough mostly 3-4), 30-400 rows (thorough up to 1000) forward-sampled from a random discrete BN "
        "(cards 2-4, rarely 1 for score search), optional duplicated column (exact score / weight ties), column dtypes "
        "int / object / category / category with an unused category, odd string column labels. Hill climbing: score "
        "k2/bdeu/bds/bic/aic as string (any case) or as StructureScore instance (ess 1/5/10, optional declared extra "
        "states), random start DAG or None (DAG or BayesianNetwork), 0-2 fixed edges, black list, white list, "
        "max_indegree None/1-3, tabu_length 0/1/2/100, epsilon 1e-4/0.5, max_iter 1/2/3/1e6, use_cache both; plus a "
        "re-run with epsilon set to an observed best delta (boundary of the stop rule). Estimator object reused: in ~40% of the hill-climb and tree cases 1-2 further estimate() calls go to the SAME HillClimbSearch / TreeSearch object with another score (method / form / ess) and option set, resp. another estimator_type / edge_weights_fn / class_node, each call judged by the full contract of its own arguments; ~60% of the exhaustive cases use one ExhaustiveSearch object for estimate(), all_scores() and a second estimate(). Exhaustive: the 5 scores or the "
        "default, use_cache both, estimate() and all_scores(). Tree: chow-liu / tan, every root incl. None, weight "
        "functions mutual_info / adjusted / normalized / 3 custom callables (incl. negative weights), data regenerated "
        "until all pairwise (for TAN: class-conditional) MI > 1e-6. non-trivial: hill climb with >= 1 recorded iteration "
        "offering >= 1 move; exhaustive search that returned; tree search on >= 3 columns that returned; distinct by "
        "digest of the whole spec")
ASSUMPTIONS = [
    "the score in optimality statements is pgmpy's own uncached scorer on a fresh instance (closed forms are C10's business)",
    "legal move = single edge addition / deletion / reversal whose result is acyclic (own topological sort), keeps fixed "
    "edges, adds no black-listed and only white-listed edges and keeps in-degree <= max_indegree at the node gaining a parent",
    "start graph = start_dag plus fixed_edges (the documented seeding); in-degree bound = max(max_indegree, in-degree there)",
    "tabu: a legal move may be withheld only if it undoes one of the last tabu_length applied moves",
    "a start_dag that already contains a black-listed edge is a contradictory request: either a graph without such an edge "
    "or a ValueError naming the black list is accepted, a returned graph containing the edge is not",
    "documented refusals asserted, not excluded: fixed_edges closing a cycle with start_dag, TAN root_node == class_node",
    "float comparisons of score deltas at 1e-8 absolute; tree weights at 1e-9 relative",
    "all n^(n-2) labelled trees (Pruefer) / all DAGs on <= 4 nodes are enumerated by the oracle",
    "sklearn's adjusted/normalized MI are trusted as definitions when the own re-implementation disagrees (counted in notes)",
]
REACH = [
    "pgmpy.estimators.HillClimbSearch:HillClimbSearch._legal_operations",
    "pgmpy.estimators.HillClimbSearch:HillClimbSearch.estimate",
    "pgmpy.estimators.ExhaustiveSearch:ExhaustiveSearch.all_dags",
    "pgmpy.estimators.ExhaustiveSearch:ExhaustiveSearch.all_scores",
    "pgmpy.estimators.ExhaustiveSearch:ExhaustiveSearch.estimate",
    "pgmpy.estimators.TreeSearch:TreeSearch.estimate",
    "pgmpy.estimators.TreeSearch:TreeSearch._get_weights",
    "pgmpy.estimators.TreeSearch:TreeSearch._get_conditional_weights",
    "pgmpy.estimators.TreeSearch:TreeSearch._create_tree_and_dag",
    "pgmpy.estimators.ScoreCache:ScoreCache.local_score",
    "pgmpy.estimators.StructureScore:StructureScore.score",
    "pgmpy.estimators.StructureScore:BDsScore.structure_prior_ratio",
]
REACH_REQUIRED = list(REACH)
MANIFEST = {
    "text": "On every generated data set and option combination the graph returned by hill climbing is an acyclic graph on "
            "the data's columns that keeps fixed edges, contains no black-listed edge, adds only white-listed edges, respects "
            "the in-degree bound, scores no lower than the start graph and (tabu list off, cap not hit) admits no legal "
            "single-edge move gaining >= epsilon; every move the search offered itself was legal with the right score delta, "
            "no legal move was withheld, the applied move was an arg-max gaining >= epsilon. Exhaustive search returned a DAG "
            "whose score equals the maximum over an independent enumeration of all DAGs and all_scores() listed exactly those "
            "DAGs, correctly scored and ordered. Chow-Liu / TAN returned a spanning arborescence from the chosen root whose "
            "weight equals the maximum over all labelled spanning trees.",
    "note": "trusts pgmpy's uncached local scores as the score function (C10 checks those), the own legal-move definition, "
            "own DAG / Pruefer enumerations and own mutual information",
    "technique": "runtime monitoring: recorded-history checker on the search's own move generator + reference-model oracle "
                 "(independent move / DAG / spanning-tree enumeration) on the API boundary, metamorphic epsilon-boundary re-run",
}

KINDS = ["hc", "tree", "hc", "ex", "tree", "hc", "tree", "hc"]
SCORES = ["k2", "bdeu", "bds", "bic", "aic"]
TOL = 1e-8

K_BLACK_START = "c11:hc:blacklisted-start-edge-kept"
K_EX_PRIOR = "c11:ex:cache-drops-structure-prior"
K_TAN_ROOT = "c11:tan:auto-root-is-class-node"
K_TAN_UNUSED = "c11:tan:unused-class-category"


# =========================================================================== generators
def _sample_rows(rng, bn, nrows):
    order = gen.topo_order(bn["nodes"], [tuple(e) for e in bn["edges"]])
    card = bn["card"]
    rows = []
    for _ in range(nrows):
        a = {}
        for v in order:
            c = bn["cpds"][v]
            j = 0
            for p in c["parents"]:
                j = j * card[p] + a[p]
            u, acc, s = rng.random(), 0.0, card[v] - 1
            for k in range(card[v]):
                acc += c["table"][k][j]
                if u < acc:
                    s = k
                    break
            a[v] = s
        rows.append([a[v] for v in bn["nodes"]])
    return rows


def mi_lists(xs, ys):
    """Natural-log mutual information of two equally long label lists, from counts."""
    n = len(xs)
    if n == 0:
        return 0.0
    cx, cy, cxy = {}, {}, {}
    for x, y in zip(xs, ys):
        cx[x] = cx.get(x, 0) + 1
        cy[y] = cy.get(y, 0) + 1
        cxy[(x, y)] = cxy.get((x, y), 0) + 1
    tot = 0.0
    for (x, y), c in cxy.items():
        tot += (c / n) * math.log(c * n / (cx[x] * cy[y]))
    return tot


def cond_weight(fn, xs, ys, cs):
    """sum_c P(c) * fn(x | c, y | c)  (the TAN edge weight for class column cs)."""
    n = len(cs)
    groups = {}
    for i, c in enumerate(cs):
        groups.setdefault(c, []).append(i)
    tot = 0.0
    for c, ix in groups.items():
        tot += (len(ix) / n) * fn([xs[i] for i in ix], [ys[i] for i in ix])
    return tot


def _column(rows, j):
    return [r[j] for r in rows]


COLNAMES = [["c0", "c1", "c2", "c3", "c4", "c5"], ["A", "B", "X y", "z", "Q1", "w"],
            ["n5", "n4", "n3", "n2", "n1", "n0"], ["b", "a", "d", "c", "f", "e"]]


def gen_data(rng, n, tier, min_card=2, need_mi=False, cls=None, dup_prob=0.12,
             kinds=("int", "int", "int", "obj", "cat", "cat_unused"), max_parents=3):
    """Data spec: cols, rows (state indices), labels per column, dtype kind per column.
    need_mi: redraw until every pairwise MI (and, with a class column, every class-conditional MI between
    two features) exceeds 1e-6 - the tree-search quantifier; mi_ok tells whether that succeeded."""
    thorough = tier == "thorough"
    cols = list(rng.choice(COLNAMES)[:n])
    if rng.random() < 0.3:
        rng.shuffle(cols)
    cards = (2, 2, 2, 3, 3, 4) if min_card >= 2 else (1, 2, 2, 2, 3, 3, 4)
    ok = False
    for _attempt in range(60):
        bn = gen.rand_bn_spec(rng, n=n, cards=cards, kind="id", names=cols, max_parents=max_parents, max_joint=10 ** 6,
                              zeros=rng.random() < 0.35, min_card=min_card,
                              shape=rng.choice(["er", "er_dense", "chain", "fork", "collider", "family", None]))
        nrows = rng.choice([30, 40, 60, 100, 150, 250, 400] + ([700, 1000] if thorough else []))
        rows = _sample_rows(rng, bn, nrows)
        dup = None
        if n >= 3 and rng.random() < dup_prob:
            a, b = rng.sample(range(n), 2)
            if cls is None or (cols[a] != cls and cols[b] != cls):
                for r in rows:
                    r[b] = r[a]
                bn["card"][cols[b]] = bn["card"][cols[a]]
                dup = [cols[a], cols[b]]
        if not need_mi:
            break
        ok = True
        k = cols.index(cls) if cls is not None else None
        for i in range(n):
            for j in range(i + 1, n):
                if not ok:
                    break
                if mi_lists(_column(rows, i), _column(rows, j)) <= 1e-6:
                    ok = False
                elif k is not None and i != k and j != k:
                    if cond_weight(mi_lists, _column(rows, i), _column(rows, j), _column(rows, k)) <= 1e-6:
                        ok = False
        if ok:
            break
    labels, kd = {}, {}
    for c in cols:
        k = bn["card"][c]
        kind = rng.choice(list(kinds))
        kd[c] = kind
        if kind == "int":
            base = rng.choice([0, 0, 1, -2, 7])
            labs = list(range(base, base + k))
            if rng.random() < 0.3:
                rng.shuffle(labs)
        else:
            labs = [f"{c}_{ch}" for ch in "abcdef"[:k]]
            if rng.random() < 0.5:
                rng.shuffle(labs)
        labels[c] = labs
    return {"cols": cols, "rows": rows, "labels": labels, "kinds": kd, "dup": dup,
            "mi_ok": bool(ok) if need_mi else None, "true_edges": bn["edges"]}


def _all_pairs(cols):
    return [(u, v) for u in cols for v in cols if u != v]


def gen_scoring(rng, data, allow_default=False):
    cols = data["cols"]
    name = rng.choice(SCORES)
    form = rng.choice(["str", "str", "inst", "inst"])
    sc = {"name": name, "form": form, "ess": 10, "extra": {}, "upper": False}
    if allow_default and rng.random() < 0.12:
        sc.update(name="k2", form="default")
        return sc
    if form == "str":
        sc["upper"] = rng.random() < 0.2
    else:
        if name in ("bdeu", "bds"):
            sc["ess"] = rng.choice([1, 5, 10])
        if rng.random() < 0.25:
            for c in rng.sample(cols, rng.randint(1, min(2, len(cols)))):
                sc["extra"][c] = 1
    return sc


def gen_hc(rng, tier):
    n = rng.choice([2, 3, 3, 4, 4, 4, 5, 5, 6])
    data = gen_data(rng, n, tier, min_card=1 if rng.random() < 0.1 else 2)
    opt = gen_hc_opt(rng, data)
    # estimator object reused: 1-2 further estimate() calls on the SAME HillClimbSearch object with another score
    # (other method, other form, other equivalent sample size) and a freshly drawn option set
    reuse = []
    if rng.random() < 0.4:
        for _ in range(rng.choice([1, 1, 2])):
            o = gen_hc_opt(rng, data)
            prev = [opt["scoring"]] + [r["scoring"] for r in reuse]
            for _try in range(8):
                if all(_score_id(o["scoring"]) != _score_id(q) for q in prev):
                    break
                o["scoring"] = gen_scoring(rng, data)
            o["use_cache"] = opt["use_cache"]      # use_cache belongs to the object
            if rng.random() < 0.5:                  # plain second call: the other score is the only difference
                o.update(black=None, white=None, fixed=[], cyclic_fixed=False, max_indegree=None, tabu=0,
                         max_iter=10 ** 6, start=None, start_cls="DAG")
            reuse.append(o)
    opt["reuse"] = reuse
    return {"kind": "hc", "data": data, "opt": opt}


def _score_id(sc):
    return (sc["name"], sc["ess"] if sc["name"] in ("bdeu", "bds") and sc["form"] == "inst" else None,
            tuple(sorted(sc["extra"])))


def gen_hc_opt(rng, data):
    cols = data["cols"]
    n = len(cols)
    pairs = _all_pairs(cols)
    opt = {"scoring": gen_scoring(rng, data), "use_cache": rng.random() < 0.5}
    start = None
    if rng.random() < 0.55:
        start = [list(e) for e in gen.rand_dag_edges(rng, list(cols), p=rng.choice([0.2, 0.4, 0.6]), max_parents=4)]
    opt["start"] = start
    opt["start_cls"] = "BayesianNetwork" if (start is not None and rng.random() < 0.1) else "DAG"
    base = [tuple(e) for e in (start or [])]
    fixed = []
    if rng.random() < 0.4:
        for _ in range(rng.randint(1, 2)):
            e = rng.choice(pairs)
            if e not in fixed and oracle.is_acyclic(cols, base + fixed + [e]):
                fixed.append(e)
    opt["cyclic_fixed"] = False
    if not fixed and base and rng.random() < 0.06:
        u, v = rng.choice(base)
        fixed = [(v, u)]                    # closes a 2-cycle with the start graph: documented refusal
        opt["cyclic_fixed"] = True
    opt["fixed"] = [list(e) for e in fixed]
    opt["fixed_as"] = rng.choice(["list", "set"])
    black = None
    if rng.random() < 0.45:
        k = rng.randint(1, max(1, len(pairs) // 2))
        cand = [e for e in pairs if e not in fixed]
        if rng.random() < 0.8:
            cand = [e for e in cand if e not in base]
        black = rng.sample(cand, min(k, len(cand)))
    opt["black"] = None if black is None else [list(e) for e in black]
    white = None
    if rng.random() < 0.4:
        k = rng.randint(max(1, n - 1), len(pairs))
        white = rng.sample(pairs, k)
    opt["white"] = None if white is None else [list(e) for e in white]
    opt["white_as"] = rng.choice(["list", "set"])
    opt["max_indegree"] = rng.choice([None, None, 1, 1, 2, 2, 3])
    opt["tabu"] = rng.choice([0, 0, 0, 1, 2, 100, 100])
    opt["epsilon"] = rng.choice([1e-4, 1e-4, 0.5])
    opt["max_iter"] = rng.choice([1, 2, 3, 10 ** 6, 10 ** 6, 1e6, 1e6])
    opt["eps_probe"] = rng.random() < 0.5
    return opt


def gen_ex(rng, tier):
    thorough = tier == "thorough"
    n = rng.choice([2, 3, 3, 3, 4, 4] if thorough else [2, 3, 3, 3, 3, 3, 3, 4])
    data = gen_data(rng, n, tier, min_card=1 if rng.random() < 0.1 else 2)
    sc = gen_scoring(rng, data, allow_default=True)
    if sc["form"] == "str":
        sc["form"] = "inst"                 # ExhaustiveSearch takes instances only
    if rng.random() < 0.35:                 # the one score with a non-uniform structure prior gets extra weight
        sc.update(name="bds", form="inst", ess=rng.choice([1, 5, 10]))
    # 4 columns: 543 DAGs; an uncached search scores every family of every DAG afresh (~2200 local scores per call),
    # so the uncached / all_scores variants are drawn less often there
    u1, u2 = rng.random(), rng.random()
    return {"kind": "ex", "data": data, "opt": {"scoring": sc, "use_cache": u1 < (0.55 if n <= 3 else 0.8),
                                                 "all_scores": n <= 3 or u2 < 0.35,
                                                 # one ExhaustiveSearch object serves estimate(), all_scores() and a
                                                 # second estimate() (else a fresh object per call)
                                                 "reuse": rng.random() < 0.6}}


WEIGHT_FNS = ["mutual_info", "mutual_info", "mutual_info", "adjusted_mutual_info", "normalized_mutual_info",
              "custom_negmi", "custom_agree", "custom_chi"]


def gen_tree(rng, tier):
    n = rng.choice([2, 3, 3, 4, 4, 5, 5, 6, 6])
    tan = rng.random() < 0.35
    opt = {"type": "tan" if tan else "chow-liu", "wfn": rng.choice(WEIGHT_FNS)}
    cpos = rng.randrange(n)
    # the class column is fixed by position before the data are drawn (class-conditional MI must be > 0);
    # gen_data draws the column names first, so peek at them with a twin generator state
    state = rng.getstate()
    names = list(rng.choice(COLNAMES)[:n])
    if rng.random() < 0.3:
        rng.shuffle(names)
    rng.setstate(state)
    cls = names[cpos] if tan else None
    data = gen_data(rng, n, tier, min_card=2, need_mi=True, cls=cls, dup_prob=0.08, max_parents=2,
                    kinds=("int", "int", "obj", "cat", "cat_unused"))
    cols = data["cols"]
    assert cols == names
    opt["class_node"] = cls
    feats = [c for c in cols if c != cls]
    u = rng.random()
    if u < 0.2:
        opt["root"] = None
    elif tan and u < 0.26:
        opt["root"] = cls                   # documented refusal
    else:
        opt["root"] = rng.choice(feats)
    # estimator object reused: 1-2 further estimate() calls on the SAME TreeSearch object (root_node belongs to the
    # object) with another estimator_type / edge_weights_fn / class_node
    more = []
    if rng.random() < 0.4:
        for _ in range(rng.choice([1, 1, 2])):
            t2 = rng.random() < 0.45
            c2 = None
            if t2:
                c2 = cls if (cls is not None and rng.random() < 0.5) else rng.choice(cols)
            more.append({"type": "tan" if t2 else "chow-liu", "wfn": rng.choice(WEIGHT_FNS), "class_node": c2})
    opt["more"] = more
    return {"kind": "tree", "data": data, "opt": opt}


def gen_case(seed, idx, tier):
    rng = gen.rng_for("C11", seed, idx)
    kind = KINDS[idx % len(KINDS)]
    if kind == "hc":
        return gen_hc(rng, tier)
    if kind == "ex":
        return gen_ex(rng, tier)
    return gen_tree(rng, tier)


# ============================================================================ building
def build_frame(d):
    import pandas as pd
    rows, out = d["rows"], {}
    for j, c in enumerate(d["cols"]):
        labs, kind = d["labels"][c], d["kinds"][c]
        vals = [labs[r[j]] for r in rows]
        if kind == "int":
            out[c] = pd.Series(vals, dtype="int64")
        elif kind == "obj":
            out[c] = pd.Series(vals, dtype=object)
        else:
            seen = [l for l in labs if l in set(vals)]
            cats = seen + ([f"{c}_unused"] if kind == "cat_unused" else [])
            out[c] = pd.Series(pd.Categorical(vals, categories=cats))
    return pd.DataFrame(out, columns=list(d["cols"]))


def label_columns(d):
    """{col: [label per row]} straight from the spec (the oracle's view of the data)."""
    return {c: [d["labels"][c][r[j]] for r in d["rows"]] for j, c in enumerate(d["cols"])}


def make_scorer(sc, df, d):
    """A fresh pgmpy scorer instance for the scoring spec (uncached)."""
    from pgmpy.estimators import AICScore, BDeuScore, BDsScore, BicScore, K2Score
    cls = {"k2": K2Score, "bdeu": BDeuScore, "bds": BDsScore, "bic": BicScore, "aic": AICScore}[sc["name"]]
    kw = {}
    if sc["form"] == "inst":
        if sc["name"] in ("bdeu", "bds"):
            kw["equivalent_sample_size"] = sc["ess"]
        if sc["extra"]:
            sn = {}
            for c in sc["extra"]:
                vals = label_columns(d)[c]
                seen = sorted(set(vals))
                # int columns reach the scorer as floats (preprocess_data); labels compare equal either way
                extra = (max(seen) + 1) if d["kinds"][c] == "int" else f"{c}_zz"
                sn[c] = seen + [extra]
            kw["state_names"] = sn
    return cls(df, **kw)


# ======================================================================= graph helpers
def acyclic(nodes, edges):
    return oracle.is_acyclic(list(nodes), [tuple(e) for e in edges])


def indeg(edges, v):
    return sum(1 for (_, b) in edges if b == v)


def legal_moves(cols, E, fixed, black, white, max_indegree):
    """All single-edge moves legal by the oracle's definition (tabu ignored).  E: set of edges."""
    mi = float("inf") if max_indegree is None else max_indegree
    out = []
    for (x, y) in _all_pairs(cols):
        if (x, y) in E or (y, x) in E:
            continue
        if (x, y) in black or (white is not None and (x, y) not in white):
            continue
        if indeg(E, y) + 1 > mi:
            continue
        if acyclic(cols, list(E) + [(x, y)]):
            out.append(("+", (x, y)))
    for (x, y) in sorted(E):
        if (x, y) not in fixed:
            out.append(("-", (x, y)))
    for (x, y) in sorted(E):
        if (x, y) in fixed:
            continue
        if (y, x) in black or (white is not None and (y, x) not in white):
            continue
        if indeg(E, x) + 1 > mi:
            continue
        if acyclic(cols, [e for e in E if e != (x, y)] + [(y, x)]):
            out.append(("flip", (x, y)))
    return out


def apply_move(E, op):
    kind, (x, y) = op
    E = set(E)
    if kind == "+":
        E.add((x, y))
    elif kind == "-":
        E.discard((x, y))
    else:
        E.discard((x, y))
        E.add((y, x))
    return E


def diff_move(E, E2):
    """The single-edge move turning E into E2, None if equal, 'bad' otherwise."""
    add, rem = E2 - E, E - E2
    if not add and not rem:
        return None
    if len(add) == 1 and not rem:
        return ("+", next(iter(add)))
    if len(rem) == 1 and not add:
        return ("-", next(iter(rem)))
    if len(add) == 1 and len(rem) == 1:
        (a, b), (c, d) = next(iter(add)), next(iter(rem))
        if (a, b) == (d, c):
            return ("flip", (c, d))
    return "bad"


class Scorer:
    """Score function for the optimality statements: pgmpy's own uncached scorer, memoised per family."""

    def __init__(self, ctx, inst, cols):
        self.ctx, self.inst, self.cols = ctx, inst, list(cols)
        self.memo = {}
        self.error = None

    def local(self, v, parents):
        key = (v, tuple(sorted(parents)))
        if key not in self.memo:
            r = self.ctx.call(self.inst.local_score, v, list(key[1]))
            if self.ctx.failed(r):
                self.error = r
                raise ScoreError(r)
            self.memo[key] = float(r)
        return self.memo[key]

    def prior(self, E):
        import networkx as nx
        g = nx.DiGraph()
        g.add_nodes_from(self.cols)
        g.add_edges_from(E)
        r = self.ctx.call(self.inst.structure_prior, g)
        if self.ctx.failed(r):
            self.error = r
            raise ScoreError(r)
        return float(r)

    def total(self, E):
        E = set(E)
        return sum(self.local(v, [a for (a, b) in E if b == v]) for v in self.cols) + self.prior(E)

    def delta(self, E, op):
        E = set(E)
        E2 = apply_move(E, op)
        touched = {op[1][1]} | ({op[1][0]} if op[0] == "flip" else set())
        d = 0.0
        for v in sorted(touched):
            d += self.local(v, [a for (a, b) in E2 if b == v]) - self.local(v, [a for (a, b) in E if b == v])
        return d + self.prior(E2) - self.prior(E)


class ScoreError(Exception):
    pass


# =================================================================== hill-climb checker
class Recorder:
    """Wraps the generator `_legal_operations` of one estimator instance; one record per iteration."""

    def __init__(self, est):
        self.iters = []
        orig = est._legal_operations
        rec = self

        def wrapped(model, *a, **k):
            snap = {"edges": [tuple(e) for e in model.edges()], "ops": None}
            rec.iters.append(snap)
            ops = list(orig(model, *a, **k))
            snap["ops"] = ops
            return iter(ops)

        est._legal_operations = wrapped


def hc_kwargs(opt, cols):
    """Arguments of estimate() from the option spec (fresh objects on every call)."""
    kw = {}
    sc = opt["scoring"]
    fixed = [tuple(e) for e in opt["fixed"]]
    if fixed or opt["fixed_as"] == "set":
        kw["fixed_edges"] = set(fixed) if opt["fixed_as"] == "set" else list(fixed)
    if opt["black"] is not None:
        kw["black_list"] = [tuple(e) for e in opt["black"]]
    if opt["white"] is not None:
        w = [tuple(e) for e in opt["white"]]
        kw["white_list"] = set(w) if opt["white_as"] == "set" else w
    if opt["max_indegree"] is not None:
        kw["max_indegree"] = opt["max_indegree"]
    kw["tabu_length"] = opt["tabu"]
    kw["epsilon"] = opt["epsilon"]
    kw["max_iter"] = opt["max_iter"]
    kw["show_progress"] = False
    return kw


def make_start(opt, cols, edges=None):
    from pgmpy.base import DAG
    from pgmpy.models import BayesianNetwork
    edges = opt["start"] if edges is None else edges
    if edges is None:
        return None
    g = BayesianNetwork() if opt["start_cls"] == "BayesianNetwork" else DAG()
    g.add_nodes_from(list(cols))
    g.add_edges_from([tuple(e) for e in edges])
    return g


def new_hc_estimator(ctx, df, use_cache):
    """(HillClimbSearch object, its recorder) or (PgmpyError, None)."""
    from pgmpy.estimators import HillClimbSearch
    est = ctx.call(HillClimbSearch, df, use_cache=use_cache)
    if ctx.failed(est):
        return est, None
    return est, Recorder(est)


def run_hc_once(ctx, df, d, opt, epsilon=None, start_edges=None, est_rec=None):
    """One estimate() call with a recorder; returns (result or PgmpyError, recorder).  est_rec: an estimator object
    (and its recorder) that already served earlier calls - the recorder is emptied, the object is used as it is."""
    cols = d["cols"]
    est, rec = est_rec if est_rec is not None else new_hc_estimator(ctx, df, opt["use_cache"])
    if ctx.failed(est):
        return est, None
    rec.iters = []
    kw = hc_kwargs(opt, cols)
    if epsilon is not None:
        kw["epsilon"] = epsilon
    sc = opt["scoring"]
    if sc["form"] == "str":
        method = sc["name"].upper() if sc["upper"] else sc["name"]
    else:
        method = make_scorer(sc, df, d)
    start = make_start(opt, cols, start_edges)
    if start is not None:
        kw["start_dag"] = start
    r = ctx.call(est.estimate, scoring_method=method, **kw)
    return r, rec


def read_graph(ctx, g, key, label):
    """(nodes list, edge set) of a returned graph, or None after reporting a malformed result."""
    try:
        nodes = list(g.nodes())
        E = {(u, v) for (u, v) in g.edges()}
        return nodes, E
    except Exception as e:
        ctx.violation(key, f"{label}: cannot read the returned object ({type(g).__name__}): {type(e).__name__}: {e}")
        return None


def run_hc(spec, ctx):
    """All estimate() calls of the case go to ONE HillClimbSearch object; every call is judged by the same contract,
    with the score requested in that call."""
    d, opt = spec["data"], spec["opt"]
    df = build_frame(d)
    est_rec = new_hc_estimator(ctx, df, opt["use_cache"])
    calls = [opt] + list(opt.get("reuse") or [])
    if len(calls) > 1:
        ctx.feature("hc:object-reused")
    for k, o in enumerate(calls):
        if k:
            ctx.note("hc:calls-on-reused-object")
        judge_hc({"kind": "hc", "data": d, "opt": o}, ctx, df, est_rec, k)


def judge_hc(spec, ctx, df, est_rec, call_no):
    from pgmpy.base import DAG
    d, opt = spec["data"], spec["opt"]
    cols = d["cols"]
    fixed = {tuple(e) for e in opt["fixed"]}
    black = {tuple(e) for e in (opt["black"] or [])}
    white = None if opt["white"] is None else {tuple(e) for e in opt["white"]}
    start_user = {tuple(e) for e in (opt["start"] or [])}
    E0 = start_user | fixed
    mi_opt = opt["max_indegree"]
    eps, tabu_len, max_iter = opt["epsilon"], opt["tabu"], int(opt["max_iter"])
    sc = opt["scoring"]
    detail = dict(cols=cols, score=sc, start=sorted(start_user), fixed=sorted(fixed), black=sorted(black),
                  white=None if white is None else sorted(white), max_indegree=mi_opt, tabu=tabu_len,
                  epsilon=eps, max_iter=opt["max_iter"], use_cache=opt["use_cache"], call_on_this_object=call_no + 1)
    for f in (f"hc:score:{sc['name']}", f"hc:scoring-{sc['form']}", "hc:start" if opt["start"] is not None else "hc:no-start",
              "hc:fixed" if fixed else None, "hc:black" if black else None, "hc:white" if white is not None else None,
              f"hc:indeg:{mi_opt}", f"hc:tabu:{tabu_len}", f"hc:maxiter:{'cap' if max_iter < 100 else 'inf'}",
              "hc:cache" if opt["use_cache"] else "hc:nocache", "dup-column" if d["dup"] else None,
              "hc:extra-states" if sc["extra"] else None, f"hc:n{len(cols)}"):
        if f:
            ctx.feature(f)

    r, rec = run_hc_once(ctx, df, d, opt, est_rec=est_rec)

    # ---- documented refusal: fixed edges closing a cycle with the start graph
    if opt["cyclic_fixed"]:
        ctx.feature("hc:cyclic-fixed")
        ctx.expect(ctx.failed(r) and r.type == "ValueError", "c11:hc:cyclic-fixed-not-refused",
                   f"fixed_edges closing a cycle with start_dag were not refused with ValueError: {r!r}", **detail)
        return
    if start_user & black:
        ctx.feature("hc:black-in-start")
        if ctx.failed(r) and r.type == "ValueError" and "black" in r.msg.lower():
            ctx.note("hc:black-in-start-refused")   # an explicit refusal of the contradictory request is acceptable
            ctx.ok()
            return
    if ctx.failed(r):
        ctx.violation(f"c11:hc:exception:{r.type}@{r.where}", f"HillClimbSearch.estimate raised {r!r}", **detail)
        return
    if not isinstance(r, DAG):
        ctx.violation("c11:hc:malformed-result", f"estimate returned {type(r).__name__}, not a DAG", **detail)
        return
    got = read_graph(ctx, r, "c11:hc:malformed-result", "estimate")
    if got is None:
        return
    nodes, E = got
    detail["result"] = sorted(E)

    # ---- final graph: constraints
    ctx.expect(sorted(nodes) == sorted(cols) and len(nodes) == len(cols), "c11:hc:wrong-nodes",
               f"result nodes {sorted(nodes)} != data columns {sorted(cols)}", **detail)
    ctx.expect(acyclic(cols, E) and all(u != v for u, v in E), "c11:hc:cyclic-result", f"result {sorted(E)} has a cycle", **detail)
    ctx.expect(fixed <= E, "c11:hc:fixed-edge-missing", f"fixed edges {sorted(fixed - E)} are missing from the result", **detail)
    bad_black = sorted(E & black)
    if bad_black:
        classify_black(ctx, spec, df, bad_black, start_user, detail)
    else:
        ctx.ok()
    if white is not None:
        bad = sorted(e for e in E if e not in E0 and e not in white)
        ctx.expect(not bad, "c11:hc:non-whitelisted-addition", f"edges {bad} were added although not white-listed", **detail)
    if mi_opt is not None:
        bad = [(v, indeg(E, v), indeg(E0, v)) for v in cols if indeg(E, v) > max(mi_opt, indeg(E0, v))]
        ctx.expect(not bad, "c11:hc:indegree-exceeded",
                   f"(node, in-degree, start in-degree) {bad} exceeds max_indegree={mi_opt}", **detail)

    # ---- scores: pgmpy's own uncached scorer on a fresh instance
    S = Scorer(ctx, make_scorer(sc, df, d), cols)
    try:
        s0, s1 = S.total(E0), S.total(E)
        ctx.expect(s1 >= s0 - 1e-7, "c11:hc:score-decreased",
                   f"score of the result {s1!r} is lower than the start graph's {s0!r}", **detail)
        iters = rec.iters
        ctx.note("hc:iterations", len(iters))
        broke = len(iters) < max_iter or (len(iters) > 0 and {tuple(e) for e in iters[-1]["edges"]} == E)
        if len(iters) == 0:
            ctx.violation("c11:hc:no-iteration", "estimate never asked for the legal moves (max_iter >= 1)", **detail)
        # ---- final graph: local optimum (tabu list off, loop left through the stop rule)
        if tabu_len == 0 and broke:
            best = None
            for op in legal_moves(cols, E, fixed, black, white, mi_opt):
                dl = S.delta(E, op)
                if best is None or dl > best[1]:
                    best = (op, dl)
            ctx.note("hc:local-optimum-checked")
            ctx.expect(best is None or best[1] < eps + TOL, "c11:hc:not-local-optimum",
                       f"search stopped at {sorted(E)} although legal move {best and best[0]} improves the score by "
                       f"{best and best[1]!r} >= epsilon={eps}", **detail)
        # ---- recorded history
        check_history(ctx, rec, E0, E, S, cols, fixed, black, white, mi_opt, tabu_len, eps, max_iter, detail)
    except ScoreError:
        e = S.error
        ctx.violation(f"c11:hc:exception:{e.type}@{e.where}", f"uncached scorer raised {e!r} on a family of the search space", **detail)
        return
    ctx.nontrivial = ctx.nontrivial or (len(cols) >= 2 and any(it["ops"] for it in rec.iters))

    # ---- epsilon boundary: re-run with epsilon := an observed best delta; the search must not stop there
    if opt["eps_probe"] and not bad_black:
        eps_boundary(ctx, spec, df, rec, detail)


def classify_black(ctx, spec, df, bad_black, start_user, detail):
    """A black-listed edge in the result.  Known mechanism: the edge was in the caller's start_dag and the search
    never removes it on account of the list.  Confirmed by re-running without those start edges."""
    d, opt = spec["data"], spec["opt"]
    black = {tuple(e) for e in (opt["black"] or [])}
    what = f"result contains black-listed edges {bad_black}"
    if all(e in start_user for e in bad_black):
        clean = sorted(start_user - black)
        r2, _ = run_hc_once(ctx, df, d, opt, start_edges=[list(e) for e in clean])
        if not ctx.failed(r2):
            got = read_graph(ctx, r2, "c11:hc:malformed-result", "estimate (neutralised)")
            if got is not None and not (got[1] & black):
                return ctx.violation(K_BLACK_START, what + " that were already in start_dag (no such edge when start_dag "
                                     "does not contain them)", **detail)
    ctx.violation("c11:hc:blacklisted-edge", what, **detail)


def check_history(ctx, rec, E0, Efinal, S, cols, fixed, black, white, mi_opt, tabu_len, eps, max_iter, detail):
    from collections import deque
    iters = rec.iters
    if not iters:
        return
    ctx.expect(len(iters) <= max_iter, "c11:hc:iteration-cap-exceeded",
               f"{len(iters)} iterations although max_iter={max_iter}", **detail)
    first = {tuple(e) for e in iters[0]["edges"]}
    ctx.expect(first == E0, "c11:hc:start-not-seeded",
               f"first iteration works on {sorted(first)}, expected start_dag + fixed_edges = {sorted(E0)}", **detail)
    tabu = deque(maxlen=tabu_len)           # oracle's model: sets of moves that would undo a recent move
    for t, it in enumerate(iters):
        E = {tuple(e) for e in it["edges"]}
        nxt = {tuple(e) for e in iters[t + 1]["edges"]} if t + 1 < len(iters) else Efinal
        hd = dict(detail, iteration=t, model=sorted(E))
        legal = legal_moves(cols, E, fixed, black, white, mi_opt)
        legal_set = set(legal)
        offered = {}
        try:
            for (op, dl) in it["ops"]:
                op = (op[0], tuple(op[1]))
                if op in offered:
                    ctx.violation("c11:hc:move-offered-twice", f"move {op} offered twice in one iteration", **hd)
                offered[op] = float(dl)
        except Exception as e:
            ctx.violation("c11:hc:malformed-result", f"cannot read offered moves: {type(e).__name__}: {e}", **hd)
            return
        # every offered move is legal and carries the right delta
        for op, dl in sorted(offered.items()):
            if op not in legal_set:
                ctx.violation("c11:hc:illegal-move-offered", f"iteration {t}: offered move {op} is not legal "
                              f"({why_illegal(cols, E, op, fixed, black, white, mi_opt)})", **hd)
                continue
            want = S.delta(E, op)
            ctx.expect(abs(dl - want) <= TOL + 1e-9 * abs(want), "c11:hc:wrong-delta",
                       f"iteration {t}: move {op} offered with score delta {dl!r}, uncached score difference is {want!r}", **hd)
        # no legal move is withheld, except moves undoing one of the last tabu_length applied moves
        allowed_missing = set().union(*tabu) if tabu else set()
        missing = [op for op in legal if op not in offered and op not in allowed_missing]
        ctx.expect(not missing, "c11:hc:legal-move-missing",
                   f"iteration {t}: legal moves {missing[:6]} were not offered (tabu_length={tabu_len})", **hd)
        # applied move
        mv = diff_move(E, nxt)
        best = max(offered.values()) if offered else None
        if mv == "bad":
            ctx.violation("c11:hc:not-a-single-edge-move", f"iteration {t}: model went from {sorted(E)} to {sorted(nxt)}", **hd)
            return
        if mv is None:
            if t + 1 < len(iters):
                ctx.violation("c11:hc:idle-iteration", f"iteration {t} applied no move but the search went on", **hd)
            else:
                # the stop rule fired: nothing on offer gains epsilon or more
                ctx.expect(best is None or best < eps, "c11:hc:stopped-early",
                           f"search stopped at iteration {t} although an offered move gains {best!r} >= epsilon={eps}", **hd)
            continue
        if mv not in offered:
            ctx.violation("c11:hc:applied-move-not-offered", f"iteration {t}: applied move {mv} was not among the offered moves", **hd)
        else:
            ctx.expect(offered[mv] >= best - 1e-12, "c11:hc:not-argmax",
                       f"iteration {t}: applied move {mv} gains {offered[mv]!r}, best offered gains {best!r}", **hd)
            ctx.expect(offered[mv] >= eps, "c11:hc:step-below-epsilon",
                       f"iteration {t}: applied move {mv} gains {offered[mv]!r} < epsilon={eps}", **hd)
        # score strictly increases by >= epsilon (uncached score)
        gain = S.delta(E, mv)
        ctx.expect(gain >= eps - TOL, "c11:hc:score-not-increasing",
                   f"iteration {t}: applied move {mv} changes the uncached score by {gain!r} < epsilon={eps}", **hd)
        if mv[0] == "+":
            tabu.append({("-", mv[1])})
        elif mv[0] == "-":
            tabu.append({("+", mv[1])})
        else:
            x, y = mv[1]
            tabu.append({("flip", (x, y)), ("flip", (y, x))})


def why_illegal(cols, E, op, fixed, black, white, mi_opt):
    kind, (x, y) = op
    mi = float("inf") if mi_opt is None else mi_opt
    if kind == "+":
        if (x, y) in E or (y, x) in E:
            return "pair already adjacent"
        if (x, y) in black:
            return "edge is black-listed"
        if white is not None and (x, y) not in white:
            return "edge is not white-listed"
        if indeg(E, y) + 1 > mi:
            return f"in-degree of {y} would exceed {mi_opt}"
        return "closes a cycle"
    if (x, y) not in E:
        return "edge not in the model"
    if (x, y) in fixed:
        return "edge is fixed"
    if kind == "flip":
        if (y, x) in black:
            return "reversed edge is black-listed"
        if white is not None and (y, x) not in white:
            return "reversed edge is not white-listed"
        if indeg(E, x) + 1 > mi:
            return f"in-degree of {x} would exceed {mi_opt}"
        return "closes a cycle"
    return "?"


def eps_boundary(ctx, spec, df, rec, detail):
    """Metamorphic: take the best offered delta d of some iteration t of the first run and run again with
    epsilon = d (bit-identical float).  'No legal move improves the score by epsilon or more' then forbids stopping
    at iteration t's model: a move gaining exactly epsilon is on offer."""
    d, opt = spec["data"], spec["opt"]
    cand = []
    for t, it in enumerate(rec.iters):
        if it["ops"]:
            b = max(float(dl) for (_, dl) in it["ops"])
            if b > 1e-9:
                cand.append((t, b))
    if not cand:
        return
    t, b = cand[-1] if len(rec.iters) % 2 == 0 else cand[len(cand) // 2]
    r2, rec2 = run_hc_once(ctx, df, d, opt, epsilon=b)
    hd = dict(detail, boundary_iteration=t, boundary_epsilon=b)
    if ctx.failed(r2):
        return ctx.violation(f"c11:hc:exception:{r2.type}@{r2.where}", f"re-run with epsilon={b!r} raised {r2!r}", **hd)
    got = read_graph(ctx, r2, "c11:hc:malformed-result", "estimate (epsilon boundary)")
    if got is None or rec2 is None:
        return
    E2 = got[1]
    ctx.note("hc:eps-boundary-runs")
    # find the first iteration of the re-run whose best offered delta equals epsilon exactly
    for k, it in enumerate(rec2.iters):
        if not it["ops"]:
            continue
        bk = max(float(dl) for (_, dl) in it["ops"])
        if bk == b:
            Ek = {tuple(e) for e in it["edges"]}
            nxt = {tuple(e) for e in rec2.iters[k + 1]["edges"]} if k + 1 < len(rec2.iters) else E2
            ctx.note("hc:eps-boundary-hit")
            ctx.expect(nxt != Ek, "c11:hc:stops-on-gain-equal-epsilon",
                       f"with epsilon={b!r} the search stopped at {sorted(Ek)} although an offered move improves the "
                       f"score by exactly epsilon", **hd)
            return
        if bk < b:
            return                          # legitimately stopped earlier (hash-order tie path differs)


# =================================================================== exhaustive checker
def run_ex(spec, ctx):
    from pgmpy.base import DAG
    from pgmpy.estimators import ExhaustiveSearch
    d, opt = spec["data"], spec["opt"]
    cols = d["cols"]
    sc = opt["scoring"]
    df = build_frame(d)
    detail = dict(cols=cols, score=sc, use_cache=opt["use_cache"])
    for f in (f"ex:score:{sc['name']}" + (":default" if sc["form"] == "default" else ""), f"ex:n{len(cols)}",
              "ex:cache" if opt["use_cache"] else "ex:nocache", "dup-column" if d["dup"] else None):
        if f:
            ctx.feature(f)

    def build(use_cache):
        if sc["form"] == "default":
            return ExhaustiveSearch(df)
        return ExhaustiveSearch(df, scoring_method=make_scorer(sc, df, d), use_cache=use_cache)

    S = Scorer(ctx, make_scorer(dict(sc, form="inst"), df, d), cols)
    try:
        dags = [frozenset(e) for e in gen.all_dags(sorted(cols))]
        scores = {E: S.total(E) for E in dags}
    except ScoreError:
        e = S.error
        return ctx.violation(f"c11:ex:exception:{e.type}@{e.where}", f"uncached scorer raised {e!r}", **detail)
    best = max(scores.values())
    has_prior = abs(S.prior(max(dags, key=len)) - S.prior(frozenset())) > 0
    cached = opt["use_cache"] or sc["form"] == "default"

    def classify(key, what, **dt):
        """Known mechanism: ScoreCache.score() drops the wrapped scorer's structure prior (C10), so with a score that
        has a non-uniform prior the cached search maximises a different function.  Confirmed by use_cache=False."""
        if has_prior and cached and sc["form"] != "default":
            est2 = ctx.call(build, False)
            r2 = ctx.call(est2.estimate) if not ctx.failed(est2) else est2
            if not ctx.failed(r2):
                g2 = read_graph(ctx, r2, "c11:ex:malformed-result", "estimate (neutralised)")
                if g2 is not None and scores.get(frozenset(g2[1]), -math.inf) >= best - 1e-7:
                    return ctx.violation(K_EX_PRIOR, what + " [score has a structure prior and use_cache=True; holds with "
                                         "use_cache=False]", **dt)
        ctx.violation(key, what, **dt)

    reuse = bool(opt.get("reuse"))
    if reuse:
        ctx.feature("ex:object-reused")

    def judge_estimate(est, label):
        """One estimate() call on `est`: a DAG on the columns with globally maximal (uncached) score."""
        dt = dict(detail, call=label)
        r = ctx.call(est.estimate)
        if ctx.failed(r):
            return ctx.violation(f"c11:ex:exception:{r.type}@{r.where}", f"ExhaustiveSearch.estimate raised {r!r}", **dt)
        if not isinstance(r, DAG):
            return ctx.violation("c11:ex:malformed-result", f"estimate returned {type(r).__name__}, not a DAG", **dt)
        got = read_graph(ctx, r, "c11:ex:malformed-result", "estimate")
        if got is None:
            return
        nodes, E = got
        dt["result"] = sorted(E)
        ctx.expect(sorted(nodes) == sorted(cols) and len(nodes) == len(cols), "c11:ex:wrong-nodes",
                   f"result nodes {sorted(nodes)} != data columns {sorted(cols)}", **dt)
        if not (acyclic(cols, E) and frozenset(E) in scores):
            ctx.violation("c11:ex:cyclic-result", f"result {sorted(E)} is not a DAG on the columns", **dt)
        else:
            s = scores[frozenset(E)]
            if s >= best - 1e-7:
                ctx.ok()
                ctx.xcell["ex:score-of-returned-dag:" + label] = round(s, 6)
            else:
                arg = max(scores, key=lambda k: scores[k])
                classify("c11:ex:not-maximal", f"{label}: returned DAG {sorted(E)} scores {s!r}; DAG {sorted(arg)} scores "
                         f"{best!r} (max over all {len(dags)} DAGs)", **dt)
        return True

    est = ctx.call(build, opt["use_cache"])
    if ctx.failed(est):
        return ctx.violation(f"c11:ex:exception:{est.type}@{est.where}", f"ExhaustiveSearch(...) raised {est!r}", **detail)
    if not judge_estimate(est, "first estimate()"):
        return
    ctx.nontrivial = len(cols) >= 2

    if opt["all_scores"]:
        if not reuse:
            est = ctx.call(build, opt["use_cache"])
        judge_all_scores = True
    else:
        judge_all_scores = False
    if judge_all_scores:
        lst = ctx.call(est.all_scores) if not ctx.failed(est) else est
        if ctx.failed(lst):
            return ctx.violation(f"c11:ex:exception:{lst.type}@{lst.where}", f"all_scores raised {lst!r}", **detail)
        _judge_all_scores(ctx, lst, cols, dags, scores, classify, detail)
    # the same object once more: estimate() after estimate() / all_scores() must still return a maximal DAG
    if reuse and (len(cols) <= 3 or cached):
        ctx.note("ex:calls-on-reused-object")
        judge_estimate(est, "estimate() again on the same object")


def _judge_all_scores(ctx, lst, cols, dags, scores, classify, detail):
    try:
        seen, vals = [], []
        for (s, g) in lst:
            seen.append(frozenset((u, v) for (u, v) in g.edges()))
            vals.append(float(s))
            if sorted(g.nodes()) != sorted(cols):
                ctx.violation("c11:ex:wrong-nodes", f"all_scores graph has nodes {sorted(g.nodes())}", **detail)
    except Exception as e:
        return ctx.violation("c11:ex:malformed-result", f"cannot read all_scores: {type(e).__name__}: {e}", **detail)
    ctx.expect(len(seen) == len(dags) and set(seen) == set(dags), "c11:ex:all-scores-incomplete",
               f"all_scores lists {len(seen)} graphs ({len(set(seen))} distinct), there are {len(dags)} DAGs; "
               f"missing {[sorted(x) for x in list(set(dags) - set(seen))[:3]]}, "
               f"not DAGs {[sorted(x) for x in list(set(seen) - set(dags))[:3]]}", **detail)
    ctx.expect(all(vals[i] <= vals[i + 1] + 1e-12 for i in range(len(vals) - 1)), "c11:ex:all-scores-unsorted",
               "all_scores is not ordered by score", **detail)
    wrong = [(sorted(E_), v, scores[E_]) for E_, v in zip(seen, vals)
             if E_ in scores and abs(v - scores[E_]) > 1e-7 + 1e-9 * abs(scores[E_])]
    if wrong:
        classify("c11:ex:all-scores-wrong-score", f"all_scores: {len(wrong)} of {len(seen)} DAGs carry a score different from "
                 f"the uncached score, e.g. (edges, listed, uncached) {wrong[0]}", **detail)
    else:
        ctx.ok()


# ========================================================================= tree checker
def entropy_list(xs):
    n = len(xs)
    c = {}
    for x in xs:
        c[x] = c.get(x, 0) + 1
    return -sum((k / n) * math.log(k / n) for k in c.values()) if n else 0.0


def nmi_lists(xs, ys):
    if len(set(xs)) == len(set(ys)) and len(set(xs)) in (0, 1):
        return 1.0
    mi = mi_lists(xs, ys)
    if mi <= 0:
        return 0.0
    return mi / ((entropy_list(xs) + entropy_list(ys)) / 2.0)


def ami_lists(xs, ys):
    """Adjusted MI (Vinh, Epps & Bailey 2010), arithmetic-mean normaliser, hypergeometric expectation."""
    n = len(xs)
    sx, sy = set(xs), set(ys)
    if len(sx) == len(sy) and len(sx) in (0, 1):
        return 1.0
    if len(sx) == 1 or len(sy) == 1:
        return 0.0
    a, b = {}, {}
    for x in xs:
        a[x] = a.get(x, 0) + 1
    for y in ys:
        b[y] = b.get(y, 0) + 1
    lg = math.lgamma
    emi = 0.0
    for ai in a.values():
        for bj in b.values():
            for nij in range(max(1, ai + bj - n), min(ai, bj) + 1):
                lp = (lg(ai + 1) + lg(bj + 1) + lg(n - ai + 1) + lg(n - bj + 1) - lg(n + 1) - lg(nij + 1)
                      - lg(ai - nij + 1) - lg(bj - nij + 1) - lg(n - ai - bj + nij + 1))
                emi += (nij / n) * math.log(n * nij / (ai * bj)) * math.exp(lp)
    mi = mi_lists(xs, ys)
    eps = 2.220446049250313e-16
    den = (entropy_list(xs) + entropy_list(ys)) / 2.0 - emi
    den = min(den, -eps) if den < 0 else max(den, eps)
    num = mi - emi
    num = min(num, -eps) if num < 0 else max(num, eps)
    return num / den


def _codes(a):
    """Labels of a pandas Series / list as a plain list (floats that are whole numbers -> ints)."""
    vals = a.tolist() if hasattr(a, "tolist") else list(a)
    return [int(v) if isinstance(v, float) and v == int(v) else v for v in vals]


def custom_negmi(a, b):
    return -mi_lists(_codes(a), _codes(b)) - 0.01


def custom_agree(a, b):
    xa, xb = _codes(a), _codes(b)
    ra = {v: i for i, v in enumerate(sorted(set(xa), key=repr))}
    rb = {v: i for i, v in enumerate(sorted(set(xb), key=repr))}
    n = len(xa)
    return 0.05 + (sum(1 for x, y in zip(xa, xb) if ra[x] == rb[y]) / n if n else 0.0)


def custom_chi(a, b):
    xa, xb = _codes(a), _codes(b)
    n = len(xa)
    if n == 0:
        return 0.0
    ca, cb, cab = {}, {}, {}
    for x, y in zip(xa, xb):
        ca[x] = ca.get(x, 0) + 1
        cb[y] = cb.get(y, 0) + 1
        cab[(x, y)] = cab.get((x, y), 0) + 1
    chi = 0.0
    for x in ca:
        for y in cb:
            e = ca[x] * cb[y] / n
            chi += (cab.get((x, y), 0) - e) ** 2 / e
    return chi / n + 1e-3


CUSTOM = {"custom_negmi": custom_negmi, "custom_agree": custom_agree, "custom_chi": custom_chi}


def oracle_weight_fn(ctx, name):
    """The edge-weight function as the oracle evaluates it on label lists."""
    if name == "mutual_info":
        return mi_lists
    if name in CUSTOM:
        return CUSTOM[name]
    from sklearn.metrics import adjusted_mutual_info_score, normalized_mutual_info_score
    own, ref = (ami_lists, adjusted_mutual_info_score) if name == "adjusted_mutual_info" else \
        (nmi_lists, normalized_mutual_info_score)

    def fn(xs, ys):
        mine = own(xs, ys)
        try:
            lib = float(ref([repr(x) for x in xs], [repr(y) for y in ys]))
        except Exception:
            return mine
        if abs(mine - lib) > 1e-9 + 1e-7 * abs(lib):
            ctx.note("tree:own-" + name + "-differs-from-sklearn")
            return lib
        return mine
    return fn


def prufer_trees(n):
    """Every labelled tree on 0..n-1 as a list of edges (n^(n-2) of them)."""
    if n == 1:
        yield []
        return
    if n == 2:
        yield [(0, 1)]
        return
    for seq in itertools.product(range(n), repeat=n - 2):
        deg = [1] * n
        for s in seq:
            deg[s] += 1
        edges = []
        for s in seq:
            for leaf in range(n):
                if deg[leaf] == 1:
                    edges.append((leaf, s))
                    deg[leaf] -= 1
                    deg[s] -= 1
                    break
        u, v = [i for i in range(n) if deg[i] == 1]
        edges.append((u, v))
        yield edges


def max_tree_weight(names, W):
    """Maximum total weight over all labelled spanning trees; W[(a, b)] symmetric dict."""
    n = len(names)
    best = None
    for edges in prufer_trees(n):
        w = sum(W[(names[i], names[j])] for i, j in edges)
        if best is None or w > best:
            best = w
    return 0.0 if best is None else best


def check_arborescence(ctx, E, nodes, root, label, detail):
    """E restricted to `nodes` is a spanning arborescence rooted at `root`.  Returns True/False."""
    par = {v: [a for (a, b) in E if b == v] for v in nodes}
    bad = [v for v in nodes if (v == root and par[v]) or (v != root and len(par[v]) != 1)]
    if bad or len(E) != len(nodes) - 1:
        ctx.violation("c11:tree:not-arborescence", f"{label}: nodes {bad} do not have exactly one parent (root {root!r}: none); "
                      f"edges {sorted(E)}", **detail)
        return False
    reach, stack = {root}, [root]
    while stack:
        x = stack.pop()
        for (a, b) in E:
            if a == x and b not in reach:
                reach.add(b)
                stack.append(b)
    if reach != set(nodes):
        ctx.violation("c11:tree:not-arborescence", f"{label}: nodes {sorted(set(nodes) - reach)} are not reachable from root "
                      f"{root!r}; edges {sorted(E)}", **detail)
        return False
    ctx.ok()
    return True


def run_tree(spec, ctx):
    """All estimate() calls of the case go to ONE TreeSearch object (root_node belongs to the object); every call is
    judged against the weight graph of ITS estimator_type / edge_weights_fn / class_node."""
    from pgmpy.estimators import TreeSearch
    d, opt = spec["data"], spec["opt"]
    cols, root = d["cols"], opt["root"]
    for f in ("tree:root-none" if root is None else "tree:root-given", f"tree:n{len(cols)}", "dup-column" if d["dup"] else None):
        if f:
            ctx.feature(f)
    if not d["mi_ok"]:
        ctx.note("tree:skipped-zero-mi")     # outside the quantifier (a zero-MI pair survived regeneration)
        return
    df = build_frame(d)
    L = label_columns(d)
    est = ctx.call(lambda: TreeSearch(df, root_node=root, n_jobs=1))
    if ctx.failed(est):
        return ctx.violation(f"c11:tree:exception:{est.type}@{est.where}", f"TreeSearch(...) raised {est!r}",
                             cols=cols, root=root, kinds=d["kinds"])
    calls = [opt] + list(opt.get("more") or [])
    if len(calls) > 1:
        ctx.feature("tree:object-reused")
    for k, o in enumerate(calls):
        if k:
            ctx.note("tree:calls-on-reused-object")
        judge_tree(ctx, d, df, L, est, dict(o, root=root), k)


def judge_tree(ctx, d, df, L, est, opt, call_no):
    from pgmpy.base import DAG
    cols = d["cols"]
    tan, cls, root, wname = opt["type"] == "tan", opt["class_node"], opt["root"], opt["wfn"]
    detail = dict(cols=cols, type=opt["type"], class_node=cls, root=root, wfn=wname, kinds=d["kinds"],
                  call_on_this_object=call_no + 1)
    for f in (f"tree:{opt['type']}", f"tree:w:{wname}"):
        ctx.feature(f)
    feats = [c for c in cols if c != cls]
    wfn = oracle_weight_fn(ctx, wname)
    # the weight graph, recomputed from the spec
    W = {}
    for a, b in itertools.combinations(cols, 2):
        if tan:
            if a == cls or b == cls:
                continue
            w = cond_weight(wfn, L[a], L[b], L[cls])
        else:
            w = wfn(L[a], L[b])
        W[(a, b)] = W[(b, a)] = w
    if any(abs(w) < 1e-9 for w in W.values()):
        ctx.note("tree:skipped-zero-weight")  # zero-weight pairs are not edges of the weight graph: outside the quantifier
        return
    # the root this call works with: the constructor's, or (root_node=None) the one an earlier call on this object chose
    try:
        eff_root = est.root_node
    except Exception:
        eff_root = root
    if root is None and eff_root is not None:
        ctx.note("tree:auto-root-kept-from-earlier-call")
        detail["root_kept_from_earlier_call"] = eff_root

    def estimate():
        kw = {"estimator_type": opt["type"], "show_progress": False}
        if wname != "mutual_info" or len(cols) % 2:
            kw["edge_weights_fn"] = CUSTOM.get(wname, wname)
        if tan:
            kw["class_node"] = cls
        return est.estimate(**kw)

    r = ctx.call(estimate)

    if tan and eff_root is not None and eff_root == cls:     # documented refusal
        ctx.feature("tree:root-is-class")
        ctx.expect(ctx.failed(r) and r.type == "ValueError", "c11:tan:root-equals-class-not-refused",
                   f"root_node == class_node was not refused with ValueError: {r!r}", **detail)
        return
    if ctx.failed(r):
        return classify_tree_exception(ctx, {"data": d, "opt": opt}, df, r, L, detail)
    if not isinstance(r, DAG):
        return ctx.violation("c11:tree:malformed-result", f"estimate returned {type(r).__name__}, not a DAG", **detail)
    got = read_graph(ctx, r, "c11:tree:malformed-result", "estimate")
    if got is None:
        return
    nodes, E = got
    detail["result"] = sorted(E)
    chosen = eff_root
    if chosen is None:
        try:
            chosen = est.root_node
        except Exception:
            chosen = None
        detail["auto_root"] = chosen
        if chosen not in cols:
            return ctx.violation("c11:tree:no-root", f"root_node=None: estimator reports root {chosen!r}", **detail)
        # documented auto-pick (node with the highest sum of unconditional weights): recorded, not judged
        uw = oracle_weight_fn(ctx, wname)
        sums = {c: sum(uw(L[c], L[o]) for o in cols if o != c) for c in cols}
        if sums[chosen] < max(sums.values()) - 1e-9:
            ctx.note("tree:auto-root-not-argmax")
    ctx.expect(sorted(nodes) == sorted(cols) and len(nodes) == len(cols), "c11:tree:wrong-nodes",
               f"result nodes {sorted(nodes)} != data columns {sorted(cols)}", **detail)
    if tan:
        Ec = {e for e in E if cls in e}
        ctx.expect(Ec == {(cls, f) for f in feats}, "c11:tan:class-edges",
                   f"edges at the class node are {sorted(Ec)}, expected {cls!r} -> every feature", **detail)
        E = {e for e in E if cls not in e}
    if check_arborescence(ctx, E, feats, chosen, opt["type"], detail):
        got_w = sum(W[e] for e in E)
        best = max_tree_weight(feats, W)
        scale = max(1.0, max(abs(w) for w in W.values()) if W else 1.0)
        ctx.expect(got_w >= best - 1e-9 * scale * len(feats), "c11:tree:not-max-weight",
                   f"tree weight {got_w!r} < maximum {best!r} over all {len(feats)}^{max(len(feats) - 2, 0)} spanning trees", **detail)
        if got_w >= best - 1e-9 * scale * len(feats):
            ctx.xcell[f"tree:weight-of-returned-tree:call{call_no + 1}"] = round(got_w, 7)
    ctx.nontrivial = ctx.nontrivial or len(feats) >= 3


def classify_tree_exception(ctx, spec, df, r, L, detail):
    from pgmpy.estimators import TreeSearch
    d, opt = spec["data"], spec["opt"]
    cols, cls, wname = d["cols"], opt["class_node"], opt["wfn"]
    key = f"c11:tree:exception:{r.type}@{r.where}"
    what = f"TreeSearch.estimate raised {r!r}"
    if opt["type"] == "tan" and opt["root"] is None and r.type == "ValueError":
        # known mechanism: the auto-picked root is the class node itself (it maximises the unconditional weight sum)
        uw = oracle_weight_fn(ctx, wname)
        sums = {c: sum(uw(L[c], L[o]) for o in cols if o != c) for c in cols}
        top = [c for c in cols if sums[c] >= max(sums.values()) - 1e-9]
        if cls in top:
            feats = [c for c in cols if c != cls]
            kw = {"estimator_type": "tan", "class_node": cls, "show_progress": False}
            if wname != "mutual_info":
                kw["edge_weights_fn"] = CUSTOM.get(wname, wname)
            r2 = ctx.call(lambda: TreeSearch(df, root_node=feats[0], n_jobs=1).estimate(**kw))
            if not ctx.failed(r2):
                return ctx.violation(K_TAN_ROOT, what + " [root_node=None and the class node has the largest weight sum; "
                                     "works with an explicit root]", **detail)
    if opt["type"] == "tan" and d["kinds"].get(cls) == "cat_unused" and r.type == "ValueError" \
            and r.where.endswith("_conditional_edge_weights_fn"):
        # known mechanism: the class column is a pandas categorical with a declared category that never occurs;
        # value_counts() lists it with probability 0 and the weight function is called on an empty subset
        d2 = dict(d, kinds=dict(d["kinds"], **{cls: "cat"}))
        kw = {"estimator_type": "tan", "class_node": cls, "show_progress": False}
        if wname != "mutual_info":
            kw["edge_weights_fn"] = CUSTOM.get(wname, wname)
        r2 = ctx.call(lambda: TreeSearch(build_frame(d2), root_node=opt["root"], n_jobs=1).estimate(**kw))
        if not ctx.failed(r2) or r2.where != r.where:
            return ctx.violation(K_TAN_UNUSED, what + " [class column is categorical with an unobserved category; the "
                                 "same data without the unused category do not raise here]", **detail)
    ctx.violation(key, what, **detail)


# =============================================================================== entry
def run_case(spec, ctx):
    ctx.feature("kind:" + spec["kind"])
    if spec["kind"] == "hc":
        run_hc(spec, ctx)
    elif spec["kind"] == "ex":
        run_ex(spec, ctx)
    else:
        run_tree(spec, ctx)
