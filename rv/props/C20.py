"""C20 - linear-Gaussian models agree with multivariate-normal algebra.

Observe: LinearGaussianBayesianNetwork.to_joint_gaussian / predict / fit / simulate,
         GaussianDistribution.marginalize / reduce / to_canonical_factor / product (both inplace
         modes, and `*`), CanonicalDistribution.to_joint_gaussian.
Oracle : written from the definitions, on the spec only, with the checker's own indexing:
         * joint: mean by recursive substitution, covariance by the covariance recursion of the
           structural equations (cross-checked inside the oracle against (I-B)^-T Omega (I-B)^-1);
         * predict: mu_a + S_ab S_bb^-1 (x_b - mu_b), S_aa - S_ab S_bb^-1 S_ba for every
           observed/missing split, compared by the returned variable names;
         * fit: numpy.linalg.lstsq with intercept per node, residual variance under any of the
           usual conventions (ddof 0, 1, or #regressors+1);
         * simulate: reproducibility and whitened sample moments inside a chi-square tail bound;
         * Gaussian ops: sub-vector/sub-matrix, conditioning formulas, K = S^-1, h = K mu,
           g = -mu'K mu/2 - log((2 pi)^(n/2) |S|^(1/2)), log-density at 20 points, K1+K2 / h1+h2.
"""
import itertools
import math

import numpy as np

from rv import gen

PLAN = {
    "quick": {"cases": 6000, "hashseeds": 3, "shards": 5, "timeout": 900, "min_nontrivial": 2500},
    "thorough": {"cases": 30000, "hashseeds": 8, "shards": 2, "timeout": 3600, "min_nontrivial": 12000},
}
RULE = ("case kinds drawn per index: 'lgbn' (random DAG, 1-6 nodes [thorough 1-8], templates ER/chain/collider/"
        "fork/family/two parts/isolated node, node names strings or arbitrary ints or a permutation of 0..n-1, "
        "coefficients +-[0.2,3] plus exact zeros and integers [thorough +-[0.05,6]], variances [0.05,4], CPD parent "
        "order permuted against the graph, edges/CPDs added in shuffled order; to_joint_gaussian, then predict for "
        "EVERY non-empty proper subset of missing variables [sampled above 6 nodes] on 1-4 data rows with shuffled "
        "columns, then simulate twice with one seed) | 'fit' (same models; data of 30-500 rows [thorough -5000] of "
        "full column rank: sampled from the model, unrelated correlated data, integer-valued data, data with large "
        "offsets; extra columns, shuffled columns, non-default index; fit, then re-fit on other data) | 'gauss' "
        "(Gaussian on 1-6 variables [thorough 1-8], covariance random PD with condition number <= 1e4 / integer / "
        "diagonal / block-diagonal; every [sampled above 5 vars] non-empty proper subset for marginalize and "
        "reduce in both inplace modes, canonical form, products with 1-2 other Gaussians on same/overlapping/"
        "disjoint/permuted scopes in both inplace modes and via *, CanonicalDistribution.to_joint_gaussian) | 'chain' "
        "(8 [thorough 10] Gaussian objects, each taken through 2-4 [thorough 2-6] operations on the ONE object: "
        "product / divide (operand on same, permuted, sub- or enlarged scope; divide operands keep K1-K2 positive "
        "definite), marginalize, reduce, normalize, copy, 80% in place, with the precision cache filled or not before "
        "each operation; after EVERY step mean, covariance, precision_matrix and to_canonical_factor() (K, h, g, "
        "log-density at 8 points) are compared with the oracle's running state on deepcopy snapshots; plus 3 "
        "CanonicalDistribution objects taken through 2-3 products / copies with (K, h, g) and to_joint_gaussian() "
        "checked after every step). "
        "non-trivial: lgbn/fit need >= 2 nodes and >= 1 edge with a non-zero coefficient; gauss needs >= 2 variables "
        "and a non-zero off-diagonal covariance; chain needs an object with >= 2 density-changing steps; distinct by digest of the whole spec")
ASSUMPTIONS = ["numpy linear algebra (solve, inv, lstsq, slogdet, cholesky) is correct in float64",
               "to_joint_gaussian / simulate label their positions by networkx.topological_sort(model) (the order "
               "predict and simulate themselves use); the checker reads that order from networkx, not from pgmpy",
               "tolerances: 1e-7 relative for the joint (the method rounds to 8 decimals), 1e-6 plus a first-order "
               "bound on the effect of that rounding and of float error (cond(S_bb) <= 1e10, else the split is "
               "skipped and counted) for predict, 1e-6 for fit and the Gaussian operations",
               "simulate is judged statistically: whitened sample mean / second moments of 20000 draws inside "
               "Laurent-Massart chi-square tail bounds of probability < 1e-14 per entry"]
_L = "pgmpy.models.LinearGaussianBayesianNetwork:LinearGaussianBayesianNetwork."
_G = "pgmpy.factors.distributions.GaussianDistribution:GaussianDistribution."
_C = "pgmpy.factors.distributions.CanonicalDistribution:CanonicalDistribution."
REACH = [_L + "to_joint_gaussian", _L + "predict", _L + "fit", _L + "simulate",
         _G + "marginalize", _G + "reduce", _G + "to_canonical_factor", _G + "_operate", _G + "product",
         _C + "to_joint_gaussian", _C + "_operate", _G + "divide", _G + "copy", _G + "normalize", _C + "copy"]
REACH_REQUIRED = list(REACH)
MANIFEST = {
    "text": "On generated linear-Gaussian networks and Gaussian distributions the reported joint, every "
            "observed/missing prediction split, the fitted regression parameters and the Gaussian "
            "marginalise/reduce/canonical/product results equal the closed forms computed by an independent oracle.",
    "note": "trusted: numpy.linalg; networkx.topological_sort for position labels; statistical bound for simulate",
    "technique": "runtime monitoring with reference-model oracle",
}

STR_POOL = ["x1", "x10", "x2", "b", "a", "Z", "y_3", "w", "K k", "m", "A0", "q"]
SIM_N = {"quick": 20000, "thorough": 60000}


# =============================================================================== generators
def _names(rng, n):
    kind = rng.choice(["str", "str", "str", "int", "intperm"])
    if kind == "str":
        return kind, rng.sample(STR_POOL, n)
    if kind == "int":
        return kind, rng.sample(range(-3, 40), n)
    names = list(range(n))
    rng.shuffle(names)
    return kind, names


def _coef(rng, wide):
    r = rng.random()
    if r < 0.15:
        return 0.0
    if r < 0.27:
        return rng.choice([-3, -2, -1, 1, 2, 3])           # python ints on purpose
    lo, hi = (0.05, 6.0) if wide else (0.2, 3.0)
    x = rng.choice([-1, 1]) * rng.uniform(lo, hi)
    return round(x, 3) if rng.random() < 0.5 else x


def _lg_spec(rng, tier, n_min=1):
    wide = tier == "thorough" and rng.random() < 0.4
    n_hi = 8 if tier == "thorough" and rng.random() < 0.3 else 6
    n = 1 if n_min <= 1 and rng.random() < 0.06 else rng.randint(max(2, n_min), n_hi)
    nkind, nodes = _names(rng, n)
    edges = gen.rand_dag_edges(rng, nodes, p=rng.choice([0.3, 0.5]), max_parents=rng.choice([2, 3, 5]))
    par = gen.parents_of(nodes, edges)
    cpds = []
    for v in nodes:
        ev = list(par[v])
        rng.shuffle(ev)                                     # CPD evidence order != graph order
        b0 = rng.choice([0.0, 0, 1, -2]) if rng.random() < 0.3 else rng.uniform(-5, 5)
        var = rng.choice([1, 2, 0.5, 4]) if rng.random() < 0.2 else rng.uniform(0.05, 4.0)
        cpds.append({"v": v, "b0": b0, "ev": ev, "w": [_coef(rng, wide) for _ in ev], "var": var})
    edges = [list(e) for e in edges]
    rng.shuffle(edges)
    add_order = list(range(n))
    rng.shuffle(add_order)
    return {"nodes": nodes, "names": nkind, "edges": edges, "cpds": cpds, "add_order": add_order,
            "build": rng.choice(["ctor", "nodes_first", "edges_then_nodes"])}


def _subsets(rng, items, cap):
    """All non-empty proper subsets (as index lists), or a sample of `cap` of them, sizes mixed."""
    n = len(items)
    allsub = [list(c) for k in range(1, n) for c in itertools.combinations(range(n), k)]
    if len(allsub) > cap:
        allsub = rng.sample(allsub, cap)
    return allsub


def _pd_matrix(rng, n, kind=None):
    """A positive-definite covariance with bounded condition number, as nested python lists."""
    kind = kind or rng.choice(["rand", "rand", "rand", "int", "diag", "block"])
    nr = np.random.default_rng(rng.randrange(2 ** 32))
    if kind == "int" or n == 1 and kind != "diag":
        A = nr.integers(-2, 3, size=(n, n)).astype(float)
        S = A @ A.T + np.eye(n) * rng.choice([1, 2])
    elif kind == "diag":
        S = np.diag([rng.choice([1.0, 0.5, 2.0, round(rng.uniform(0.05, 20), 3)]) for _ in range(n)])
    else:
        def one(m):
            cond = rng.choice([1.5, 10, 100, 1e3, 1e4])
            lam = np.exp(nr.uniform(0, math.log(cond), size=m))
            if m > 1:
                lam[0], lam[1] = 1.0, cond
            lam *= rng.choice([0.05, 0.5, 1.0])
            Q, _ = np.linalg.qr(nr.normal(size=(m, m)))
            return (Q * lam) @ Q.T
        if kind == "block" and n >= 2:
            h = rng.randint(1, n - 1)
            S = np.zeros((n, n))
            S[:h, :h] = one(h)
            S[h:, h:] = one(n - h)
            p = list(range(n))
            rng.shuffle(p)
            S = S[np.ix_(p, p)]
        else:
            S = one(n)
    S = (S + S.T) / 2
    return kind, S.tolist()


def _gauss_spec(rng, tier):
    n_hi = 8 if tier == "thorough" and rng.random() < 0.3 else 6
    n = 1 if rng.random() < 0.06 else rng.randint(2, n_hi)
    _, names = _names(rng, n)
    ckind, cov = _pd_matrix(rng, n)
    mean = [rng.choice([0, 1, -3, 4]) if rng.random() < 0.2 else rng.uniform(-5, 5) for _ in range(n)]
    subs = _subsets(rng, names, 30 if n <= 5 else 40) if n >= 2 else []
    ops = []
    for s in subs:
        order = list(s)
        rng.shuffle(order)                                  # order of the `values` / `variables` argument
        vals = [rng.choice([0, 1, -2, 7]) if rng.random() < 0.2 else rng.uniform(-10, 10) for _ in order]
        ops.append({"idx": order, "vals": vals})
    # other Gaussians for products
    others = []
    pool = [x for x in STR_POOL + list(range(40, 60)) if x not in names]
    for _ in range(rng.choice([1, 2])):
        mode = rng.choice(["same", "perm", "overlap", "disjoint", "subset", "superset"])
        if mode == "same":
            vs = list(names)
        elif mode == "perm":
            vs = list(names)
            rng.shuffle(vs)
        elif mode == "subset":
            vs = rng.sample(names, rng.randint(1, n))
        elif mode == "disjoint":
            vs = rng.sample(pool, rng.randint(1, 3))
        else:
            keep = rng.sample(names, rng.randint(1, n)) if mode == "overlap" else list(names)
            vs = keep + rng.sample(pool, rng.randint(1, 2))
            rng.shuffle(vs)
        _, c2 = _pd_matrix(rng, len(vs))
        m2 = [rng.uniform(-5, 5) for _ in vs]
        others.append({"mode": mode, "vars": vs, "mean": m2, "cov": c2})
    # a canonical form given directly
    _, K = _pd_matrix(rng, n)
    can = {"K": K, "h": [rng.uniform(-4, 4) for _ in range(n)], "g": rng.uniform(-3, 3)}
    return {"vars": names, "mean": mean, "cov": cov, "covkind": ckind, "ops": ops, "others": others,
            "canonical": can, "pt_seed": rng.randrange(2 ** 32), "touch_precision": rng.random() < 0.5}


def make_data(nodes, cpds, d):
    """Data set of a fit case (checker's own sampling; deterministic in the spec)."""
    nr = np.random.default_rng(d["seed"])
    N, n = d["n"], len(nodes)
    if d["mode"] in ("model", "int", "offset"):
        X, _ = _sample_model(nodes, cpds, N, nr)
        if d["mode"] == "offset":
            X = X + np.array([1000.0 * ((i % 3) - 1) for i in range(n)])
        if d["mode"] == "int":
            X = np.round(X * 3)
    else:                                                   # data that has nothing to do with the model
        A = nr.normal(size=(n, n)) + np.eye(n)
        X = nr.standard_t(5, size=(N, n)) @ A + nr.uniform(-3, 3, size=n)
    return X


def _sample_model(nodes, cpds, N, nr):
    byv = {c["v"]: c for c in cpds}
    order = _topo(nodes, cpds)
    col = {}
    for v in order:
        c = byv[v]
        m = float(c["b0"]) + sum(float(w) * col[p] for p, w in zip(c["ev"], c["w"]))
        col[v] = m + nr.normal(size=N) * math.sqrt(float(c["var"]))
    return np.column_stack([col[v] for v in nodes]), order


def _design_cond(X):
    Z = (X - X.mean(0)) / np.where(X.std(0) > 0, X.std(0), 1.0)
    s = np.linalg.svd(Z, compute_uv=False)
    return float("inf") if s[-1] <= 0 else float(s[0] / s[-1])


def _fit_spec(rng, tier):
    lg = _lg_spec(rng, tier, n_min=1)
    nodes = lg["nodes"]
    datas = []
    for _ in range(2):
        for attempt in range(20):
            hi = 5000 if tier == "thorough" and rng.random() < 0.2 else 500
            d = {"n": rng.randint(30, hi), "seed": rng.randrange(2 ** 32),
                 "mode": rng.choice(["model", "model", "random", "int", "offset"])}
            X = make_data(nodes, lg["cpds"], d)
            if _design_cond(X) <= 1e4:                      # full column rank, with margin
                break
        else:
            d = {"n": 200, "seed": rng.randrange(2 ** 32), "mode": "random"}
        perm = list(range(len(nodes)))
        rng.shuffle(perm)
        d.update(colperm=perm, extra=rng.random() < 0.3, index=rng.choice(["range", "range", "shuffled", "str"]),
                 dtype=rng.choice(["float", "float", "int"]) if d["mode"] == "int" else "float")
        datas.append(d)
    return {"lg": lg, "data": datas, "prior_cpds": rng.random() < 0.3}


def gen_case(seed, idx, tier):
    rng = gen.rng_for("C20", seed, idx)
    kind = rng.choice(["lgbn", "lgbn", "lgbn", "fit", "fit", "gauss", "gauss", "gauss", "chain", "chain"])
    if kind == "chain":
        from rv.props import C20_chain
        return dict(C20_chain.gen_chain_case(rng, tier), kind=kind)
    if kind == "lgbn":
        lg = _lg_spec(rng, tier)
        nodes = lg["nodes"]
        n = len(nodes)
        nrows = rng.randint(1, 4)
        rows = [[rng.choice([0, 1, -1, 10]) if rng.random() < 0.15 else rng.uniform(-10, 10) for _ in nodes]
                for _ in range(nrows)]
        if rng.random() < 0.15:
            rows = [[x * 100 for x in r] for r in rows]
        colperm = list(range(n))
        rng.shuffle(colperm)
        return {"kind": kind, "lg": lg, "rows": rows, "colperm": colperm,
                "missing": _subsets(rng, nodes, 62 if tier == "quick" else 120) if n >= 2 else [],
                "sim": {"seed": rng.randrange(2 ** 31), "do": rng.random() < (0.5 if tier == "quick" else 0.7)}}
    if kind == "fit":
        return dict(_fit_spec(rng, tier), kind=kind)
    return dict(_gauss_spec(rng, tier), kind=kind)


# ================================================================================== oracle
def _topo(nodes, cpds):
    byv = {c["v"]: c for c in cpds}
    done, order = set(), []
    while len(order) < len(nodes):
        for v in nodes:
            if v not in done and all(p in done for p in byv[v]["ev"]):
                done.add(v)
                order.append(v)
    return order


def lg_joint(nodes, cpds):
    """(mu, S) indexed like `nodes`, from the structural equations X_v = b0 + sum w_p X_p + e_v."""
    byv = {c["v"]: c for c in cpds}
    ix = {v: i for i, v in enumerate(nodes)}
    n = len(nodes)
    mu = np.zeros(n)
    S = np.zeros((n, n))
    seen = []
    for v in _topo(nodes, cpds):
        c = byv[v]
        pw = [(ix[p], float(w)) for p, w in zip(c["ev"], c["w"])]
        i = ix[v]
        mu[i] = float(c["b0"]) + sum(w * mu[p] for p, w in pw)
        for u in seen:                                       # Cov(X_v, X_u) = sum_p w_p Cov(X_p, X_u)
            S[i, u] = S[u, i] = sum(w * S[p, u] for p, w in pw)
        S[i, i] = float(c["var"]) + sum(w1 * w2 * S[p1, p2] for p1, w1 in pw for p2, w2 in pw)
        seen.append(i)
    # the statement's matrix form, with the checker's own indexing: B[p, v] = coefficient of p in v
    B = np.zeros((n, n))
    for c in cpds:
        for p, w in zip(c["ev"], c["w"]):
            B[ix[p], ix[c["v"]]] = float(w)
    inv = np.linalg.inv(np.eye(n) - B)
    S2 = inv.T @ np.diag([float(byv[v]["var"]) for v in nodes]) @ inv
    if not np.allclose(S, S2, rtol=1e-8, atol=1e-8 * (1 + np.abs(S).max())):
        raise AssertionError("oracle self-check failed: recursion and matrix form disagree")
    return mu, S


def conditional(mu, S, a, b, xb):
    """Conditional of block a given block b = xb (rows).  Returns mean (rows x |a|), cov, G, W, cond_bb."""
    Sab = S[np.ix_(a, b)]
    Sbb = S[np.ix_(b, b)]
    D = (np.atleast_2d(xb) - mu[b]).T                       # |b| x rows
    W = np.linalg.solve(Sbb, D)                             # S_bb^-1 d
    G = np.linalg.solve(Sbb, Sab.T).T                       # S_ab S_bb^-1
    m = mu[a][None, :] + (Sab @ W).T
    C = S[np.ix_(a, a)] - G @ Sab.T
    return m, (C + C.T) / 2, G, W, float(np.linalg.cond(Sbb)), Sab


def gauss_logpdf(mu, S, X):
    n = len(mu)
    D = np.atleast_2d(X) - mu
    sol = np.linalg.solve(S, D.T).T
    sign, logdet = np.linalg.slogdet(S)
    return -0.5 * np.einsum("ij,ij->i", D, sol) - 0.5 * (n * math.log(2 * math.pi) + logdet)


def close(got, want, rtol, atol):
    got, want = np.asarray(got, float), np.asarray(want, float)
    if got.shape != want.shape or not np.all(np.isfinite(got)):
        return False
    return bool(np.all(np.abs(got - want) <= atol + rtol * np.abs(want)))


def _r(x, k=8):
    return [float(f"{v:.{k}g}") for v in np.asarray(x, float).ravel()]


def _fl(x):
    """Unrounded floats for cross-cell comparison (the parent compares with 1e-9 tolerance)."""
    return [float(v) for v in np.asarray(x, float).ravel()]


# ================================================================================ builders
def build_lgbn(lg, with_cpds=True):
    from pgmpy.factors.continuous import LinearGaussianCPD
    from pgmpy.models import LinearGaussianBayesianNetwork
    edges = [tuple(e) for e in lg["edges"]]
    if lg["build"] == "ctor":
        m = LinearGaussianBayesianNetwork(edges)
        m.add_nodes_from(lg["nodes"])
    elif lg["build"] == "nodes_first":
        m = LinearGaussianBayesianNetwork()
        m.add_nodes_from(lg["nodes"])
        m.add_edges_from(edges)
    else:
        m = LinearGaussianBayesianNetwork()
        m.add_edges_from(edges)
        m.add_nodes_from(lg["nodes"])
    if with_cpds:
        for i in lg["add_order"]:
            c = lg["cpds"][i]
            m.add_cpds(LinearGaussianCPD(c["v"], [c["b0"]] + list(c["w"]), c["var"], list(c["ev"])))
    return m


def build_gauss(vs, mean, cov):
    from pgmpy.factors.distributions import GaussianDistribution
    return GaussianDistribution(list(vs), list(mean), [list(r) for r in cov])


def read_gauss(d):
    vs = list(d.variables)
    mu = np.asarray(d.mean, float)
    if mu.shape not in ((len(vs), 1), (len(vs),)):
        raise ValueError(f"mean has shape {mu.shape} for {len(vs)} variables")
    S = np.asarray(d.covariance, float)
    if S.shape != (len(vs), len(vs)):
        raise ValueError(f"covariance has shape {S.shape} for {len(vs)} variables")
    if len(set(map(repr, vs))) != len(vs):
        raise ValueError(f"duplicate variables {vs}")
    return vs, mu.reshape(-1), S


GT = dict(rtol=1e-6, atol=1e-6)


def cmp_gauss(ctx, label, got, want_vars, want_mu, want_S, key, **detail):
    """Compare a returned GaussianDistribution with the oracle (vars, mu, S) by variable name."""
    try:
        vs, mu, S = read_gauss(got)
    except Exception as e:
        ctx.violation("c20:malformed-result", f"{label}: cannot read result: {type(e).__name__}: {e}", **detail)
        return False
    if set(map(repr, vs)) != set(map(repr, want_vars)):
        ctx.violation(key, f"{label}: scope {vs!r}, expected {list(want_vars)!r}", **detail)
        return False
    p = [list(want_vars).index(v) for v in vs]
    wm, wS = np.asarray(want_mu)[p], np.asarray(want_S)[np.ix_(p, p)]
    if not close(mu, wm, **GT):
        ctx.violation(key, f"{label}: mean over {vs!r} is {_r(mu)}, expected {_r(wm)}", **detail)
        return False
    if not close(S, wS, **GT):
        ctx.violation(key, f"{label}: covariance over {vs!r} is {_r(S)}, expected {_r(wS)}", **detail)
        return False
    ctx.ok()
    return True


def gauss_state(d):
    try:
        vs, mu, S = read_gauss(d)
        return (tuple(map(repr, vs)), mu.tobytes(), S.tobytes())
    except Exception as e:
        return ("unreadable", repr(e))


# ================================================================================ lgbn case
def _positions(model):
    import networkx as nx
    return list(nx.topological_sort(model))


def run_lgbn(spec, ctx):
    import pandas as pd
    lg = spec["lg"]
    nodes, cpds = lg["nodes"], lg["cpds"]
    n = len(nodes)
    ix = {v: i for i, v in enumerate(nodes)}
    mu, S = lg_joint(nodes, cpds)
    ctx.nontrivial = n >= 2 and any(float(w) != 0 for c in cpds for w in c["w"])
    ctx.feature(f"names:{lg['names']}")
    ctx.feature(f"n={n}")
    model = build_lgbn(lg)
    pos = _positions(model)
    if sorted(map(repr, pos)) != sorted(map(repr, nodes)):
        return ctx.violation("c20:malformed-model", f"model nodes {pos!r} differ from the spec {nodes!r}")
    p = [ix[v] for v in pos]

    # ---- joint
    r = ctx.call(model.to_joint_gaussian)
    joint_ok = False
    if ctx.failed(r):
        ctx.violation(f"c20:exception:{r.type}@{r.where}", f"to_joint_gaussian raised {r!r}")
    else:
        try:
            gm, gS = r
            gm, gS = np.asarray(gm, float), np.asarray(gS, float)
            if gm.shape != (n,) or gS.shape != (n, n):
                raise ValueError(f"shapes {gm.shape} {gS.shape} for {n} nodes")
        except Exception as e:
            ctx.violation("c20:malformed-result", f"to_joint_gaussian: {type(e).__name__}: {e}")
        else:
            wm, wS = mu[p], S[np.ix_(p, p)]
            okm = ctx.expect(close(gm, wm, rtol=1e-7, atol=1e-7), "c20:wrong-joint-mean",
                             f"joint mean in order {pos!r} is {_r(gm)}, structural equations give {_r(wm)}")
            okS = ctx.expect(close(gS, wS, rtol=1e-7, atol=1e-7), "c20:wrong-joint-cov",
                             f"joint covariance in order {pos!r} is {_r(gS)}, structural equations give {_r(wS)}")
            joint_ok = okm and okS
            if joint_ok and np.linalg.cond(S) < 1e6:
                q = [pos.index(v) for v in nodes]
                ctx.xcell["joint"] = _fl(gm[q]) + _fl(gS[np.ix_(q, q)])

    # ---- predict: every observed/missing split
    rows = np.array(spec["rows"], dtype=float)
    single_ok, multi, mech = True, [], []
    for si, sub in enumerate(spec["missing"]):
        a_names = [nodes[i] for i in sub]
        b_idx = [i for i in spec["colperm"] if i not in sub]       # data columns, shuffled
        cols = {nodes[i]: rows[:, i] for i in b_idx}
        df = pd.DataFrame(cols, columns=[nodes[i] for i in b_idx])
        label = f"predict(missing={a_names!r})"
        r = ctx.call(model.predict, df)
        if ctx.failed(r):
            ctx.violation(f"c20:exception:{r.type}@{r.where}", f"{label} raised {r!r}")
            single_ok = single_ok and len(sub) > 1
            continue
        try:
            gv, gm, gC = r
            gv = list(gv)
            gm, gC = np.asarray(gm, float), np.asarray(gC, float)
            if sorted(map(repr, gv)) != sorted(map(repr, a_names)):
                raise ValueError(f"returned variables {gv!r}")
            if gm.shape != (rows.shape[0], len(gv)):
                raise ValueError(f"mean has shape {gm.shape}, expected {(rows.shape[0], len(gv))}")
            if gC.shape != (len(gv), len(gv)):
                raise ValueError(f"covariance has shape {gC.shape}")
        except Exception as e:
            ctx.violation("c20:malformed-result", f"{label}: {type(e).__name__}: {e}")
            single_ok = single_ok and len(sub) > 1
            continue
        a = [ix[v] for v in gv]
        b = b_idx
        wm, wC, G, W, cond_bb, Sab = conditional(mu, S, a, b, rows[:, b])
        if cond_bb > 1e10:
            ctx.note("predict-split-skipped-illconditioned")
            continue
        g1 = 1 + np.abs(G).sum(axis=1)                              # 1 + ||G_i||_1
        w1 = 1 + np.abs(W).sum(axis=0)                              # 1 + ||w_r||_1 per row
        fl = 1e-13 * cond_bb
        tol_m = 1e-6 * (1 + np.abs(wm)) + 2e-8 * np.outer(w1, g1) \
            + fl * np.outer(np.linalg.norm(W, axis=0), np.linalg.norm(Sab, axis=1))
        tol_C = 1e-6 * (1 + np.abs(wC)) + 2e-8 * np.outer(g1, g1) \
            + fl * np.outer(np.linalg.norm(Sab, axis=1), np.linalg.norm(G, axis=1))
        m_ok = bool(np.all(np.isfinite(gm)) and np.all(np.abs(gm - wm) <= tol_m))
        C_ok = bool(np.all(np.isfinite(gC)) and np.all(np.abs(gC - wC) <= tol_C))
        detail = dict(missing=a_names, returned=gv, observed=[nodes[i] for i in b])
        if not m_ok:
            ctx.violation("c20:wrong-predict-mean", f"{label}: conditional mean for {gv!r} is {_r(gm)}, "
                          f"Gaussian conditioning gives {_r(wm)}", **detail)
        else:
            ctx.ok()
        if C_ok:
            ctx.ok()
        else:
            multi.append((label, gv, gC, wC, tol_C, S[a, a], G @ Sab.T, m_ok, detail))
        if len(sub) == 1 and not (m_ok and C_ok):
            single_ok = False
        if si == 0 and m_ok and cond_bb < 1e6:
            o = np.argsort([repr(v) for v in gv])
            ctx.xcell["predict0"] = _fl(gm[:, o]) + _fl(gC[np.ix_(o, o)])
        ctx.feature(f"missing={len(sub)}")
    for (label, gv, gC, wC, tol_C, diag_aa, M, m_ok, detail) in multi:
        # structural classifier of the one known mechanism: S_aa extracted with two index lists, i.e. as
        # its DIAGONAL, which numpy then broadcasts along rows: got[i, j] = S[a_j, a_j] - (S_ab S_bb^-1 S_ba)[i, j].
        # Holds only if: >= 2 missing variables, conditional mean right, the diagonal of the returned matrix right,
        # every single-missing split of the same model right, and the returned matrix equals that expression.
        k = len(gv)
        diag_right = bool(np.all(np.abs(np.diag(gC) - np.diag(wC)) <= np.diag(tol_C)))
        broadcast = diag_aa[None, :] - M
        is_mech = (k >= 2 and m_ok and single_ok and joint_ok and diag_right
                   and bool(np.all(np.abs(gC - broadcast) <= tol_C)))
        if is_mech:
            mech.append((label, gv, gC, wC, detail))
            continue
        ctx.violation("c20:wrong-predict-cov", f"{label}: conditional covariance over {gv!r} is {_r(gC)}, Gaussian "
                      f"conditioning gives {_r(wC)}", **detail)
    if mech:
        # one record per case (a 6-node model has 56 such splits; they must not crowd out other violations)
        label, gv, gC, wC, detail = min(mech, key=lambda t: len(t[1]))
        ctx.violation("c20:predict-cov-aa-diagonal", f"{label}: conditional covariance over {gv!r} is {_r(gC)}, "
                      f"Gaussian conditioning gives {_r(wC)}; only off-diagonal entries differ and the matrix equals "
                      f"S[a_j,a_j] - M[i,j] (S_aa taken as its diagonal); {len(mech)} splits with >= 2 missing "
                      f"variables of this model fail this way, all single-variable splits are right", **detail)
        ctx.note("predict-cov-aa-diagonal-splits", len(mech))

    # ---- simulate
    if spec["sim"]["do"]:
        N = SIM_N.get(ctx.tier, 20000)
        sd = spec["sim"]["seed"]
        r1 = ctx.call(model.simulate, n=N, seed=sd)
        r2 = ctx.call(model.simulate, n=N, seed=sd)
        if ctx.failed(r1) or ctx.failed(r2):
            bad = r1 if ctx.failed(r1) else r2
            ctx.violation(f"c20:exception:{bad.type}@{bad.where}", f"simulate raised {bad!r}")
        else:
            try:
                cols = list(r1.columns)
                if sorted(map(repr, cols)) != sorted(map(repr, nodes)) or r1.shape != (N, n):
                    raise ValueError(f"columns {cols!r}, shape {r1.shape}")
                X1 = r1[nodes].to_numpy(dtype=float)
                X2 = r2[list(r1.columns)].to_numpy(dtype=float)
                same = bool(np.array_equal(r1.to_numpy(dtype=float), X2))
            except Exception as e:
                ctx.violation("c20:malformed-result", f"simulate: {type(e).__name__}: {e}")
            else:
                ctx.expect(same, "c20:simulate-not-reproducible", f"simulate(n={N}, seed={sd}) twice gave different data")
                if np.linalg.cond(S) < 1e10:
                    L = np.linalg.cholesky(S)
                    Z = np.linalg.solve(L, (X1 - mu).T).T
                    zm = Z.mean(axis=0)
                    M2 = Z.T @ Z / N
                    x = 34.0
                    delta = 2 * math.sqrt(x / N) + 2 * x / N
                    ctx.expect(bool(np.all(np.abs(zm) <= 8.0 / math.sqrt(N))), "c20:simulate-wrong-mean",
                               f"whitened sample mean {_r(zm, 4)} outside 8/sqrt(N)", nodes=nodes, columns=cols)
                    ctx.expect(bool(np.all(np.abs(M2 - np.eye(n)) <= delta)), "c20:simulate-wrong-cov",
                               f"whitened second moments {_r(M2, 4)} deviate from I by more than {delta:.3f}",
                               nodes=nodes, columns=cols)
                    ctx.feature("simulate")


# ================================================================================= fit case
def run_fit(spec, ctx):
    import pandas as pd
    lg = spec["lg"]
    nodes, cpds = lg["nodes"], lg["cpds"]
    n = len(nodes)
    ix = {v: i for i, v in enumerate(nodes)}
    byv = {c["v"]: c for c in cpds}
    ctx.nontrivial = n >= 2 and any(len(c["ev"]) for c in cpds)
    ctx.feature(f"names:{lg['names']}")
    model = build_lgbn(lg, with_cpds=spec["prior_cpds"])
    for di, d in enumerate(spec["data"]):
        X = make_data(nodes, cpds, d)
        N = X.shape[0]
        ctx.feature(f"data:{d['mode']}")
        colnames = [nodes[i] for i in d["colperm"]]
        cols = {}
        for i in d["colperm"]:
            cols[nodes[i]] = X[:, i].astype(np.int64) if d["dtype"] == "int" else X[:, i]
        df = pd.DataFrame(cols, columns=colnames)
        if d["extra"]:
            extra = "extra_col" if lg["names"] == "str" else 997
            df[extra] = np.arange(N, dtype=float) % 7
        if d["index"] == "shuffled":
            df.index = np.random.default_rng(d["seed"] + 1).permutation(N)
        elif d["index"] == "str":
            df.index = [f"r{i}" for i in range(N)]
        r = ctx.call(model.fit, df)
        label = f"fit(data#{di}: {d['mode']}, {N} rows)"
        if ctx.failed(r):
            ctx.violation(f"c20:exception:{r.type}@{r.where}", f"{label} raised {r!r}")
            continue
        try:
            got = {}
            for c in model.cpds:
                if repr(c.variable) in got:
                    raise ValueError(f"two CPDs for {c.variable!r} after fit")
                got[repr(c.variable)] = (list(c.evidence), np.asarray(c.mean, float).reshape(-1), float(c.variance))
            if sorted(got) != sorted(map(repr, nodes)):
                raise ValueError(f"CPDs for {sorted(got)} but nodes are {nodes!r}")
        except Exception as e:
            ctx.violation("c20:malformed-result", f"{label}: {type(e).__name__}: {e}")
            continue
        xc = []
        for v in nodes:
            ev, gmean, gvar = got[repr(v)]
            pa = byv[v]["ev"]
            if sorted(map(repr, ev)) != sorted(map(repr, pa)) or len(gmean) != len(pa) + 1:
                ctx.violation("c20:wrong-fit-scope", f"{label}: CPD of {v!r} has evidence {ev!r} and {len(gmean)} "
                              f"coefficients, parents are {pa!r}")
                continue
            y = X[:, ix[v]]
            A = np.column_stack([np.ones(N)] + [X[:, ix[p]] for p in ev])
            beta, *_ = np.linalg.lstsq(A, y, rcond=None)
            rss = float(((y - A @ beta) ** 2).sum())
            k = len(ev)
            accepted = [rss / N, rss / (N - 1), rss / (N - k - 1)]
            scale = 1.0 + float(np.abs(y).max())
            Xc = A[:, 1:] - A[:, 1:].mean(axis=0)
            craw = float(np.linalg.cond(Xc)) if k else 1.0   # float error of any least-squares solver grows with it
            okb = close(gmean, beta, rtol=1e-6, atol=1e-6 + 1e-13 * craw * float(np.abs(beta).max()))
            if not okb:
                ctx.violation("c20:wrong-fit-coefficients", f"{label}: node {v!r} | {ev!r}: [intercept, coefs] = "
                              f"{_r(gmean)}, least squares gives {_r(beta)}")
            else:
                ctx.ok()
            okv = any(abs(gvar - w) <= 1e-6 * abs(w) + 1e-12 * scale * scale for w in accepted)
            if not okv:
                ctx.violation("c20:wrong-fit-variance", f"{label}: node {v!r} | {ev!r}: residual variance {gvar!r}, "
                              f"least squares gives RSS/N={accepted[0]!r} (ddof1: {accepted[1]!r})")
            else:
                ctx.ok()
            xc += _fl(gmean) + [float(gvar)]
        if di == 0 and d["mode"] != "offset":
            ctx.xcell["fit"] = xc


# =============================================================================== gauss case
def run_gauss(spec, ctx):
    from pgmpy.factors.continuous import CanonicalDistribution
    vs = spec["vars"]
    n = len(vs)
    mu = np.array(spec["mean"], float)
    S = np.array(spec["cov"], float)
    ctx.nontrivial = n >= 2 and bool(np.any(np.abs(S - np.diag(np.diag(S))) > 0))
    ctx.feature(f"cov:{spec['covkind']}")
    ctx.feature(f"gn={n}")
    nr = np.random.default_rng(spec["pt_seed"])

    def fresh(touch=False):
        d = build_gauss(vs, spec["mean"], spec["cov"])
        if touch and spec["touch_precision"]:
            ctx.call(lambda: d.precision_matrix)            # fill the cache before the operation
        return d

    # ---- marginalize / reduce on every listed subset, both inplace modes
    for op in spec["ops"]:
        drop = [vs[i] for i in op["idx"]]
        keep_i = [i for i in range(n) if i not in op["idx"]]
        keep = [vs[i] for i in keep_i]
        # marginalize
        want = (keep, mu[keep_i], S[np.ix_(keep_i, keep_i)])
        d0 = fresh(True)
        before = gauss_state(d0)
        r = ctx.call(d0.marginalize, list(drop), inplace=False)
        label = f"marginalize({drop!r}, inplace=False)"
        if ctx.failed(r):
            ctx.violation(f"c20:exception:{r.type}@{r.where}", f"{label} raised {r!r}")
        else:
            cmp_gauss(ctx, label, r, *want, key="c20:wrong-marginal")
            if gauss_state(d0) != before:
                ctx.note("inplace-false-changed-self:marginalize")
            _check_precision(ctx, r, label)
        d1 = fresh(True)
        r = ctx.call(d1.marginalize, list(drop), inplace=True)
        label = f"marginalize({drop!r}, inplace=True)"
        if ctx.failed(r):
            ctx.violation(f"c20:exception:{r.type}@{r.where}", f"{label} raised {r!r}")
        else:
            cmp_gauss(ctx, label + " -> self", d1, *want, key="c20:wrong-marginal")
            _check_precision(ctx, d1, label)
        # reduce
        ri = list(op["idx"])
        xv = np.array([float(x) for x in op["vals"]])
        wm, wC, *_ = conditional(mu, S, keep_i, ri, xv[None, :])
        want = (keep, wm[0], wC)
        values = [(vs[i], x) for i, x in zip(ri, op["vals"])]
        d0 = fresh(True)
        before = gauss_state(d0)
        r = ctx.call(d0.reduce, list(values), inplace=False)
        label = f"reduce({values!r}, inplace=False)"
        if ctx.failed(r):
            ctx.violation(f"c20:exception:{r.type}@{r.where}", f"{label} raised {r!r}")
        else:
            cmp_gauss(ctx, label, r, *want, key="c20:wrong-reduce")
            if gauss_state(d0) != before:
                ctx.note("inplace-false-changed-self:reduce")
            _check_precision(ctx, r, label)
        d1 = fresh(True)
        r = ctx.call(d1.reduce, list(values), inplace=True)
        label = f"reduce({values!r}, inplace=True)"
        if ctx.failed(r):
            ctx.violation(f"c20:exception:{r.type}@{r.where}", f"{label} raised {r!r}")
        else:
            cmp_gauss(ctx, label + " -> self", d1, *want, key="c20:wrong-reduce")
            _check_precision(ctx, d1, label)

    # ---- canonical form
    d = fresh()
    phi = ctx.call(d.to_canonical_factor)
    if ctx.failed(phi):
        ctx.violation(f"c20:exception:{phi.type}@{phi.where}", f"to_canonical_factor raised {phi!r}")
    else:
        try:
            pv = list(phi.variables)
            K = np.asarray(phi.K, float)
            h = np.asarray(phi.h, float).reshape(-1)
            g = float(phi.g)
            if sorted(map(repr, pv)) != sorted(map(repr, vs)) or K.shape != (n, n) or h.shape != (n,):
                raise ValueError(f"variables {pv!r}, K {K.shape}, h {h.shape}")
        except Exception as e:
            ctx.violation("c20:malformed-result", f"to_canonical_factor: {type(e).__name__}: {e}")
        else:
            p = [vs.index(v) for v in pv]
            mu_p, S_p = mu[p], S[np.ix_(p, p)]
            wK = np.linalg.inv(S_p)
            wh = wK @ mu_p
            wg = float(-0.5 * float(mu_p @ wh) - 0.5 * (n * math.log(2 * math.pi) + np.linalg.slogdet(S_p)[1]))
            ks = float(np.abs(wK).max())
            ctx.expect(close(K, wK, rtol=1e-6, atol=1e-6 * ks), "c20:wrong-canonical-K",
                       f"K is {_r(K)}, Sigma^-1 is {_r(wK)}")
            ctx.expect(close(h, wh, rtol=1e-6, atol=1e-6 * (1 + float(np.abs(wh).max()))), "c20:wrong-canonical-h",
                       f"h is {_r(h)}, Sigma^-1 mu is {_r(wh)}")
            ctx.expect(abs(g - wg) <= 1e-6 * (1 + abs(wg)), "c20:wrong-canonical-g",
                       f"g is {g!r}, -mu'K mu/2 - log((2pi)^(n/2)|Sigma|^(1/2)) is {wg!r}")
            # same density: log-density at 20 points (near the mass and far away)
            Lc = np.linalg.cholesky(S_p)
            P = mu_p + (nr.normal(size=(20, n)) * nr.choice([0.5, 2.0, 6.0], size=(20, 1))) @ Lc.T
            lw = gauss_logpdf(mu_p, S_p, P)
            quad = -0.5 * np.einsum("ij,jk,ik->i", P, K, P)
            lin = P @ h
            lg_ = quad + lin + g
            tol = 1e-6 * (1 + np.abs(quad) + np.abs(lin) + abs(g))
            ctx.expect(bool(np.all(np.abs(lg_ - lw) <= tol)), "c20:canonical-density-differs",
                       f"canonical log-density {_r(lg_[:4])}... differs from the Gaussian's {_r(lw[:4])}...")
            # and back
            back = ctx.call(phi.to_joint_gaussian)
            if ctx.failed(back):
                ctx.violation(f"c20:exception:{back.type}@{back.where}", f"canonical.to_joint_gaussian raised {back!r}")
            else:
                cmp_gauss(ctx, "to_canonical_factor().to_joint_gaussian()", back, vs, mu, S,
                          key="c20:wrong-canonical-to-gaussian")
            _canonical_notes(ctx, phi, pv, mu_p, S_p, spec)

    # ---- a canonical form given directly -> joint Gaussian
    cs = spec["canonical"]
    K0, h0 = np.array(cs["K"], float), np.array(cs["h"], float)
    cd = ctx.call(CanonicalDistribution, list(vs), [list(r) for r in cs["K"]], [[x] for x in cs["h"]], cs["g"])
    if ctx.failed(cd):
        ctx.violation(f"c20:exception:{cd.type}@{cd.where}", f"CanonicalDistribution(...) raised {cd!r}")
    else:
        r = ctx.call(cd.to_joint_gaussian)
        if ctx.failed(r):
            ctx.violation(f"c20:exception:{r.type}@{r.where}", f"canonical.to_joint_gaussian raised {r!r}")
        else:
            wS = np.linalg.inv(K0)
            cmp_gauss(ctx, "CanonicalDistribution(K,h,g).to_joint_gaussian()", r, vs, wS @ h0, wS,
                      key="c20:wrong-canonical-to-gaussian")

    # ---- products
    K1 = np.linalg.inv(S)
    h1 = K1 @ mu
    for o in spec["others"]:
        ov = o["vars"]
        m2, S2 = np.array(o["mean"], float), np.array(o["cov"], float)
        K2 = np.linalg.inv(S2)
        h2 = K2 @ m2
        allv = list(vs) + [v for v in ov if v not in vs]
        N_ = len(allv)
        Kp, hp = np.zeros((N_, N_)), np.zeros(N_)
        i1 = [allv.index(v) for v in vs]
        i2 = [allv.index(v) for v in ov]
        Kp[np.ix_(i1, i1)] += K1
        Kp[np.ix_(i2, i2)] += K2
        hp[i1] += h1
        hp[i2] += h2
        Sp = np.linalg.inv(Kp)
        want = (allv, Sp @ hp, (Sp + Sp.T) / 2)
        ctx.feature(f"product:{o['mode']}")
        d0, e0 = fresh(), build_gauss(ov, o["mean"], o["cov"])
        before, before_e = gauss_state(d0), gauss_state(e0)
        r = ctx.call(d0.product, e0, inplace=False)
        label = f"product(other over {ov!r}, inplace=False)"
        false_ok = False
        if ctx.failed(r):
            ctx.violation(f"c20:exception:{r.type}@{r.where}", f"{label} raised {r!r}")
        else:
            false_ok = cmp_gauss(ctx, label, r, *want, key="c20:wrong-product", other=o["mode"])
            if gauss_state(d0) != before or gauss_state(e0) != before_e:
                ctx.note("inplace-false-changed-operand:product")
        r = ctx.call(lambda: fresh() * build_gauss(ov, o["mean"], o["cov"]))
        label = f"self * other over {ov!r}"
        if ctx.failed(r):
            ctx.violation(f"c20:exception:{r.type}@{r.where}", f"{label} raised {r!r}")
        else:
            cmp_gauss(ctx, label, r, *want, key="c20:wrong-product", other=o["mode"])
        d1, e1 = fresh(), build_gauss(ov, o["mean"], o["cov"])
        before = gauss_state(d1)
        r = ctx.call(d1.product, e1, inplace=True)
        label = f"product(other over {ov!r}, inplace=True)"
        if ctx.failed(r):
            ctx.violation(f"c20:exception:{r.type}@{r.where}", f"{label} raised {r!r}")
        else:
            # classifier of the known mechanism: the in-place call returns None and leaves `self` bit-for-bit
            # as it was (result computed and discarded) while the inplace=False twin is right.
            noop = r is None and gauss_state(d1) == before and false_ok
            # a product with nothing to change does not exist: K2 is positive definite, so the density always changes
            cmp_gauss(ctx, label + " -> self", d1, *want,
                      key="c20:gauss-product-inplace-noop" if noop else "c20:wrong-product", other=o["mode"])


def _check_precision(ctx, d, label):
    """After an operation the (cached) precision matrix must be the inverse of the new covariance."""
    try:
        vs, mu, S = read_gauss(d)
    except Exception:
        return
    if len(vs) == 0:
        return
    P = ctx.call(lambda: d.precision_matrix)
    if ctx.failed(P):
        return ctx.violation(f"c20:exception:{P.type}@{P.where}", f"precision_matrix after {label} raised {P!r}")
    w = np.linalg.inv(S)
    ctx.expect(close(P, w, rtol=1e-6, atol=1e-6 * float(np.abs(w).max())), "c20:stale-precision",
               f"precision_matrix after {label} is {_r(P)}, inverse of the covariance is {_r(w)}")


def _canonical_notes(ctx, phi, pv, mu_p, S_p, spec):
    """CanonicalDistribution.marginalize / reduce are outside the statement: observed and counted only."""
    n = len(pv)
    if n < 2 or not spec["ops"]:
        return
    op = spec["ops"][0]
    drop_names = [spec["vars"][i] for i in op["idx"]]
    di = [pv.index(v) for v in drop_names]
    ki = [i for i in range(n) if i not in di]
    try:
        r = phi.marginalize(list(drop_names), inplace=False)
        K, h, g = np.asarray(r.K, float), np.asarray(r.h, float).reshape(-1), float(r.g)
        m, S = mu_p[ki], S_p[np.ix_(ki, ki)]
        wK = np.linalg.inv(S)
        wg = -0.5 * float(m @ wK @ m) - 0.5 * (len(ki) * math.log(2 * math.pi) + np.linalg.slogdet(S)[1])
        ctx.note("canonical-marginalize-observed")
        if not (close(K, wK, 1e-6, 1e-6 * np.abs(wK).max()) and close(h, wK @ m, 1e-6, 1e-6 * (1 + np.abs(wK @ m).max()))):
            ctx.note("canonical-marginalize-Kh-differs")
        if abs(g - wg) > 1e-6 * (1 + abs(wg)):
            ctx.note("canonical-marginalize-g-differs")
    except Exception:
        ctx.note("canonical-marginalize-raised")
    try:
        y = np.array([float(x) for x in op["vals"]])
        r = phi.reduce([(v, x) for v, x in zip(drop_names, op["vals"])], inplace=False)
        K, h, g = np.asarray(r.K, float), np.asarray(r.h, float).reshape(-1), float(r.g)
        # C(x, y) restricted to y is a canonical form in x: compare its log value at 3 points with the joint density
        rv = [pv.index(v) for v in r.variables]
        P = np.random.default_rng(spec["pt_seed"] + 5).normal(size=(3, len(rv))) * 2
        full = np.zeros((3, n))
        full[:, rv] = P
        full[:, di] = y
        lw = gauss_logpdf(mu_p, S_p, full)
        lg_ = -0.5 * np.einsum("ij,jk,ik->i", P, K, P) + P @ h + g
        ctx.note("canonical-reduce-observed")
        if not np.all(np.abs(lg_ - lw) <= 1e-6 * (1 + np.abs(lw) + np.abs(P @ h) + abs(g))):
            ctx.note("canonical-reduce-differs")
    except Exception:
        ctx.note("canonical-reduce-raised")


# ===================================================================================== entry
def run_case(spec, ctx):
    ctx.feature(f"kind:{spec['kind']}")
    if spec["kind"] == "lgbn":
        return run_lgbn(spec, ctx)
    if spec["kind"] == "fit":
        return run_fit(spec, ctx)
    if spec["kind"] == "chain":
        from rv.props import C20_chain
        return C20_chain.run_chain_case(spec, ctx)
    return run_gauss(spec, ctx)
