"""C17 - dynamic-network inference == inference on the unrolled network.

Observe: DBNInference(dbn).forward_inference / backward_inference / query returns;
         DynamicBayesianNetwork.get_constant_bn(), initialize_initial_state() (CPD list before/after).
Oracle : the template *spec* is unrolled by the checker: slice-0 CPDs at t = 0, slice-1 CPDs shifted to
         t = 1..T.  Reference marginals come from an own forward-backward recursion over slice-state
         vectors (alpha/beta), cross-checked against the brute-force joint of the unrolled network
         (oracle.joint_table) on up to two queries per case whose unrolled joint has <= 6000 cells.
Known-defect shapes are recognised by structural classifiers (call_predicates, check_completion, ...); a wrong
multi-slice answer is re-queried slice by slice, a named-evidence failure is re-run with default labels, and
anything the classifiers cannot attribute keeps a generic key (c17:wrong-marginal, c17:exception:...).
"""
import itertools
import json
import os

import numpy as np

from rv import gen, oracle

PLAN = {
    "quick": {"cases": 900, "hashseeds": 3, "shards": 5, "timeout": 600, "min_nontrivial": 300},
    "thorough": {"cases": 6000, "hashseeds": 8, "shards": 2, "timeout": 3000, "min_nontrivial": 2000},
}
if os.environ.get("RV_C17_THOROUGH_CASES"):        # smoke-testing the thorough tier with fewer cases
    PLAN["thorough"]["cases"] = int(os.environ["RV_C17_THOROUGH_CASES"])
    PLAN["thorough"]["min_nontrivial"] = PLAN["thorough"]["cases"] // 3
RULE = ("one random 2-TBN template per case (kinds: hmm, random 2-3 variables, two interface nodes, inter-slice edge to "
        "another variable, variable without intra-slice edge, 4 (thorough: also 5) variables; cards 2-3 (2-4 thorough); 1-4 interface "
        "nodes; zeros / deterministic columns in 30%; in 25% about half of the columns hold entries 1e-12..1e-4 or 0 next "
        "to one O(1) entry; string state names in 20% (a third of them falsy / numeric-looking: '', '0', 'None', "
        "'False', '-1', 'x y'); variable names letters (70%), integers incl. 0 and multi-digit (20%) or strings with "
        "'_' / the empty string (10%); shuffled edge, CPD and parent order) "
        "x 7 (10 thorough) queries: horizon T in 0..6 (0..9), 1-2 variables of one slice (70%) or 2-4 variables in "
        "2-3 slices (30%), evidence styles none (passed as None or as {}) / random / interface-heavy / one variable in "
        "every slice / only later / only earlier slices, any state with P(e) > 1e-200 by the oracle; each query is run "
        "with forward_inference (expected P(X_t | e_0:t)) and with query or backward_inference (expected "
        "P(X_t | e_0:T)), in either order, on ONE shared engine; CALL SEQUENCES on that engine: up to two 'twin' calls "
        "right after their original with the same evidence variables but other slice-0 states, the first call "
        "repeated after all others, every returned factor overwritten by the caller after it was judged, the "
        "caller's evidence dict compared before/after. Also per case on ONE model object: initialize_initial_state "
        "twice (no-op both times), get_constant_bn(t_slice = 0, then 1|2|5, then 0 again after the first returned "
        "network was overwritten and emptied by the caller) compared CPD by CPD and edge by edge with the template, "
        "the engine, then an in-place EDIT (a CPD removed and replaced; for a variable without inter-slice parents "
        "possibly both copies removed and the slice-1 one left to initialize_initial_state) after which the CPD list, "
        "get_constant_bn and a new engine (2 queries x 2 modes) are judged against the edited template; and "
        "initialize_initial_state on a separate model where variables without "
        "inter-slice parents have only one of their two CPDs (the other must be an unaltered copy, parents matched "
        "by name). non-trivial: the engine could be built and at least one call with evidence and horizon >= 1 "
        "returned marginals that were compared; distinct by digest of the whole spec")
ASSUMPTIONS = ["reference marginals: own forward-backward recursion over slice-state vectors of the unrolled network, "
               "itself compared with the brute-force joint of the unrolled BN (<= 6000 cells) on up to 2 queries per case",
               "forward_inference is read as filtering: evidence later than the queried slice is not used for that slice",
               "every template variable has at least one edge (the model class cannot represent an edgeless variable "
               "in slice 1); variables with an inter-slice parent always get both CPDs",
               "float64; every marginal entry is compared relative to its own size (|got - want| <= 1e-13 + 1e-7 |want|), "
               "copied CPD entries at rtol 1e-9; a wrong answer on the shared engine is re-run on a fresh engine before "
               "it is attributed (right there => c17:engine-history)",
               "a ValueError of DBNInference(model) for a template whose slice graph is disconnected is the library's "
               "documented refusal (counted as a note)"]
REACH = [
    "pgmpy.inference.dbn_inference:DBNInference.__init__",
    "pgmpy.inference.dbn_inference:DBNInference._get_clique",
    "pgmpy.inference.dbn_inference:DBNInference._get_evidence",
    "pgmpy.inference.dbn_inference:DBNInference._shift_nodes",
    "pgmpy.inference.dbn_inference:DBNInference._shift_factor",
    "pgmpy.inference.dbn_inference:DBNInference._marginalize_factor",
    "pgmpy.inference.dbn_inference:DBNInference._update_belief",
    "pgmpy.inference.dbn_inference:DBNInference._get_factor",
    "pgmpy.inference.dbn_inference:DBNInference.forward_inference",
    "pgmpy.inference.dbn_inference:DBNInference.backward_inference",
    "pgmpy.inference.dbn_inference:DBNInference.query",
    "pgmpy.inference.base:Inference._initialize_structures",
    "pgmpy.models.DynamicBayesianNetwork:DynamicBayesianNetwork.initialize_initial_state",
    "pgmpy.models.DynamicBayesianNetwork:DynamicBayesianNetwork.get_constant_bn",
    "pgmpy.models.DynamicBayesianNetwork:DynamicBayesianNetwork.get_interface_nodes",
    "pgmpy.inference.ExactInference:BeliefPropagation.query",
    "pgmpy.inference.ExactInference:BeliefPropagation._calibrate_junction_tree",
]
REACH_REQUIRED = list(REACH)
MANIFEST = {
    "text": "On generated two-slice templates, DBNInference.forward_inference / backward_inference / query marginals "
            "are compared with filtering / smoothing marginals of the checker's own unrolled network; "
            "get_constant_bn is compared with the template CPD by CPD; initialize_initial_state is checked to leave "
            "given CPDs untouched and to add exact copies. Query shapes hit by the known engine defects are keyed by "
            "structural classifiers (and confirmed by neutralised re-runs where possible); every other shape is live.",
    "note": "trusted: the checker's unrolling and forward-backward recursion (cross-checked against the brute-force "
            "joint on small horizons), numpy.",
    "technique": "runtime monitoring with a reference-model oracle over generated templates and queries",
}

NAMES = ["A", "B", "C", "D", "E"]


# =========================================================================== generator
def gen_template(rng, tier, kind=None):
    """A 2-TBN template:
       vars, card, intra [[u, v]] (same in every slice), inter [[u, v]] ((u, t) -> (v, t+1)),
       cpd0[v] = {"parents": [[p, 0]...], "table"}            (slice 0: intra parents only)
       cpd1[v] = {"parents": [[p, 0|1]...], "table"}          (slice 1: [p, 1] intra, [p, 0] inter parent)
    """
    big = tier == "thorough"
    if kind is None:
        kind = rng.choice(["hmm", "rand", "rand", "rand", "rand", "two_iface", "two_iface", "cross", "cross",
                           "isolated", "rand4", "rand5" if big else "rand"])
    n = {"hmm": 2, "rand4": 4, "rand5": 5, "isolated": rng.choice([1, 2, 3])}.get(kind, rng.choice([2, 3, 3]))
    vs = NAMES[:n]
    cards = (2, 2, 3) if not big else (2, 2, 3, 3, 4)
    card = {v: rng.choice(cards) for v in vs}
    if kind in ("rand4", "rand5"):
        card = {v: rng.choice((2, 2, 3) if kind == "rand4" else (2, 2, 2, 3)) for v in vs}
    order = vs[:]
    rng.shuffle(order)
    intra = []
    if kind == "hmm":
        intra = [[order[0], order[1]]]
    elif kind == "isolated":
        # at least one variable has no intra-slice edge
        for i in range(1, n - 1):
            if rng.random() < 0.7:
                intra.append([order[rng.randrange(i)], order[i]])
    else:
        # every variable gets >= 1 intra edge: random spanning structure + extras
        for i in range(1, n):
            intra.append([order[rng.randrange(i)], order[i]])
        for i in range(n):
            for j in range(i + 1, n):
                if [order[i], order[j]] not in intra and rng.random() < 0.3:
                    intra.append([order[i], order[j]])
    inter = []
    if kind == "hmm":
        inter = [[order[0], order[0]]]
    elif kind == "two_iface":
        a, b = rng.sample(vs, 2)
        inter = [[a, a], [b, b]]
        if rng.random() < 0.4:
            inter.append([a, b])
    elif kind == "cross":
        # persistence plus an edge whose child is another variable, or a pure cross edge
        a, b = rng.sample(vs, 2)
        inter = rng.choice([[[a, b]], [[a, a], [a, b]], [[a, b], [b, a]], [[a, a], [b, a]]])
    else:
        k = rng.choice([1, 1, 2, 2, 3]) if n > 1 else 1
        pers = rng.sample(vs, min(k, n))
        inter = [[v, v] for v in pers]
        if n > 1 and rng.random() < 0.25:
            a, b = rng.sample(vs, 2)
            if [a, b] not in inter:
                inter.append([a, b])
    has_slice1 = {x for e in intra for x in e} | {v for _, v in inter}
    for v in vs:       # the model class only holds (v, 1) if v has an intra-slice edge or an inter-slice parent
        if v not in has_slice1:
            inter.append([v, v])
    rng.shuffle(intra)
    rng.shuffle(inter)
    par0 = {v: [[u, 0] for u, w in intra if w == v] for v in vs}
    par1 = {v: [[u, 1] for u, w in intra if w == v] + [[u, 0] for u, w in inter if w == v] for v in vs}
    zeros = rng.random() < 0.3
    tiny = rng.random() < 0.25          # columns mixing entries down to 1e-12 (and exact zeros) with O(1) entries
    cpd0, cpd1 = {}, {}
    for v in vs:
        p0 = [list(p) for p in par0[v]]
        rng.shuffle(p0)
        q = 1
        for p, _ in p0:
            q *= card[p]
        cpd0[v] = {"parents": p0, "table": rand_table(rng, card[v], q, zeros, tiny)}
        p1 = [list(p) for p in par1[v]]
        rng.shuffle(p1)
        if not any(s == 0 for _, s in p1) and rng.random() < 0.7:
            # no inter parent: the slice-1 CPD is the slice-0 CPD (possibly with parents declared in another order)
            cpd1[v] = {"parents": [[p, 1] for p, _ in p0], "table": [list(r) for r in cpd0[v]["table"]]}
        else:
            q = 1
            for p, _ in p1:
                q *= card[p]
            cpd1[v] = {"parents": p1, "table": rand_table(rng, card[v], q, zeros, tiny)}
    return {"kind": kind, "vars": vs, "card": card, "intra": intra, "inter": inter, "cpd0": cpd0, "cpd1": cpd1,
            "zeros": zeros, "tiny": tiny}


TINY = [1e-12, 1e-12, 1e-10, 1e-8, 1e-8, 1e-6, 1e-4, 0.0]


def rand_table(rng, r, q, zeros, tiny):
    """r x q CPT; with `tiny`, about half of the columns put 1e-12 .. 1e-4 (or exactly 0) on all states but one."""
    tab = gen.rand_cpt(rng, r, q, zeros)
    if tiny:
        for j in range(q):
            if rng.random() < 0.5:
                big = rng.randrange(r)
                col = [rng.choice(TINY) for _ in range(r)]
                col[big] = 0.0
                col[big] = 1.0 - sum(col)
                for i in range(r):
                    tab[i][j] = col[i]
    return tab


def iface_parents(tpl):
    return sorted({u for u, _ in tpl["inter"]})


def iface_children(tpl):
    return sorted({v for _, v in tpl["inter"]})


def isolated_vars(tpl):
    used = {x for e in tpl["intra"] for x in e}
    return [v for v in tpl["vars"] if v not in used]


# =========================================================================== oracle
class Unrolled:
    """Forward-backward over slice-state vectors, written from the definition of the unrolled network."""

    def __init__(self, tpl):
        self.tpl = tpl
        self.vs = tpl["vars"]
        self.card = tpl["card"]
        self.states = list(itertools.product(*[range(self.card[v]) for v in self.vs]))
        S = len(self.states)
        ix = {v: i for i, v in enumerate(self.vs)}
        self.ix = ix
        self.p0 = np.zeros(S)
        for a, x in enumerate(self.states):
            p = 1.0
            for v in self.vs:
                c = tpl["cpd0"][v]
                col = 0
                for u, _ in c["parents"]:
                    col = col * self.card[u] + x[ix[u]]
                p *= c["table"][x[ix[v]]][col]
            self.p0[a] = p
        self.T = np.zeros((S, S))
        for a, xp in enumerate(self.states):
            for b, x in enumerate(self.states):
                p = 1.0
                for v in self.vs:
                    c = tpl["cpd1"][v]
                    col = 0
                    for u, s in c["parents"]:
                        col = col * self.card[u] + (x[ix[u]] if s == 1 else xp[ix[u]])
                    p *= c["table"][x[ix[v]]][col]
                self.T[a, b] = p

    def indicator(self, ev_t):
        e = np.ones(len(self.states))
        for v, s in ev_t.items():
            for a, x in enumerate(self.states):
                if x[self.ix[v]] != s:
                    e[a] = 0.0
        return e

    def run(self, evidence, horizon):
        """evidence: {(v, t): state}.  Returns alpha[t] (unnormalised, includes e_0..e_t) and beta[t]."""
        by_t = {}
        for (v, t), s in evidence.items():
            by_t.setdefault(t, {})[v] = s
        E = [self.indicator(by_t.get(t, {})) for t in range(horizon + 1)]
        alpha = [self.p0 * E[0]]
        for t in range(1, horizon + 1):
            alpha.append((alpha[-1] @ self.T) * E[t])
        beta = [None] * (horizon + 1)
        beta[horizon] = np.ones(len(self.states))
        for t in range(horizon, 0, -1):
            beta[t - 1] = self.T @ (E[t] * beta[t])
        return alpha, beta

    def marg(self, w, v):
        out = np.zeros(self.card[v])
        for a, x in enumerate(self.states):
            out[x[self.ix[v]]] += w[a]
        tot = out.sum()
        return out / tot if tot > 0 else out

    def smoothed(self, evidence, horizon, qvars):
        alpha, beta = self.run(evidence, horizon)
        return {(v, t): self.marg(alpha[t] * beta[t], v) for v, t in qvars}, float(alpha[horizon].sum())

    def filtered(self, evidence, horizon, qvars):
        alpha, _ = self.run(evidence, horizon)
        return {(v, t): self.marg(alpha[t], v) for v, t in qvars}


def unrolled_bn_spec(tpl, horizon):
    """The ordinary BN on 'v@t' obtained by unrolling (for the brute-force cross-check)."""
    nodes, card, cpds, edges = [], {}, {}, []
    for t in range(horizon + 1):
        for v in tpl["vars"]:
            nm = f"{v}@{t}"
            nodes.append(nm)
            card[nm] = tpl["card"][v]
            c = tpl["cpd0"][v] if t == 0 else tpl["cpd1"][v]
            pa = [f"{u}@{t}" for u, _ in c["parents"]] if t == 0 else \
                [f"{u}@{t if s == 1 else t - 1}" for u, s in c["parents"]]
            cpds[nm] = {"parents": pa, "table": c["table"]}
            edges += [[p, nm] for p in pa]
    return {"nodes": nodes, "card": card, "cpds": cpds, "edges": edges}


def brute_marginals(tpl, horizon, evidence, qvars, filtering=False):
    bn = unrolled_bn_spec(tpl, horizon)
    nodes, J = oracle.joint_table(bn)
    out = {}
    for v, t in qvars:
        ev = {f"{u}@{s}": x for (u, s), x in evidence.items() if (not filtering or s <= t)}
        _, m = oracle.posterior(nodes, J, [f"{v}@{t}"], ev)
        out[(v, t)] = m
    return out


# =========================================================================== structural classifiers
def _connected(nodes, edges):
    nodes = list(nodes)
    if not nodes:
        return True
    adj = {v: set() for v in nodes}
    for a, b in edges:
        if a in adj and b in adj:
            adj[a].add(b)
            adj[b].add(a)
    seen, stack = {nodes[0]}, [nodes[0]]
    while stack:
        x = stack.pop()
        for y in adj[x]:
            if y not in seen:
                seen.add(y)
                stack.append(y)
    return len(seen) == len(nodes)


def slices_connected(tpl):
    """Are the graphs from which the engine builds its two junction trees connected?  (slice-0 moral graph plus a
    clique on the outgoing interface; 1.5-slice moral graph plus cliques on both interfaces - evaluated for the
    pinned definition of the slice-1 interface (children of inter edges) and for the corrected one)."""
    vs = tpl["vars"]
    ip, ic = iface_parents(tpl), iface_children(tpl)
    e0 = [(u, v) for u, v in tpl["intra"]]
    for v in vs:
        ps = [u for u, _ in tpl["cpd0"][v]["parents"]]
        e0 += list(itertools.combinations(ps, 2))
    e0 += list(itertools.combinations(ip, 2))
    ok = _connected(vs, e0)
    n1 = [(u, 0) for u in ip] + [(v, 1) for v in vs]
    e1 = [((u, 1), (v, 1)) for u, v in tpl["intra"]] + [((u, 0), (v, 1)) for u, v in tpl["inter"]]
    for v in vs:
        ps = [(u, s) for u, s in tpl["cpd1"][v]["parents"]]
        e1 += list(itertools.combinations(ps, 2))
    e1 += list(itertools.combinations([(u, 0) for u in ip], 2))
    for i1 in (ic, ip):
        ok = ok and _connected(n1, e1 + list(itertools.combinations([(u, 1) for u in i1], 2)))
    return ok


def bwd_iface_deviations(tpl, evidence, horizon):
    """Slices ts in 1..T at which the pinned backward pass conditions the 1.5-slice tree on a set of
    previous-slice interface observations different from the right one (= the interface evidence of slice ts-1):
    it drops them when slice ts itself carries no evidence, and keeps a stale set (from slice ts) when slice
    ts-1 carries no evidence at all."""
    ip = set(iface_parents(tpl))
    by_t = {}
    for (v, t), s in evidence.items():
        by_t.setdefault(t, {})[v] = s
    stale, dev = {}, []
    for ts in range(horizon, 0, -1):
        prev = by_t.get(ts - 1, {})
        right = {v: s for v, s in prev.items() if v in ip}
        if prev:
            stale = dict(right)
        used = dict(stale) if by_t.get(ts) else {}
        if used != right:
            dev.append(ts)
    return dev


def call_predicates(tpl, mode, qslices, evidence, horizon):
    """Known-defect predicates of one engine call -> function giving the predicate set of a result at slice s."""
    ip, ic = set(iface_parents(tpl)), set(iface_children(tpl))
    dev = bwd_iface_deviations(tpl, evidence, horizon) if mode == "backward" else []
    alien = bool(ic - ip)          # a slice-1 'interface' variable the 1.5-slice tree has no slice-0 copy of

    def preds(s):
        P = set()
        if ip != ic and horizon >= 1:
            if alien or (mode == "forward" and s >= 2) or (mode == "backward" and horizon >= 2):
                P.add("interface-mismatch")
        if any(ts >= s for ts in dev):
            P.add("interface-evidence-backward")
        if mode == "forward" and any(1 <= x < s for x in qslices):
            P.add("multi-slice-query")
        if mode == "backward" and (any(1 <= x < s for x in qslices) or any(x > s for x in qslices)):
            P.add("multi-slice-query")
        return P

    def call_level():
        P = set()
        if ip != ic and ((horizon >= 1 and alien) or (mode == "backward" and horizon >= 2)):
            P.add("interface-mismatch")
        if dev:
            P.add("interface-evidence-backward")
        return P

    return preds, call_level


# =========================================================================== builder (worker side)
def node_labels(tpl, v):
    st = tpl.get("states")
    return list(st[v]) if st else list(range(tpl["card"][v]))


def rname(tpl, v):
    """The variable name handed to pgmpy for template variable id `v` (ids 'A'.. are used by spec and oracle)."""
    nm = tpl.get("names")
    return nm[v] if nm else v


def make_cpd(tpl, v, sl):
    from pgmpy.factors.discrete import TabularCPD
    c = tpl["cpd0" if sl == 0 else "cpd1"][v]
    pa = [(u, 0) for u, _ in c["parents"]] if sl == 0 else [(u, s) for u, s in c["parents"]]
    kw = {}
    if tpl.get("states"):
        kw["state_names"] = {(rname(tpl, x[0]), x[1]): node_labels(tpl, x[0]) for x in [(v, sl)] + pa}
    return TabularCPD((rname(tpl, v), sl), tpl["card"][v], [list(r) for r in c["table"]],
                      evidence=[(rname(tpl, u), s) for u, s in pa] or None,
                      evidence_card=[tpl["card"][u] for u, _ in pa] or None, **kw)


def build_dbn(tpl, which=None):
    """Real DynamicBayesianNetwork from a template.  `which`: collection of (v, slice) CPDs to add (default all)."""
    from pgmpy.models import DynamicBayesianNetwork as DBN
    R = lambda v: rname(tpl, v)
    d = DBN()
    d.add_nodes_from([R(v) for v in tpl["vars"]])
    d.add_edges_from([((R(u), 0), (R(v), 0)) for u, v in tpl["intra"]]
                     + [((R(u), 0), (R(v), 1)) for u, v in tpl["inter"]])
    cpds = []
    order = tpl.get("cpd_order") or [[v, s] for s in (0, 1) for v in tpl["vars"]]
    for v, sl in order:
        if which is not None and (v, sl) not in which:
            continue
        cpds.append(make_cpd(tpl, v, sl))
    d.add_cpds(*cpds)
    return d


def _norm(var):
    """DynamicNode / tuple / str -> plain hashable."""
    if isinstance(var, str):
        return var
    try:
        return (var[0], var[1])
    except Exception:
        return var


def _nid(tpl, var):
    """(real name, t) as DynamicNode / tuple -> (template id, t)."""
    x = _norm(var)
    nm = tpl.get("names")
    if nm and isinstance(x, tuple) and len(x) == 2:
        for i, real in nm.items():
            if type(real) is type(x[0]) and real == x[0]:
                return (i, x[1])
    return x


def read_view(f, vmap=_norm):
    """{frozenset((var, label))): value} of a factor / CPD through variables, state_names, values only."""
    from rv.build import to_np
    vals = np.asarray(to_np(f.values))
    variables = list(f.variables)
    names = [list(f.state_names[v]) for v in variables]
    if tuple(vals.shape) != tuple(len(n) for n in names):
        raise ValueError(f"values shape {vals.shape} does not match state names {[len(n) for n in names]}")
    out = {}
    for idx in itertools.product(*[range(len(n)) for n in names]):
        out[frozenset((vmap(v), names[i][k]) for i, (v, k) in enumerate(zip(variables, idx)))] = float(vals[idx])
    return out


def expected_cpd_view(child, parents, card_of, table, labels_of):
    """Named view of P(child | parents) given as r x q table with declared parent order (row-major columns)."""
    out = {}
    for i in range(card_of(child)):
        for col, combo in enumerate(itertools.product(*[range(card_of(p)) for p in parents])):
            key = frozenset([(child, labels_of(child)[i])] + [(p, labels_of(p)[k]) for p, k in zip(parents, combo)])
            out[key] = float(table[i][col])
    return out


def view_diff(got, want, atol=1e-15):
    """CPDs are copied, not computed: equal up to the last bits, relative to each entry (entries go down to 1e-12)."""
    return oracle.named_close(got, want, atol=atol, rtol=1e-9)


# =========================================================================== case generation
PE_MIN = 1e-200      # evidence of any positive probability the oracle can still normalise


def _pe(U, qv, ev):
    hor = max([x[1] for x in qv] + [k[1] for k in ev])
    alpha, _ = U.run(ev, hor)
    return alpha[hor].sum()


def twin_slice0(rng, tpl, U, q):
    """The same call with the same evidence VARIABLES but other states on (some of) the slice-0 ones (adding one
    slice-0 observation first if the call has none): on a shared engine this is the shape that exposes an answer
    memoised per evidence variables / not reset between calls."""
    qv = q["vars"]
    ev = {(v, t): s for v, t, s in q["evidence"]}
    base = None
    if not any(t == 0 for _, t in ev):
        cand = [v for v in tpl["vars"] if [v, 0] not in qv]
        rng.shuffle(cand)
        for v in cand:
            for s in range(tpl["card"][v]):
                trial = dict(ev)
                trial[(v, 0)] = s
                if _pe(U, qv, trial) > PE_MIN:
                    base = trial
                    break
            if base:
                break
        if base is None:
            return []
        ev = base
    s0 = [k for k in ev if k[1] == 0]
    for _ in range(8):
        trial = dict(ev)
        for k in rng.sample(s0, rng.randint(1, len(s0))):
            trial[k] = rng.choice([s for s in range(tpl["card"][k[0]]) if s != ev[k]])
        if _pe(U, qv, trial) > PE_MIN:
            mk = lambda e, tag: dict(q, evidence=sorted([v, t, s] for (v, t), s in e.items()), brute=False, tag=tag)
            return ([mk(ev, "twin-a")] if base is not None else []) + [mk(trial, "twin-b")]
    return []


def gen_queries(rng, tpl, U, tier, nq=None, sequences=True):
    big = tier == "thorough"
    vs = tpl["vars"]
    ip = iface_parents(tpl)
    out = []
    nq = nq or (7 if not big else 10)
    for qi in range(nq):
        T = rng.choice([0, 1, 1, 2, 2, 3, 3, 4, 6] if not big else [0, 1, 2, 2, 3, 3, 4, 4, 5, 6, 9])
        if len(U.states) > 40 and T > 3:
            T = 3
        shape = "multi" if (T >= 1 and rng.random() < 0.3) else "single"
        if shape == "single":
            t = rng.choice([T, T, rng.randint(0, T)])
            qv = [[v, t] for v in rng.sample(vs, rng.choice([1, 1, 2]) if len(vs) > 1 else 1)]
        else:
            sl = rng.sample(range(T + 1), rng.choice([2, 2, 3]) if T >= 2 else 2)
            qv = [[rng.choice(vs), t] for t in sl]
            if rng.random() < 0.3 and len(vs) > 1:
                v, t = qv[0]
                qv.append([rng.choice([x for x in vs if x != v]), t])
        rest = [[v, t] for t in range(T + 1) for v in vs if [v, t] not in qv]
        style = rng.choice(["none", "any", "any", "any", "iface", "per-slice", "late", "early"])
        if style == "none":
            cand = []
        elif style == "iface":
            cand = [x for x in rest if x[0] in ip]
            cand = rng.sample(cand, min(len(cand), rng.randint(1, 3)))
            extra = [x for x in rest if x not in cand]
            cand += rng.sample(extra, min(len(extra), rng.randint(0, 2)))
        elif style == "per-slice":
            v = rng.choice(vs)
            cand = [x for x in rest if x[0] == v]
        elif style == "late":
            cand = [x for x in rest if x[1] >= max(t for _, t in qv)]
            cand = rng.sample(cand, min(len(cand), rng.randint(1, 3)))
        elif style == "early":
            cand = [x for x in rest if x[1] <= min(t for _, t in qv)]
            cand = rng.sample(cand, min(len(cand), rng.randint(1, 3)))
        else:
            cand = rng.sample(rest, min(len(rest), rng.choice([1, 1, 2, 2, 3, 4])))
        ev = {}
        for v, t in cand:
            order = list(range(tpl["card"][v]))
            rng.shuffle(order)
            for s in order:
                trial = dict(ev)
                trial[(v, t)] = s
                hor = max([x[1] for x in qv] + [k[1] for k in trial])
                alpha, _ = U.run(trial, hor)
                if alpha[hor].sum() > PE_MIN:
                    ev = trial
                    break
        out.append({"vars": qv, "evidence": sorted([v, t, s] for (v, t), s in ev.items()),
                    "api": rng.choice(["query", "backward_inference"]), "brute": False, "tag": "base",
                    "empty": rng.choice(["none", "dict"]), "first": rng.choice(["forward", "backward"])})
    if sequences:
        # call sequences on the shared engine: twins differing only in slice-0 evidence states, right after the
        # original; the first call once more at the very end (the engine has served every other call in between)
        seq = []
        ntw = 0
        for q in out:
            seq.append(q)
            if ntw < 2 and rng.random() < 0.6:
                tw = twin_slice0(rng, tpl, U, q)
                if tw:
                    ntw += 1
                    seq += tw
        seq.append(dict(out[0], brute=False, tag="repeat"))
        out = seq
    return out


def gen_case(seed, idx, tier):
    rng = gen.rng_for("C17", seed, idx)
    tpl = gen_template(rng, tier)
    if rng.random() < 0.2:
        tpl["states"] = {}
        odd = rng.random() < 0.35        # falsy / numeric-looking / blank-containing labels
        for v in tpl["vars"]:
            labels = [f"{v.lower()}{i}" for i in range(tpl["card"][v])]
            if odd:
                labels = rng.sample(["", "0", "x y", "None", "-1", "False"], tpl["card"][v])
            if rng.random() < 0.5:
                rng.shuffle(labels)
            tpl["states"][v] = labels
    else:
        tpl["states"] = None
    # variable names given to pgmpy: letters, integers (falsy 0, multi-digit) or strings with '_' / empty string
    nk = rng.choice(["letters"] * 7 + ["int", "int", "underscore"])
    if nk == "int":
        tpl["names"] = dict(zip(tpl["vars"], rng.sample([0, 1, 2, 10, 31, 100], len(tpl["vars"]))))
    elif nk == "underscore":
        tpl["names"] = dict(zip(tpl["vars"], rng.sample(["X_1", "X", "X_10", "", "_", "Y_0"], len(tpl["vars"]))))
    else:
        tpl["names"] = None
    order = [[v, s] for s in (0, 1) for v in tpl["vars"]]
    rng.shuffle(order)
    tpl["cpd_order"] = order
    U = Unrolled(tpl)
    queries = gen_queries(rng, tpl, U, tier)
    S = len(U.states)
    nb = 0
    for q in queries:
        hor = max([t for _, t in q["vars"]] + [t for _, t, _ in q["evidence"]])
        if nb < 2 and hor >= 1 and S ** (hor + 1) <= 6000:
            q["brute"] = True
            nb += 1
    # initial-state completion: variables without inter-slice parents may have only one of their two CPDs given
    inter_children = set(iface_children(tpl))
    partial = []
    for v in tpl["vars"]:
        if v in inter_children:
            partial += [[v, 0], [v, 1]]
        else:
            partial += rng.choice([[[v, 0]], [[v, 0]], [[v, 1]], [[v, 0], [v, 1]]])
    # one model object edited in place: a CPD is replaced (for a variable without inter-slice parents possibly both
    # copies are removed, the slice-0 one re-added and the other left to initialize_initial_state)
    v = rng.choice(tpl["vars"])
    tpl2 = json.loads(json.dumps(tpl))
    c1 = tpl2["cpd1"][v]
    q = 1
    for p, _ in c1["parents"]:
        q *= tpl["card"][p]
    both = v not in inter_children and rng.random() < 0.6
    if both:
        c0 = tpl2["cpd0"][v]
        q = 1
        for p, _ in c0["parents"]:
            q *= tpl["card"][p]
        c0["table"] = rand_table(rng, tpl["card"][v], q, tpl["zeros"], tpl["tiny"])
        tpl2["cpd1"][v] = {"parents": [[p, 1] for p, _ in c0["parents"]], "table": [list(r) for r in c0["table"]]}
    else:
        c1["table"] = rand_table(rng, tpl["card"][v], q, tpl["zeros"], tpl["tiny"])
    U2 = Unrolled(tpl2)
    edit = {"var": v, "both": both, "tpl2": tpl2, "queries": gen_queries(rng, tpl2, U2, tier, nq=2, sequences=False)}
    return {"tpl": tpl, "queries": queries, "partial": partial, "tslice": rng.choice([1, 2, 5]), "edit": edit}


def case_digest(spec):
    return gen.spec_digest(spec)


# =========================================================================== checks
def _labels_state(tpl, got_labels, v):
    want = node_labels(tpl, v)
    if list(got_labels) == want:
        return "ok"
    if tpl.get("states") and list(got_labels) == list(range(tpl["card"][v])):
        return "dropped"
    return "bad"


# marginals are normalised, but single entries go down to ~1e-12 (tiny CPD entries) while the evidence probability
# goes down to 1e-200: every entry is compared relative to its own size
ATOL, RTOL = 1e-13, 1e-7


def judge_marginal(tpl, factor, var, want):
    """-> (status, text): ok | dropped (values right, labels replaced by 0..k-1) | wrong | malformed"""
    v, t = var
    try:
        if [_nid(tpl, x) for x in factor.variables] != [(v, t)]:
            return "malformed", f"scope {factor.variables!r} instead of [{var!r}]"
        key = list(factor.variables)[0]
        labels = list(factor.state_names[key])
        from rv.build import to_np
        vals = np.asarray(to_np(factor.values), dtype=float)
        if vals.shape != (tpl["card"][v],):
            return "malformed", f"values shape {vals.shape}, cardinality is {tpl['card'][v]}"
    except Exception as e:
        return "malformed", f"cannot read result: {type(e).__name__}: {e}"
    ls = _labels_state(tpl, labels, v)
    if ls == "bad":
        return "wrong", f"state names {labels!r}, template has {node_labels(tpl, v)!r}"
    if not np.all(np.isfinite(vals)) or not np.all(np.abs(vals - want) <= ATOL + RTOL * np.abs(want)):
        return "wrong", f"got {vals.tolist()!r}, unrolled network gives {np.asarray(want).tolist()!r}"
    return ("dropped" if ls == "dropped" else "ok"), ""


class EngineBox:
    """Lazily built engines: one shared per case, fresh ones for diagnostic re-runs."""

    def __init__(self, tpl, ctx):
        self.tpl, self.ctx = tpl, ctx

    def fresh(self, named=True):
        from pgmpy.inference import DBNInference
        d = build_dbn(self.tpl if named else dict(self.tpl, states=None))
        d.initialize_initial_state()
        return DBNInference(d)


def engine_call(ctx, inf, tpl, mode, api, qv, ev, empty="none"):
    fn = inf.forward_inference if mode == "forward" else getattr(inf, api)
    evd = {(rname(tpl, v), t): node_labels(tpl, v)[s] for (v, t), s in ev.items()}
    given = dict(evd) if (evd or empty == "dict") else None          # no evidence: None or an empty dict
    variables = [(rname(tpl, v), t) for v, t in qv]
    r = ctx.call(fn, list(variables), given)
    if given is not None and given != evd:
        ctx.violation("c17:evidence-dict-modified", f"{mode} call changed the caller's evidence dict from {evd} "
                      f"to {given}")
    return r


def exception_key(ctx, box, tpl, mode, api, qv, ev, r):
    """Mechanism key for an engine call that raised: structural predicates of the call, the named-evidence
    predicate being confirmed by re-running the call on the same template with default labels."""
    horizon = max([t for _, t in qv] + [t for _, t in ev])
    P = call_predicates(tpl, mode, sorted({t for _, t in qv}), ev, horizon)[1]()
    if tpl.get("states") and ev and r.type in ("KeyError", "IndexError"):
        r0 = engine_call(ctx, box.fresh(named=False), dict(tpl, states=None), mode, api, qv, ev)
        if not (ctx.failed(r0) and r0.type == r.type):
            return "c17:named-evidence-lookup", "; with default state labels 0..k-1 the same call does not raise this"
    if P:
        return "c17:" + "+".join(sorted(P)), ""
    return f"c17:exception:{r.type}@{r.where}", ""


def _read_one(ctx, tpl, r, var, want):
    """status of `var` in an engine result (exception-safe)."""
    try:
        return judge_marginal(tpl, {_nid(tpl, k): f for k, f in r.items()}[var], var, want)[0]
    except Exception:
        return "malformed"


def check_call(ctx, box, inf, tpl, U, mode, q):
    qv = [tuple(x) for x in q["vars"]]
    ev = {(v, t): s for v, t, s in q["evidence"]}
    horizon = max([t for _, t in qv] + [t for _, t in ev])
    qslices = sorted({t for _, t in qv})
    want = U.filtered(ev, horizon, qv) if mode == "forward" else U.smoothed(ev, horizon, qv)[0]
    preds, _ = call_predicates(tpl, mode, qslices, ev, horizon)
    label = f"{'forward_inference' if mode == 'forward' else q['api']}({qv}, {ev})"
    detail = dict(mode=mode, query=qv, evidence=ev, horizon=horizon, inter=tpl["inter"], intra=tpl["intra"])
    if tpl.get("states"):
        detail["states"] = tpl["states"]
    if q.get("tag", "base") != "base":
        detail["sequence"] = q["tag"]
    if tpl.get("names"):
        detail["names"] = tpl["names"]
    r = engine_call(ctx, inf, tpl, mode, q["api"], qv, ev, empty=q.get("empty", "none"))
    if ctx.failed(r):
        key, extra = exception_key(ctx, box, tpl, mode, q["api"], qv, ev, r)
        ctx.violation(key, f"{label} raised {r!r}{extra}", **detail)
        return 0
    try:
        keys = sorted(_nid(tpl, k) for k in r)
        got = {_nid(tpl, k): f for k, f in r.items()}
    except Exception as e:
        ctx.violation("c17:malformed-result", f"{label}: cannot read result: {type(e).__name__}: {e}", **detail)
        return 0
    if keys != sorted(qv):
        ctx.violation("c17:malformed-result", f"{label}: result keys {keys} != query {sorted(qv)}", **detail)
        return 0
    judged = 0
    dropped = dropped0 = False
    for var in qv:
        st, txt = judge_marginal(tpl, got[var], var, want[var])
        P = preds(var[1])
        if st in ("ok", "dropped"):
            ctx.ok()
            judged += 1
            if st == "dropped" and var[1] == 0:
                dropped0 = True
            elif st == "dropped":
                dropped = True
            for p in P:
                ctx.note(f"right-despite:{p}")
            continue
        if st == "malformed":
            ctx.violation("c17:malformed-result", f"{label}[{var}]: {txt}", **detail)
            continue
        # ---- wrong value: attribute it to a mechanism from the structure of the call, confirmed by re-running
        #      with the triggering feature neutralised where that is possible
        what = f"{label}[{var}]: {txt}"
        if "multi-slice-query" in P:
            sub = [x for x in qv if x[1] == var[1]]
            r2 = engine_call(ctx, box.fresh(), tpl, mode, q["api"], sub, ev)
            if ctx.failed(r2):
                key, extra = exception_key(ctx, box, tpl, mode, q["api"], sub, ev, r2)
                ctx.violation(key, f"{what}; queried alone (slice {var[1]} only) the call raises {r2!r}{extra}",
                              **detail)
                continue
            if _read_one(ctx, tpl, r2, var, want[var]) in ("ok", "dropped"):
                ctx.violation("c17:multi-slice-query",
                              f"{what}; the same variable queried alone (slice {var[1]} only) is right", **detail)
                continue
            hor2 = max([var[1]] + [t for _, t in ev])
            P = call_predicates(tpl, mode, [var[1]], ev, hor2)[0](var[1])
            what += "; also wrong when queried alone"
        if P:
            ctx.violation("c17:" + "+".join(sorted(P)), what, **detail)
            continue
        r3 = engine_call(ctx, box.fresh(), tpl, mode, q["api"], qv, ev)
        ok3 = (not ctx.failed(r3)) and _read_one(ctx, tpl, r3, var, want[var]) in ("ok", "dropped")
        ctx.violation("c17:engine-history" if ok3 else "c17:wrong-marginal",
                      what + ("; a fresh engine answers correctly" if ok3 else ""), **detail)
    # the caller owns the returned factors: overwrite them, later answers of the same engine must not change
    try:
        for f in r.values():
            f.values[...] = -7.0
    except Exception:
        pass
    if dropped0:
        ctx.violation("c17:state-names-dropped:slice0-result",
                      f"{label}: values are right but a slice-0 result carries labels 0..k-1 instead of the "
                      f"template's state names", **detail)
    if dropped:
        ctx.violation("c17:state-names-dropped:inference-result",
                      f"{label}: values are right but the returned factor for a slice >= 1 carries labels 0..k-1 "
                      f"instead of the template's state names", **detail)
    return judged


def check_constant_bn(ctx, tpl, d, ts, tag=""):
    label = f"get_constant_bn(t_slice={ts}){tag}"
    bn = ctx.call(d.get_constant_bn, t_slice=ts) if ts else ctx.call(d.get_constant_bn)
    if ctx.failed(bn):
        used0 = {x for e in tpl["intra"] for x in e} | {u for u, _ in tpl["inter"]}
        lonely = [v for v in tpl["vars"] if v not in used0]
        if lonely and bn.type == "ValueError" and bn.where.endswith("add_cpds"):
            return ctx.violation("c17:constant-bn-isolated-node", f"{label} raised {bn!r}: the slice-0 copy of "
                                 f"{lonely} has no edge", intra=tpl["intra"], inter=tpl["inter"])
        return ctx.violation(f"c17:exception:{bn.type}@{bn.where}", f"{label} raised {bn!r}")
    cn = lambda v, t: f"{rname(tpl, v)}_{t}"          # documented naming: '{var}_{time}'
    back = {cn(v, t): v for v in tpl["vars"] for t in (ts, ts + 1)}
    want_edges = {(cn(u, s + ts), cn(v, s + ts)) for u, v in tpl["intra"] for s in (0, 1)} | \
                 {(cn(u, ts), cn(v, ts + 1)) for u, v in tpl["inter"]}
    try:
        got_edges = {(str(a), str(b)) for a, b in bn.edges()}
    except Exception as e:
        return ctx.violation("c17:malformed-result", f"{label}: cannot read edges: {e}")
    ctx.expect(got_edges == want_edges, "c17:constant-bn-edges",
               f"{label}: edges {sorted(got_edges)} != two-slice template {sorted(want_edges)}")
    dropped = False
    for sl, key in ((0, "cpd0"), (1, "cpd1")):
        for v in tpl["vars"]:
            c = tpl[key][v]
            child = cn(v, sl + ts)
            pa = [cn(u, (0 if sl == 0 else s) + ts) for u, s in c["parents"]]
            card_of = lambda nm: tpl["card"][back[nm]]
            cpd = ctx.call(bn.get_cpds, child)
            if ctx.failed(cpd) or cpd is None:
                ctx.violation("c17:constant-bn-cpd", f"{label}: no CPD for {child}: {cpd!r}")
                continue
            try:
                got = read_view(cpd)
            except Exception as e:
                ctx.violation("c17:malformed-result", f"{label}: cannot read CPD of {child}: {e}")
                continue
            want = expected_cpd_view(child, pa, card_of, c["table"], lambda nm: node_labels(tpl, back[nm]))
            diff = view_diff(got, want)
            if diff is None:
                ctx.ok()
                continue
            if tpl.get("states"):
                want_pos = expected_cpd_view(child, pa, card_of, c["table"], lambda nm: list(range(card_of(nm))))
                if view_diff(got, want_pos) is None:
                    dropped = True
                    continue
            ctx.violation("c17:constant-bn-cpd", f"{label}: CPD of {child} differs from the template: {diff}",
                          parents=pa)
    if dropped:
        ctx.violation("c17:state-names-dropped:constant-bn",
                      f"{label}: CPD values are the template's but every state is relabelled 0..k-1 "
                      f"(template state names {tpl['states']})")
    ok = ctx.call(bn.check_model)
    ctx.expect(ok is True, "c17:constant-bn-invalid", f"{label}: check_model of the returned network: {ok!r}")
    return bn


def check_completion(ctx, tpl, partial):
    which = {(v, s) for v, s in partial}
    need = [(v, s) for s in (0, 1) for v in tpl["vars"] if (v, s) not in which]
    if not need:
        ctx.note("completion:nothing-to-add")
    d = build_dbn(tpl, which)
    vmap = lambda x: _nid(tpl, x)
    try:
        before = [(vmap(c.variable), read_view(c, vmap)) for c in d.cpds]
    except Exception as e:  # our own CPDs must be readable
        raise AssertionError(f"cannot read own CPDs: {e}")
    # structural predicates of the two known defects
    def source(v, s):
        return tpl["cpd1" if s == 0 else "cpd0"][v]      # the CPD that has to be copied to (v, s)
    graph_order = {v: [u for u, w in tpl["intra"] if w == v] for v in tpl["vars"]}
    p_nonbin = [x for x in need if not source(*x)["parents"] and tpl["card"][x[0]] != 2]
    p_order = [x for x in need if len(source(*x)["parents"]) >= 2
               and [u for u, _ in source(*x)["parents"]] != graph_order[x[0]]]
    r = ctx.call(d.initialize_initial_state)
    detail = dict(given=sorted(which), to_add=need, intra=tpl["intra"], inter=tpl["inter"], card=tpl["card"])
    if ctx.failed(r):
        P = (["init-state-nonbinary"] if p_nonbin else []) + (["init-state-parent-order"] if p_order else [])
        key = "c17:" + "+".join(P) if P else f"c17:exception:{r.type}@{r.where}"
        return ctx.violation(key, f"initialize_initial_state raised {r!r}", **detail)
    try:
        after = {}
        for c in d.cpds:
            after.setdefault(vmap(c.variable), []).append(c)
    except Exception as e:
        return ctx.violation("c17:malformed-result", f"cannot read CPD list after completion: {e}", **detail)
    for var, view in before:
        cs = after.get(var, [])
        same = len(cs) == 1
        if same:
            try:
                same = view_diff(read_view(cs[0], vmap), view, atol=0.0) is None
            except Exception:
                same = False
        ctx.expect(same, "c17:init-state-altered-existing",
                   f"initialize_initial_state changed / duplicated the given CPD of {var}", **detail)
    dropped = False
    for v, s in need:
        cs = after.get((v, s), [])
        if len(cs) != 1:
            ctx.violation("c17:init-state-missing", f"after initialize_initial_state there are {len(cs)} CPDs "
                          f"for {(v, s)} (the CPD of {(v, 1 - s)} had to be copied)", **detail)
            continue
        src = source(v, s)
        pa = [(u, s) for u, _ in src["parents"]]
        card_of = lambda x: tpl["card"][x[0]]
        want = expected_cpd_view((v, s), pa, card_of, src["table"], lambda x: node_labels(tpl, x[0]))
        try:
            got = read_view(cs[0], vmap)
            diff = view_diff(got, want)
        except Exception as e:
            diff = f"cannot read: {type(e).__name__}: {e}"
            got = None
        if diff is None:
            ctx.ok()
            continue
        if (v, s) in p_order:
            ctx.violation("c17:init-state-parent-order",
                          f"CPD added for {(v, s)} is not the CPD of {(v, 1 - s)}: {diff}; the source CPD lists its "
                          f"parents as {[u for u, _ in src['parents']]}, the graph as {graph_order[v]}", **detail)
            continue
        if tpl.get("states") and got is not None:
            want_pos = expected_cpd_view((v, s), pa, card_of, src["table"], lambda x: list(range(card_of(x))))
            if view_diff(got, want_pos) is None:
                dropped = True
                continue
        ctx.violation("c17:init-state-wrong-copy", f"CPD added for {(v, s)} is not the CPD of {(v, 1 - s)}: {diff}",
                      **detail)
    if dropped:
        ctx.violation("c17:state-names-dropped:init-state",
                      "the CPDs added by initialize_initial_state have the right values but labels 0..k-1 instead "
                      "of the source CPD's state names", **detail)


def _install_cap(ctx):
    """Record at most one violation per mechanism key and case (Ctx keeps only 20 per case): a flood of a known
    mechanism must not push a different violation out of the record.  Further hits are counted as notes."""
    seen = set()
    orig = type(ctx).violation

    def violation(key, what, **detail):
        if key in seen:
            ctx.checks += 1
            ctx.note(f"more:{key}")
            return
        seen.add(key)
        orig(ctx, key, what, **detail)

    ctx.violation = violation


def run_case(spec, ctx):
    from pgmpy.inference import DBNInference

    _install_cap(ctx)

    tpl = spec["tpl"]
    U = Unrolled(tpl)
    ctx.feature(f"kind:{tpl['kind']}")
    ctx.feature(f"iface:{len(iface_parents(tpl))}")
    if tpl.get("states"):
        ctx.feature("named-states")
    if iface_parents(tpl) != iface_children(tpl):
        ctx.feature("inter-edge-to-other-variable")
    if max(tpl["card"].values()) > 2:
        ctx.feature("card>2")
    if tpl.get("tiny"):
        ctx.feature("cpd-entries-1e-12..1e-4")
    if tpl.get("zeros"):
        ctx.feature("cpd-zeros")
    if tpl.get("names"):
        ctx.feature("names:int(0,multi-digit)" if isinstance(next(iter(tpl["names"].values())), int)
                    else "names:underscore/empty-string")
    if tpl.get("states") and any(l in ("", "0", "None", "False") for ls in tpl["states"].values() for l in ls):
        ctx.feature("labels:falsy/numeric-looking")

    # ---- the oracle checks itself: recursion vs brute-force joint of the unrolled network
    for q in spec["queries"]:
        if q["brute"]:
            qv = [tuple(x) for x in q["vars"]]
            ev = {(v, t): s for v, t, s in q["evidence"]}
            hor = max([t for _, t in qv] + [t for _, t in ev])
            sm, fl = U.smoothed(ev, hor, qv)[0], U.filtered(ev, hor, qv)
            b1, b2 = brute_marginals(tpl, hor, ev, qv), brute_marginals(tpl, hor, ev, qv, filtering=True)
            for k in qv:
                if not (np.allclose(b1[k], sm[k], atol=1e-12) and np.allclose(b2[k], fl[k], atol=1e-12)):
                    raise AssertionError(f"oracle self-check failed for {k}: {b1[k]} {sm[k]} {b2[k]} {fl[k]}")
            ctx.note("oracle-selfcheck")

    # ---- full model: completion must be a no-op, constant network must expose the template
    d = build_dbn(tpl)
    vmap = lambda x: _nid(tpl, x)
    before = [(vmap(c.variable), read_view(c, vmap)) for c in d.cpds]

    def unchanged(what):
        try:
            after = [(vmap(c.variable), read_view(c, vmap)) for c in d.cpds]
            same = len(after) == len(before) and all(a[0] == b[0] and view_diff(a[1], b[1], atol=0.0) is None
                                                     for a, b in zip(after, before))
        except Exception:
            same = False
        return ctx.expect(same, "c17:init-state-altered-existing" if "initialize" in what else "c17:model-altered",
                          f"{what} changed the CPD list of the model")

    for rnd in (1, 2):                       # the same object twice: the second call sees the first one's result
        r = ctx.call(d.initialize_initial_state)
        if ctx.failed(r):
            ctx.violation(f"c17:exception:{r.type}@{r.where}",
                          f"initialize_initial_state (call {rnd}) on a complete model raised {r!r}")
        else:
            unchanged(f"initialize_initial_state (call {rnd}) on a model that already had every CPD")
    bn = check_constant_bn(ctx, tpl, d, 0)
    if bn is not None and not ctx.failed(bn):
        # the returned network belongs to the caller: scribbling over it must not reach the model or a later call
        try:
            for c in bn.cpds:
                c.values[...] = 0.25
            bn.remove_cpds(*list(bn.cpds))
        except Exception:
            pass
        unchanged("get_constant_bn (returned network then overwritten by the caller)")
    check_constant_bn(ctx, tpl, d, spec["tslice"])
    check_constant_bn(ctx, tpl, d, 0, tag=" [second call on the same model]")
    check_completion(ctx, tpl, spec["partial"])

    # ---- inference
    iso = isolated_vars(tpl)
    conn = slices_connected(tpl)
    inf = ctx.call(DBNInference, d)
    if ctx.failed(inf):
        if iso and inf.type == "ValueError" and inf.where.endswith("add_cpds"):
            ctx.violation("c17:isolated-slice-node", f"DBNInference(model) raised {inf!r}: variables {iso} have no "
                          f"intra-slice edge", intra=tpl["intra"], inter=tpl["inter"])
        elif not conn and inf.type == "ValueError":
            # the library refuses disconnected clique trees by design (see C02's quantifier): a refusal, not a violation
            ctx.note("refused:disconnected-slice")
            ctx.feature("disconnected-slice-refused")
        else:
            ctx.violation(f"c17:exception:{inf.type}@{inf.where}", f"DBNInference(model) raised {inf!r}",
                          intra=tpl["intra"], inter=tpl["inter"])
        return
    box = EngineBox(tpl, ctx)
    judged = 0
    nt = False
    for q in spec["queries"]:
        ev = q["evidence"]
        hor = max([t for _, t in q["vars"]] + [t for _, t, _ in ev])
        if len({t for _, t in q["vars"]}) > 1:
            ctx.feature("multi-slice-query")
        if any(v in iface_parents(tpl) for v, _, _ in ev):
            ctx.feature("interface-evidence")
        if len({t for _, t, _ in ev}) > 1:
            ctx.feature("evidence-in-several-slices")
        if ev and max(t for _, t, _ in ev) > min(t for _, t in q["vars"]):
            ctx.feature("smoothing(later-evidence)")
        if hor >= 3:
            ctx.feature("horizon>=3")
        if q.get("tag", "base") != "base":
            ctx.feature("sequence:" + q["tag"].split("-")[0])
        if not ev and q.get("empty") == "dict":
            ctx.feature("evidence={}")
        modes = ("forward", "backward") if q.get("first", "forward") == "forward" else ("backward", "forward")
        for mode in modes:
            n = check_call(ctx, box, inf, tpl, U, mode, q)
            judged += n
            if n and ev and hor >= 1:
                nt = True
    ctx.nontrivial = nt
    check_edit_sequence(ctx, spec, d)


def check_edit_sequence(ctx, spec, d):
    """ONE model object edited in place after it has already served initialize_initial_state, get_constant_bn and an
    inference engine: a CPD is replaced; the constant network, the completion and a new engine built from the same
    object must answer for the EDITED template (nothing memoised from before the edit)."""
    from pgmpy.inference import DBNInference
    tpl, ed = spec["tpl"], spec["edit"]
    tpl2, v = ed["tpl2"], ed["var"]
    R = lambda x: rname(tpl, x)
    vmap = lambda x: _nid(tpl2, x)
    label = f"edit of {v}" + (" (both slices, slice 1 re-added by initialize_initial_state)" if ed["both"] else " (slice 1)")
    for sl in ((0, 1) if ed["both"] else (1,)):
        old = ctx.call(d.get_cpds, (R(v), sl))
        r = ctx.call(d.remove_cpds, old) if not ctx.failed(old) else old
        if ctx.failed(r):
            return ctx.violation(f"c17:exception:{r.type}@{r.where}", f"{label}: removing the CPD of {(v, sl)} raised {r!r}")
    r = ctx.call(d.add_cpds, make_cpd(tpl2, v, 0 if ed["both"] else 1))
    if not ctx.failed(r) and ed["both"]:
        r = ctx.call(d.initialize_initial_state)
    if ctx.failed(r):
        return ctx.violation(f"c17:exception:{r.type}@{r.where}", f"{label}: add_cpds / initialize_initial_state raised {r!r}")
    # every CPD of the model is now the edited template's
    try:
        have = {}
        for c in d.cpds:
            have.setdefault(vmap(c.variable), []).append(read_view(c, vmap))
    except Exception as e:
        return ctx.violation("c17:malformed-result", f"{label}: cannot read the CPD list: {e}")
    card_of = lambda x: tpl2["card"][x[0]]
    for sl, key in ((0, "cpd0"), (1, "cpd1")):
        for u in tpl2["vars"]:
            c = tpl2[key][u]
            pa = [(p, 0 if sl == 0 else s) for p, s in c["parents"]]
            want = expected_cpd_view((u, sl), pa, card_of, c["table"], lambda x: node_labels(tpl2, x[0]))
            views = have.get((u, sl), [])
            ok = len(views) == 1 and view_diff(views[0], want) is None
            ctx.expect(ok, "c17:edit-sequence-cpds", f"{label}: the model holds {len(views)} CPDs for {(u, sl)}"
                       + ("" if len(views) != 1 else f", differing from the edited template: {view_diff(views[0], want)}"))
    check_constant_bn(ctx, tpl2, d, 0, tag=f" [after {label}]")
    inf2 = ctx.call(DBNInference, d)
    if ctx.failed(inf2):
        if slices_connected(tpl2) or inf2.type != "ValueError":      # disconnected slice graph: documented refusal
            ctx.violation(f"c17:exception:{inf2.type}@{inf2.where}", f"{label}: DBNInference(model) raised {inf2!r}")
        return
    U2 = Unrolled(tpl2)
    box2 = EngineBox(tpl2, ctx)
    for q in ed["queries"]:
        for mode in ("forward", "backward"):
            check_call(ctx, box2, inf2, tpl2, U2, mode, q)
    ctx.feature("model-edit-sequence")
